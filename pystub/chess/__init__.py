"""
Minimal stand-in for the part of python-chess that /repo/tools/style/style.py uses.

python-chess cannot be installed in the verification sandbox, so this package provides exactly the API
surface the style tool touches, with the documented python-chess semantics:

    chess.Color / chess.WHITE / chess.BLACK            (bool, True = white)
    chess.PieceType / PAWN KNIGHT BISHOP ROOK QUEEN KING (1..6)
    chess.Square, chess.square_file, chess.square_rank, chess.square_distance, chess.square,
    chess.parse_square, chess.square_name, chess.SQUARE_NAMES, chess.A1 .. chess.H8
    chess.STARTING_FEN
    chess.Move(from_square, to_square, promotion=None), Move.from_uci, Move.uci, Move.null
    chess.Piece(piece_type, color)
    chess.SquareSet (len / iter / in / bool)
    chess.Board(fen=STARTING_FEN): turn, ep_square, fullmove_number, halfmove_clock, move_stack,
        piece_at, piece_type_at, color_at, king, pieces, is_capture, is_en_passant, is_castling,
        is_kingside_castling, is_queenside_castling, push, pop-less; is_attacked_by, attackers,
        is_check, gives_check, copy, board_fen, fen, set_fen
    chess.pgn.read_game, Game.headers, Game.mainline_moves, Game.board      (see chess/pgn.py)

The board is a plain 64-entry mailbox.  `push` applies a move WITHOUT any legality test (python-chess
does the same): it relocates the rook when castling (both the standard `e1g1` and the
king-takes-own-rook encoding), removes the pawn captured en passant, and promotes.  Move *generation*
is deliberately absent: the verification inputs are produced by the (verified) generator of the Lean
model and only replayed here.
"""

from __future__ import annotations

from typing import Iterator, List, Optional

Color = bool
WHITE: Color = True
BLACK: Color = False
COLORS = [WHITE, BLACK]
COLOR_NAMES = ["black", "white"]

PieceType = int
PAWN: PieceType = 1
KNIGHT: PieceType = 2
BISHOP: PieceType = 3
ROOK: PieceType = 4
QUEEN: PieceType = 5
KING: PieceType = 6
PIECE_TYPES = [PAWN, KNIGHT, BISHOP, ROOK, QUEEN, KING]
PIECE_SYMBOLS = [None, "p", "n", "b", "r", "q", "k"]
PIECE_NAMES = [None, "pawn", "knight", "bishop", "rook", "queen", "king"]

FILE_NAMES = ["a", "b", "c", "d", "e", "f", "g", "h"]
RANK_NAMES = ["1", "2", "3", "4", "5", "6", "7", "8"]

STARTING_FEN = "rnbqkbnr/pppppppp/8/8/8/8/PPPPPPPP/RNBQKBNR w KQkq - 0 1"
STARTING_BOARD_FEN = "rnbqkbnr/pppppppp/8/8/8/8/PPPPPPPP/RNBQKBNR"

Square = int
SQUARES = list(range(64))
SQUARE_NAMES = [f + r for r in RANK_NAMES for f in FILE_NAMES]
(A1, B1, C1, D1, E1, F1, G1, H1,
 A2, B2, C2, D2, E2, F2, G2, H2,
 A3, B3, C3, D3, E3, F3, G3, H3,
 A4, B4, C4, D4, E4, F4, G4, H4,
 A5, B5, C5, D5, E5, F5, G5, H5,
 A6, B6, C6, D6, E6, F6, G6, H6,
 A7, B7, C7, D7, E7, F7, G7, H7,
 A8, B8, C8, D8, E8, F8, G8, H8) = SQUARES


def parse_square(name: str) -> Square:
    return SQUARE_NAMES.index(name)


def square_name(square: Square) -> str:
    return SQUARE_NAMES[square]


def square(file_index: int, rank_index: int) -> Square:
    return rank_index * 8 + file_index


def square_file(square: Square) -> int:
    return square & 7


def square_rank(square: Square) -> int:
    return square >> 3


def square_distance(a: Square, b: Square) -> int:
    """Chebyshev distance (number of king steps)."""
    return max(abs(square_file(a) - square_file(b)), abs(square_rank(a) - square_rank(b)))


def square_mirror(square: Square) -> Square:
    return square ^ 0x38


def piece_symbol(piece_type: PieceType) -> str:
    return PIECE_SYMBOLS[piece_type]


class Piece:
    __slots__ = ("piece_type", "color")

    def __init__(self, piece_type: PieceType, color: Color) -> None:
        self.piece_type = piece_type
        self.color = color

    def symbol(self) -> str:
        s = PIECE_SYMBOLS[self.piece_type]
        return s.upper() if self.color else s

    @classmethod
    def from_symbol(cls, symbol: str) -> "Piece":
        return cls(PIECE_SYMBOLS.index(symbol.lower()), symbol.isupper())

    def __eq__(self, other: object) -> bool:
        return isinstance(other, Piece) and self.piece_type == other.piece_type and self.color == other.color

    def __hash__(self) -> int:
        return self.piece_type + (0 if self.color else 6)

    def __repr__(self) -> str:
        return f"Piece.from_symbol({self.symbol()!r})"


class Move:
    __slots__ = ("from_square", "to_square", "promotion", "drop")

    def __init__(self, from_square: Square, to_square: Square, promotion: Optional[PieceType] = None,
                 drop: Optional[PieceType] = None) -> None:
        self.from_square = from_square
        self.to_square = to_square
        self.promotion = promotion
        self.drop = drop

    def uci(self) -> str:
        if self.from_square == self.to_square == 0 and self.promotion is None:
            return "0000"
        s = SQUARE_NAMES[self.from_square] + SQUARE_NAMES[self.to_square]
        if self.promotion:
            s += PIECE_SYMBOLS[self.promotion]
        return s

    def __bool__(self) -> bool:
        return bool(self.from_square or self.to_square or self.promotion)

    @classmethod
    def from_uci(cls, uci: str) -> "Move":
        if uci == "0000":
            return cls.null()
        if len(uci) not in (4, 5):
            raise ValueError(f"expected uci string to be of length 4 or 5: {uci!r}")
        try:
            from_square = SQUARE_NAMES.index(uci[0:2])
            to_square = SQUARE_NAMES.index(uci[2:4])
            promotion = PIECE_SYMBOLS.index(uci[4]) if len(uci) == 5 else None
        except ValueError:
            raise ValueError(f"invalid uci: {uci!r}")
        if promotion is not None and promotion not in (KNIGHT, BISHOP, ROOK, QUEEN):
            raise ValueError(f"invalid uci: {uci!r}")
        if from_square == to_square:
            raise ValueError(f"invalid uci (use 0000 for null moves): {uci!r}")
        return cls(from_square, to_square, promotion)

    @classmethod
    def null(cls) -> "Move":
        return cls(0, 0)

    def __eq__(self, other: object) -> bool:
        return (isinstance(other, Move) and self.from_square == other.from_square and
                self.to_square == other.to_square and self.promotion == other.promotion)

    def __hash__(self) -> int:
        return hash((self.from_square, self.to_square, self.promotion))

    def __repr__(self) -> str:
        return f"Move.from_uci({self.uci()!r})"

    def __str__(self) -> str:
        return self.uci()


class SquareSet:
    """Set of squares; supports exactly len / iteration / membership / truth / equality."""

    def __init__(self, squares=()) -> None:
        self._squares = sorted(set(squares))

    def __len__(self) -> int:
        return len(self._squares)

    def __iter__(self) -> Iterator[Square]:
        return iter(self._squares)

    def __contains__(self, square: Square) -> bool:
        return square in self._squares

    def __bool__(self) -> bool:
        return bool(self._squares)

    def __eq__(self, other: object) -> bool:
        try:
            return self._squares == sorted(set(other))  # type: ignore
        except TypeError:
            return NotImplemented

    def __repr__(self) -> str:
        return f"SquareSet({self._squares!r})"


_KNIGHT_DELTAS = [(1, 2), (2, 1), (2, -1), (1, -2), (-1, -2), (-2, -1), (-2, 1), (-1, 2)]
_KING_DELTAS = [(1, 0), (1, 1), (0, 1), (-1, 1), (-1, 0), (-1, -1), (0, -1), (1, -1)]
_ROOK_DIRS = [(1, 0), (-1, 0), (0, 1), (0, -1)]
_BISHOP_DIRS = [(1, 1), (1, -1), (-1, 1), (-1, -1)]


class Board:
    def __init__(self, fen: Optional[str] = STARTING_FEN) -> None:
        self._board: List[Optional[Piece]] = [None] * 64
        self.turn: Color = WHITE
        self.ep_square: Optional[Square] = None
        self.castling_fen: str = "-"
        self.halfmove_clock = 0
        self.fullmove_number = 1
        self.move_stack: List[Move] = []
        if fen is None:
            pass
        else:
            self.set_fen(fen)

    # ----------------------------------------------------------------- set-up
    def set_fen(self, fen: str) -> None:
        parts = fen.split()
        if not parts:
            raise ValueError("empty fen")
        self._set_board_fen(parts[0])
        turn = parts[1] if len(parts) > 1 else "w"
        if turn not in ("w", "b"):
            raise ValueError(f"expected 'w' or 'b' for turn part of fen: {fen!r}")
        self.turn = turn == "w"
        self.castling_fen = parts[2] if len(parts) > 2 else "-"
        ep = parts[3] if len(parts) > 3 else "-"
        self.ep_square = None if ep == "-" else SQUARE_NAMES.index(ep)
        self.halfmove_clock = int(parts[4]) if len(parts) > 4 else 0
        self.fullmove_number = int(parts[5]) if len(parts) > 5 else 1
        self.move_stack = []

    def _set_board_fen(self, board_fen: str) -> None:
        rows = board_fen.split("/")
        if len(rows) != 8:
            raise ValueError(f"expected 8 rows in position part of fen: {board_fen!r}")
        board: List[Optional[Piece]] = [None] * 64
        for i, row in enumerate(rows):
            rank = 7 - i
            file = 0
            for ch in row:
                if ch.isdigit():
                    file += int(ch)
                elif ch == "~":
                    continue
                elif ch.lower() in "pnbrqk":
                    if file > 7:
                        raise ValueError(f"too many squares in row of fen: {board_fen!r}")
                    board[rank * 8 + file] = Piece.from_symbol(ch)
                    file += 1
                else:
                    raise ValueError(f"invalid character in position part of fen: {board_fen!r}")
            if file != 8:
                raise ValueError(f"expected 8 columns per row in position part of fen: {board_fen!r}")
        self._board = board

    def board_fen(self) -> str:
        rows = []
        for rank in range(7, -1, -1):
            row = ""
            empty = 0
            for file in range(8):
                pc = self._board[rank * 8 + file]
                if pc is None:
                    empty += 1
                else:
                    if empty:
                        row += str(empty)
                        empty = 0
                    row += pc.symbol()
            if empty:
                row += str(empty)
            rows.append(row)
        return "/".join(rows)

    def fen(self) -> str:
        ep = "-" if self.ep_square is None else SQUARE_NAMES[self.ep_square]
        return (f"{self.board_fen()} {'w' if self.turn else 'b'} {self.castling_fen} {ep} "
                f"{self.halfmove_clock} {self.fullmove_number}")

    def copy(self) -> "Board":
        b = Board(None)
        b._board = list(self._board)
        b.turn = self.turn
        b.ep_square = self.ep_square
        b.castling_fen = self.castling_fen
        b.halfmove_clock = self.halfmove_clock
        b.fullmove_number = self.fullmove_number
        b.move_stack = list(self.move_stack)
        return b

    # ---------------------------------------------------------------- queries
    def piece_at(self, square: Square) -> Optional[Piece]:
        return self._board[square]

    def piece_type_at(self, square: Square) -> Optional[PieceType]:
        pc = self._board[square]
        return None if pc is None else pc.piece_type

    def color_at(self, square: Square) -> Optional[Color]:
        pc = self._board[square]
        return None if pc is None else pc.color

    def pieces(self, piece_type: PieceType, color: Color) -> SquareSet:
        return SquareSet(s for s in SQUARES
                         if self._board[s] is not None
                         and self._board[s].piece_type == piece_type and self._board[s].color == color)

    def king(self, color: Color) -> Optional[Square]:
        """Square of the king of `color` (python-chess: the most significant one), or None."""
        for s in range(63, -1, -1):
            pc = self._board[s]
            if pc is not None and pc.piece_type == KING and pc.color == color:
                return s
        return None

    def is_en_passant(self, move: Move) -> bool:
        return (self.ep_square == move.to_square and
                self.piece_type_at(move.from_square) == PAWN and
                abs(move.to_square - move.from_square) in (7, 9) and
                self._board[move.to_square] is None)

    def is_capture(self, move: Move) -> bool:
        # python-chess: (from|to) touches a piece of the side NOT to move, or en passant.
        enemy = not self.turn
        return (self.color_at(move.to_square) == enemy or self.color_at(move.from_square) == enemy
                or self.is_en_passant(move))

    def is_castling(self, move: Move) -> bool:
        if self.piece_type_at(move.from_square) == KING:
            diff = square_file(move.from_square) - square_file(move.to_square)
            to_pc = self._board[move.to_square]
            return abs(diff) > 1 or (to_pc is not None and to_pc.piece_type == ROOK and to_pc.color == self.turn)
        return False

    def is_kingside_castling(self, move: Move) -> bool:
        return self.is_castling(move) and square_file(move.to_square) > square_file(move.from_square)

    def is_queenside_castling(self, move: Move) -> bool:
        return self.is_castling(move) and square_file(move.to_square) < square_file(move.from_square)

    # ---------------------------------------------------------------- attacks
    def _attackers(self, color: Color, square: Square) -> List[Square]:
        res: List[Square] = []
        f0, r0 = square & 7, square >> 3
        board = self._board
        # pawns: a pawn of `color` on (f0±1, r0∓dir) attacks `square`
        pr = r0 - (1 if color else -1)
        if 0 <= pr < 8:
            for pf in (f0 - 1, f0 + 1):
                if 0 <= pf < 8:
                    pc = board[pr * 8 + pf]
                    if pc is not None and pc.color == color and pc.piece_type == PAWN:
                        res.append(pr * 8 + pf)
        for df, dr in _KNIGHT_DELTAS:
            f, r = f0 + df, r0 + dr
            if 0 <= f < 8 and 0 <= r < 8:
                pc = board[r * 8 + f]
                if pc is not None and pc.color == color and pc.piece_type == KNIGHT:
                    res.append(r * 8 + f)
        for df, dr in _KING_DELTAS:
            f, r = f0 + df, r0 + dr
            if 0 <= f < 8 and 0 <= r < 8:
                pc = board[r * 8 + f]
                if pc is not None and pc.color == color and pc.piece_type == KING:
                    res.append(r * 8 + f)
        for dirs, kinds in ((_ROOK_DIRS, (ROOK, QUEEN)), (_BISHOP_DIRS, (BISHOP, QUEEN))):
            for df, dr in dirs:
                f, r = f0 + df, r0 + dr
                while 0 <= f < 8 and 0 <= r < 8:
                    pc = board[r * 8 + f]
                    if pc is not None:
                        if pc.color == color and pc.piece_type in kinds:
                            res.append(r * 8 + f)
                        break
                    f += df
                    r += dr
        return res

    def attackers(self, color: Color, square: Square) -> SquareSet:
        return SquareSet(self._attackers(color, square))

    def is_attacked_by(self, color: Color, square: Square) -> bool:
        return bool(self._attackers(color, square))

    def checkers(self) -> SquareSet:
        king = self.king(self.turn)
        return SquareSet() if king is None else SquareSet(self._attackers(not self.turn, king))

    def is_check(self) -> bool:
        """Is the side to move in check?"""
        king = self.king(self.turn)
        return king is not None and bool(self._attackers(not self.turn, king))

    def gives_check(self, move: Move) -> bool:
        b = self.copy()
        b.push(move)
        return b.is_check()

    # ------------------------------------------------------------------- push
    def push(self, move: Move) -> None:
        """Apply `move` without testing legality (like python-chess)."""
        self.move_stack.append(move)
        ep_square = self.ep_square
        self.ep_square = None
        self.halfmove_clock += 1
        if self.turn == BLACK:
            self.fullmove_number += 1

        if not move:  # null move
            self.turn = not self.turn
            return

        board = self._board
        piece = board[move.from_square]
        assert piece is not None, f"push() expects move to be pseudo-legal, but got {move} in {self.board_fen()}"
        piece_type = piece.piece_type
        castling = self.is_castling(move)
        captured = board[move.to_square]

        if piece_type == PAWN or (captured is not None and not castling):
            self.halfmove_clock = 0

        board[move.from_square] = None

        if castling:
            backrank = move.from_square & ~7
            a_side = square_file(move.to_square) < square_file(move.from_square)
            # locate the rook: the target square if it holds an own rook, else the corner-most own rook
            if captured is not None and captured.piece_type == ROOK and captured.color == self.turn:
                rook_sq = move.to_square
            else:
                rook_sq = None
                files = range(0, square_file(move.from_square)) if a_side else range(7, square_file(move.from_square), -1)
                for f in files:
                    pc = board[backrank + f]
                    if pc is not None and pc.piece_type == ROOK and pc.color == self.turn:
                        rook_sq = backrank + f
                        break
            if rook_sq is not None:
                board[rook_sq] = None
            board[backrank + (2 if a_side else 6)] = Piece(KING, self.turn)
            if rook_sq is not None:
                board[backrank + (3 if a_side else 5)] = Piece(ROOK, self.turn)
            self.turn = not self.turn
            return

        if piece_type == PAWN:
            diff = move.to_square - move.from_square
            if diff == 16 and square_rank(move.from_square) == 1:
                self.ep_square = move.from_square + 8
            elif diff == -16 and square_rank(move.from_square) == 6:
                self.ep_square = move.from_square - 8
            elif move.to_square == ep_square and abs(diff) in (7, 9) and captured is None:
                # en passant: remove the pawn that made the double step
                down = -8 if self.turn == WHITE else 8
                board[ep_square + down] = None

        if move.promotion:
            board[move.to_square] = Piece(move.promotion, self.turn)
        else:
            board[move.to_square] = piece
        self.turn = not self.turn

    def push_uci(self, uci: str) -> Move:
        move = Move.from_uci(uci)
        self.push(move)
        return move

    def __str__(self) -> str:
        rows = []
        for rank in range(7, -1, -1):
            rows.append(" ".join((self._board[rank * 8 + f].symbol() if self._board[rank * 8 + f] else ".")
                                 for f in range(8)))
        return "\n".join(rows)

    def __repr__(self) -> str:
        return f"Board({self.fen()!r})"
