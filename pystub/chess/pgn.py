"""
Stand-in for the part of `chess.pgn` that /repo/tools/style/style.py uses:

    chess.pgn.read_game(handle) -> Game | None
    Game.headers        mapping with the seven-tag-roster defaults of python-chess
                        (Event Site Date Round White Black = "?"/"????.??.??", Result = "*")
    Game.mainline_moves()   iterable of chess.Move
    Game.board()            start position (FEN header or the standard one)
    Game.errors

The reader follows the state machine of python-chess' `read_game` (header block, at most one empty
line tolerated inside/after the headers, movetext up to an empty line, a result token or EOF;
comments, NAGs and variations are skipped).  Move tokens are NOT SAN.  Accepted are
  * UCI / long algebraic coordinates: `e2e4`, `e7e8q`, `e1g1` (castling: king two files, or king
    takes own rook), optionally decorated like python-chess' LAN output: `Ng1-f3`, `e4xd5`,
    `e7-e8=Q+`, `Qh4xf2#`;
  * `O-O` / `O-O-O` (`0-0`, `0-0-0`).
No legality test is made: the verification harness only feeds games produced by the verified move
generator of the Lean model.
"""

from __future__ import annotations

import re
from typing import Dict, Iterator, List, Optional

import chess

TAG_REGEX = re.compile(r"^\[([A-Za-z0-9][A-Za-z0-9_+#=:-]*)\s+\"([^\r]*)\"\]\s*$")

MOVETEXT_REGEX = re.compile(r"""
    (
        [NBKRQ]?[a-h][1-8][\-x]?[a-h][1-8](?:=?[nbrqNBRQ])?
        |O-O(?:-O)?
        |0-0(?:-0)?
        |--|Z0|0000|@@@@
    )
    |(\{.*?\}|\{.*)
    |(;.*)
    |(\$[0-9]+)
    |(\()
    |(\))
    |(\*|1-0|0-1|1/2-1/2)
    |([\?!]{1,2})
    """, re.DOTALL | re.VERBOSE)

LAN_REGEX = re.compile(r"^([NBKRQ])?([a-h][1-8])[\-x]?([a-h][1-8])(?:=?([nbrqNBRQ]))?$")

TAG_ROSTER = ["Event", "Site", "Date", "Round", "White", "Black", "Result"]


class Headers:
    """dict-like; the seven tag roster is always present (python-chess behaviour)."""

    def __init__(self, data=None, **kwargs: str) -> None:
        self._tag_roster: Dict[str, str] = {}
        self._others: Dict[str, str] = {}
        if data is None:
            data = {
                "Event": "?",
                "Site": "?",
                "Date": "????.??.??",
                "Round": "?",
                "White": "?",
                "Black": "?",
                "Result": "*",
            }
        for k, v in dict(data).items():
            self[k] = v
        for k, v in kwargs.items():
            self[k] = v

    def __setitem__(self, key: str, value: str) -> None:
        if key in TAG_ROSTER:
            self._tag_roster[key] = value
        else:
            self._others[key] = value

    def __getitem__(self, key: str) -> str:
        if key in TAG_ROSTER:
            return self._tag_roster[key]
        return self._others[key]

    def __delitem__(self, key: str) -> None:
        if key in TAG_ROSTER:
            del self._tag_roster[key]
        else:
            del self._others[key]

    def __contains__(self, key: object) -> bool:
        return key in self._tag_roster or key in self._others

    def __iter__(self) -> Iterator[str]:
        for k in TAG_ROSTER:
            if k in self._tag_roster:
                yield k
        yield from sorted(self._others)

    def __len__(self) -> int:
        return len(self._tag_roster) + len(self._others)

    def get(self, key: str, default=None):
        return self[key] if key in self else default

    def keys(self):
        return list(iter(self))

    def items(self):
        return [(k, self[k]) for k in self]

    def __repr__(self) -> str:
        return "Headers(" + ", ".join(f"{k}={v!r}" for k, v in self.items()) + ")"


class Mainline:
    def __init__(self, moves: List[chess.Move]) -> None:
        self._moves = moves

    def __iter__(self) -> Iterator[chess.Move]:
        return iter(list(self._moves))

    def __len__(self) -> int:
        return len(self._moves)

    def __bool__(self) -> bool:
        return bool(self._moves)

    def __repr__(self) -> str:
        return "<Mainline (" + " ".join(m.uci() for m in self._moves) + ")>"


class Game:
    def __init__(self, headers: Optional[Headers] = None) -> None:
        self.headers = Headers(headers) if headers is not None else Headers()
        self._moves: List[chess.Move] = []
        self.errors: List[Exception] = []

    def board(self) -> chess.Board:
        return chess.Board(self.headers.get("FEN", chess.STARTING_FEN))

    def mainline_moves(self) -> Mainline:
        return Mainline(self._moves)

    def end(self) -> "Game":
        return self

    def __repr__(self) -> str:
        return f"<Game ({self.headers.get('White', '?')!r} vs. {self.headers.get('Black', '?')!r}, {len(self._moves)} plies)>"


def _parse_move(board: chess.Board, token: str) -> chess.Move:
    if token in ("--", "Z0", "0000", "@@@@"):
        return chess.Move.null()
    if token in ("O-O", "0-0", "O-O-O", "0-0-0"):
        king = board.king(board.turn)
        if king is None:
            raise ValueError(f"no king to castle with: {token!r} in {board.fen()}")
        file = 6 if token in ("O-O", "0-0") else 2
        return chess.Move(king, (king & ~7) + file)
    m = LAN_REGEX.match(token)
    if not m:
        raise ValueError(f"invalid move token: {token!r}")
    letter, frm, to, promo = m.groups()
    move = chess.Move(chess.SQUARE_NAMES.index(frm), chess.SQUARE_NAMES.index(to),
                      chess.PIECE_SYMBOLS.index(promo.lower()) if promo else None)
    if move.from_square == move.to_square:
        raise ValueError(f"invalid move token: {token!r}")
    pt = board.piece_type_at(move.from_square)
    if pt is None or board.color_at(move.from_square) != board.turn:
        raise ValueError(f"illegal move: {token!r} in {board.fen()}")
    if letter is not None and chess.PIECE_SYMBOLS[pt].upper() != letter:
        raise ValueError(f"illegal move: {token!r} in {board.fen()}")
    return move


def read_game(handle) -> Optional[Game]:
    game: Optional[Game] = None
    found_game = False

    line = handle.readline().lstrip("﻿")

    # ---- headers
    consecutive_empty_lines = 0
    while line:
        if line.startswith("%") or line.startswith(";"):
            line = handle.readline()
            continue
        if consecutive_empty_lines < 1 and line.isspace():
            consecutive_empty_lines += 1
            line = handle.readline()
            continue
        if not found_game:
            found_game = True
            game = Game()
        if not line.startswith("["):
            break
        consecutive_empty_lines = 0
        tag = TAG_REGEX.match(line)
        if tag:
            game.headers[tag.group(1)] = tag.group(2)
        line = handle.readline()

    if not found_game:
        return None
    assert game is not None

    # single empty line after the headers
    if line.isspace():
        line = handle.readline()

    try:
        board = game.board()
    except ValueError as err:
        game.errors.append(err)
        board = chess.Board()

    # ---- movetext
    depth = 0          # variation nesting (contents skipped)
    dead = False       # after a parse error the rest of the game is skipped
    fresh_line = True
    while line:
        if fresh_line:
            if line.startswith("%") or line.startswith(";"):
                line = handle.readline()
                continue
            if line.isspace():
                return game
        fresh_line = False
        for match in MOVETEXT_REGEX.finditer(line):
            mv, comment, eol_comment, nag, lpar, rpar, result, annot = match.groups()
            if comment or eol_comment or nag or annot:
                continue
            if lpar:
                depth += 1
                continue
            if rpar:
                depth = max(0, depth - 1)
                continue
            if depth > 0 or dead:
                continue
            if result:
                if game.headers.get("Result", "*") == "*":
                    game.headers["Result"] = result
                continue
            if mv:
                try:
                    move = _parse_move(board, mv)
                    board.push(move)
                    game._moves.append(move)
                except (ValueError, AssertionError) as err:
                    game.errors.append(err)
                    dead = True
        line = handle.readline()
        fresh_line = True
    return game
