#!/usr/bin/env python3
"""Mutation self-test of tools/rust2lean_search.py + lean/Rawr/Proofs/RustSearchAgree*.lean.

For each single-token / single-statement mutation of a function translated by rust2lean_search.py (applied to a scratch
COPY of the sources, never /repo): re-run the translator (RAWR_REPO = the copy, output into a PRIVATE copy of the lake
project) and rebuild the agreement theorems.  A mutant is DETECTED when the translator reports TRANSLATE-ERROR or an
agreement file no longer compiles.  Kinds: "B" behaviour-changing (must be detected), "N" behaviour-neutral (may be
flagged: the agreement is syntactic), "A" changes something the MODEL does not represent (error text, `mate`/`elapsed`
of an Info record): the agreement theorems project these away, so they are expected to pass; they are listed so that
the gap is explicit.

usage: rust2lean_search_selftest.py --lean /tmp/agents/t1/lean [--repo /repo] [--work /tmp/rust2lean_search_selftest]
                                    [--jobs 8] [--only N,M,..] [--timeout 600]
`--lean` is copied `--jobs` times under `--work`; the copies are modified, the original is not.  Never point it at /verif/lean.
"""
import argparse
import os
import queue
import shutil
import subprocess
import sys
import threading
import time

HERE = os.path.dirname(os.path.abspath(__file__))
TARGETS = ["Rawr.Proofs.RustSearchAgree", "Rawr.Proofs.RustSearchAgree_Perft", "Rawr.Proofs.RustSearchAgree_Sort", "Rawr.Proofs.RustSearchAgree_QSearch",
           "Rawr.Proofs.RustSearchAgree_Negamax", "Rawr.Proofs.RustSearchAgree_Root"]
P, H, Q, N, R, S = ("src/chess/perft.rs", "src/search/hashtable.rs", "src/search/qsearch.rs", "src/search/negamax.rs",
                    "src/search/root.rs", "src/search/score.rs")

# (file, old text, new text, kind)
M = [
    # ---- perft.rs
    (P, "if depth == 0 {\n            return 1;", "if depth == 0 {\n            return 2;", "B"),
    (P, "depth == 1", "depth == 2", "B"),
    (P, "self.count_moves() as u64", "self.count_moves() as u64 + 1", "B"),
    (P, "let mut nodes = 0u64;", "let mut nodes = 1u64;", "B"),
    (P, "after_move::<false>", "after_move::<true>", "N"),          # the hash is not read by perft
    (P, "nodes += npos.perft(depth - 1)", "nodes += npos.perft(depth - 2)", "B"),
    (P, "nodes += npos.perft(depth - 1)", "nodes = npos.perft(depth - 1)", "B"),
    # ---- hashtable.rs
    (H, "        if self.entries.is_empty() {\n            return T::default();\n        }\n", "", "B"),
    (H, "self.entries[idx] = *entry;", "self.entries[0] = *entry;", "B"),
    (H, "key as usize % self.entries.len()", "key as usize / self.entries.len()", "B"),
    (H, "std::cmp::min(self.entries.len(), 1000)", "std::cmp::min(self.entries.len(), 100)", "B"),
    (H, "(self.entries[i] != T::default())", "(self.entries[i] == T::default())", "B"),
    (H, "megabytes as usize * 1024 * 1024", "megabytes as usize * 1024 * 1000", "B"),
    (H, "        self.entries.fill(T::default());\n", "", "B"),
    (H, "for i in 0..size {", "for i in 1..size {", "B"),
    (H, "Some(filled)", "Some(filled + 1)", "B"),
    (H, "        if self.entries.is_empty() {\n            return;\n        }\n", "", "B"),
    # ---- ttentry.rs: the numbering of the flags is internal to the engine
    ("src/search/ttentry.rs", "    Lower,\n    Upper,", "    Upper,\n    Lower,", "N"),
    # ---- qsearch.rs
    (Q, "[100, 300, 325, 500, 900, 0]", "[100, 300, 320, 500, 900, 0]", "B"),
    (Q, "[0; 218]", "[0; 217]", "B"),
    (Q, "if moves.len() < 2 {", "if moves.len() < 3 {", "B"),
    (Q, "10 * piece_values[captured as usize]", "9 * piece_values[captured as usize]", "B"),
    (Q, "piece_values[piece.unwrap() as usize]", "piece_values[captured as usize]", "B"),
    (Q, "scores[j] > scores[best]", "scores[j] >= scores[best]", "B"),
    (Q, "for j in i + 1..moves.len() {", "for j in i..moves.len() {", "N"),           # scores[i] > scores[i] is false
    (Q, "        (moves[i], moves[best]) = (moves[best], moves[i]);\n", "", "B"),
    (Q, "(scores[i], scores[best]) = (scores[best], scores[i]);", "(scores[i], scores[best]) = (scores[i], scores[best]);", "B"),
    (Q, "for i in 0..moves.len() - 1 {", "for i in 0..moves.len() {", "N"),           # the last round selects itself
    (Q, "if stand_pat >= beta {", "if stand_pat > beta {", "B"),
    (Q, "    if stand_pat > alpha {\n        alpha = stand_pat;\n    }\n", "", "B"),
    (Q, "let mut best_score = stand_pat;", "let mut best_score = alpha;", "B"),
    (Q, "stats.nodes += 1;", "stats.nodes += 2;", "B"),
    (Q, "-qsearch(&npos, stats, -beta, -alpha, ply + 1)", "-qsearch(&npos, stats, -alpha, -beta, ply + 1)", "B"),
    (Q, "-qsearch(&npos, stats, -beta, -alpha, ply + 1)", "qsearch(&npos, stats, -beta, -alpha, ply + 1)", "B"),
    (Q, "-qsearch(&npos, stats, -beta, -alpha, ply + 1)", "-qsearch(&npos, stats, -beta, -alpha, ply)", "B"),
    (Q, "if score > best_score {", "if score >= best_score {", "N"),                # assigns an equal value
    (Q, "if alpha >= beta {\n            break;", "if alpha > beta {\n            break;", "B"),
    (Q, "std::cmp::max(stats.seldepth, ply)", "std::cmp::min(stats.seldepth, ply)", "B"),
    (Q, "    sort(&pos, &mut moves);\n", "", "B"),
    (Q, "    best_score\n}", "    alpha\n}", "B"),
    (Q, "let mut moves = pos.legal_captures();", "let mut moves = pos.legal_moves();", "B"),
    (Q, "pos.after_move::<false>(&mv)", "pos.after_move::<true>(&mv)", "N"),         # quiescence does not read the hash
    # ---- negamax.rs
    (N, "(pieces & pos.get_us()).count() <= 2", "(pieces & pos.get_us()).count() <= 3", "B"),
    (N, "pos.get_knights() | pos.get_bishops() | pos.get_rooks() | pos.get_queens()", "pos.get_knights() | pos.get_bishops() | pos.get_rooks()", "B"),
    (N, "            1_000_000\n", "            2_000_000\n", "N"),                      # any value above 9000 orders the same
    (N, "ttmove.unwrap() == moves[i]", "ttmove.unwrap() != moves[i]", "B"),
    (N, "let is_pv = beta != alpha + 1;", "let is_pv = beta != alpha + 2;", "B"),
    (N, "let is_root = ply == 0;", "let is_root = ply == 1;", "B"),
    (N, "    if in_check {\n        depth += 1;", "    if in_check {\n        depth += 2;", "B"),
    (N, "ttentry.depth >= depth && !is_root && !is_pv", "ttentry.depth > depth && !is_root && !is_pv", "B"),
    (N, "ttentry.depth >= depth && !is_root && !is_pv", "ttentry.depth >= depth && !is_root", "B"),
    (N, "if ttentry.hash == pos.hash {", "if ttentry.hash != pos.hash {", "B"),
    (N, "Flag::Lower => alpha = std::cmp::max(alpha, ttentry.score),", "Flag::Lower => alpha = std::cmp::min(alpha, ttentry.score),", "B"),
    (N, "Flag::Upper => beta = std::cmp::min(beta, ttentry.score),", "Flag::Upper => alpha = std::cmp::min(alpha, ttentry.score),", "B"),
    (N, "Flag::Exact => {\n                    return ttentry.score;", "Flag::Exact => {\n                    return ttentry.score + 1;", "B"),
    (N, "            if alpha >= beta {\n                return ttentry.score;", "            if alpha >= beta {\n                return alpha;", "B"),
    (N, "        ttmove = Some(ttentry.mv);\n", "", "B"),
    (N, "if depth <= 0 {", "if depth < 0 {", "B"),
    (N, "return qsearch(pos, stats, alpha, beta, ply);", "return qsearch(pos, stats, alpha, beta, ply + 1);", "B"),
    (N, "!(is_root && stats.depth <= 1) && should_stop(stats)", "!(is_root && stats.depth <= 2) && should_stop(stats)", "B"),
    (N, "!(is_root && stats.depth <= 1) && should_stop(stats)", "should_stop(stats)", "B"),
    (N, "        return 0;\n", "        return 1;\n", "B"),
    (N, "let mut best_score = -INF;", "let mut best_score = -MATE_SCORE;", "B"),
    (N, "pos.halfmoves >= 100", "pos.halfmoves >= 99", "B"),
    (N, "        .step_by(2)\n", "", "B"),
    (N, ".take(pos.halfmoves as usize + 1)", ".take(pos.halfmoves as usize + 2)", "B"),
    (N, "        .rev()\n", "", "B"),
    (N, ">= if is_root { 3 } else { 2 };", ">= if is_root { 2 } else { 2 };", "B"),
    (N, "if !is_root && (is_50move || is_threefold) {", "if !is_root && (is_50move && is_threefold) {", "B"),
    (N, "depth < 4 && static_eval - 100 * depth >= beta", "depth < 5 && static_eval - 100 * depth >= beta", "B"),
    (N, "return static_eval - 100 * depth;", "return static_eval;", "B"),
    (N, "can_nullmove && depth > 2", "can_nullmove && depth > 3", "B"),
    (N, "&& !in_check && !is_endgame(pos) {", "&& !in_check {", "B"),
    (N, "            -beta + 1,\n", "            -beta + 2,\n", "B"),
    (N, "depth - 1 - 2,", "depth - 1 - 3,", "B"),
    (N, "        history.pop();\n\n        debug_assert!(-INF < score && score < INF);", "\n        debug_assert!(-INF < score && score < INF);", "B"),
    (N, "        if score >= beta {\n            return score;", "        if score >= beta {\n            return beta;", "B"),
    (N, "sort(&pos, &mut moves, &ttmove);", "sort(&pos, &mut moves, &None);", "B"),
    (N, "pos.after_move::<true>(&mv)", "pos.after_move::<false>(&mv)", "B"),
    (N, "let score = if idx == 0 {", "let score = if idx == 1 {", "B"),
    (N, "if idx < 4 || depth < 3", "if idx < 3 || depth < 3", "B"),
    (N, "mv.promo == Piece::Queen", "mv.promo == Piece::Rook", "B"),
    (N, "                -alpha - 1,\n", "                -alpha - 2,\n", "B"),
    (N, "depth - 1 - reduction,", "depth - reduction,", "B"),
    (N, "if alpha < score && score < beta {", "if alpha < score {", "B"),
    (N, "            best_move = Some(*mv);\n", "", "B"),
    (N, "        if alpha >= beta {\n            break;\n        }\n    }\n\n    if best_move.is_none() {", "    }\n\n    if best_move.is_none() {", "B"),
    (N, "        history.pop();\n\n        if score > best_score {", "\n        if score > best_score {", "B"),
    (N, "        history.push(npos.hash);\n\n        let score = if idx == 0 {", "\n        let score = if idx == 0 {", "B"),
    (N, "return -MATE_SCORE + ply;", "return -MATE_SCORE - ply;", "B"),
    (N, "        if in_check {\n            return -MATE_SCORE + ply;\n        } else {\n            return DRAW_SCORE;", "        if !in_check {\n            return -MATE_SCORE + ply;\n        } else {\n            return DRAW_SCORE;", "B"),
    (N, "let flag = if best_score <= alpha_orig {", "let flag = if best_score < alpha_orig {", "B"),
    (N, "        Flag::Upper\n    } else if best_score >= beta {\n        Flag::Lower", "        Flag::Lower\n    } else if best_score >= beta {\n        Flag::Upper", "B"),
    (N, "        score: best_score,\n", "        score: alpha,\n", "B"),
    (N, "    tt.add(pos.hash, &new_entry);\n", "", "B"),
    (N, "    stats.best_move = best_move;\n", "", "B"),
    (N, "    stats.best_move = best_move;\n\n    best_score\n", "    stats.best_move = best_move;\n\n    alpha\n", "B"),
    (N, "const DRAW_SCORE: i32 = -50;", "const DRAW_SCORE: i32 = -51;", "B"),
    (N, "pub const MATE_SCORE: i32 = 1_000_000;", "pub const MATE_SCORE: i32 = 1_000_001;", "B"),
    (N, "let alpha_orig = alpha;", "let alpha_orig = beta;", "B"),
    # ---- root.rs
    (R, "pub const MAX_DEPTH: i32 = 128;", "pub const MAX_DEPTH: i32 = 64;", "B"),
    (R, "for depth in 1..MAX_DEPTH {", "for depth in 2..MAX_DEPTH {", "B"),
    (R, "        stats.depth = depth;\n", "", "B"),
    (R, "            depth,\n            false,\n        );", "            depth,\n            true,\n        );", "B"),
    (R, "            -INF,\n            INF,\n            0,", "            -INF,\n            INF,\n            1,", "B"),
    (R, "if depth > 1 && should_stop(&stats) {", "if depth > 2 && should_stop(&stats) {", "B"),
    (R, "if depth > 1 && should_stop(&stats) {", "if should_stop(&stats) {", "B"),
    (R, "settings::Type::Depth(d) => stats.depth > d,", "settings::Type::Depth(d) => stats.depth >= d,", "B"),
    (R, "settings::Type::Nodes(n) => stats.nodes >= n,", "settings::Type::Nodes(n) => stats.nodes > n,", "B"),
    (R, "mtg.unwrap_or(30).max(1)", "mtg.unwrap_or(40).max(1)", "B"),
    (R, "if pos.get_turn() == Colour::White {", "if pos.get_turn() == Colour::Black {", "B"),
    (R, "start.elapsed().as_millis() >= time as u128", "start.elapsed().as_millis() > time as u128", "B"),
    (R, "settings::Type::Infinite => false,", "settings::Type::Infinite => true,", "B"),
    (R, "        best_move = stats.best_move;\n", "", "B"),
    (R, "score: Some(score),", "score: Some(-score),", "B"),
    (R, "nodes: Some(stats.nodes),", "nodes: None,", "B"),
    (R, "depth: Some(stats.depth),", "depth: Some(stats.seldepth),", "B"),
    (R, "hashfull: tt.hashfull(),", "hashfull: None,", "B"),
    (R, "let pv = vec![stats.best_move.unwrap()];", "let pv = vec![];", "B"),
    (R, "        if stats.best_move.is_none() {\n            return Err(\"No bestmove\");\n        }\n", "", "B"),
    (R, "Ok(best_move.unwrap())", "Ok(stats.best_move.unwrap())", "B"),
    # not represented in the model (projected away by `agree_root`)
    (R, 'return Err("No bestmove");', 'return Err("no bestmove");', "A"),
    (R, "mate: None,", "mate: Some(0),", "A"),
    (R, "elapsed: Some(elapsed.as_millis()),", "elapsed: None,", "A"),
    # ---- constructs outside the translated subset: TRANSLATE-ERROR
    (N, "        history.pop();\n\n        debug_assert!(-INF < score && score < INF);", "        history.clear();\n\n        debug_assert!(-INF < score && score < INF);", "B"),
    (Q, "for mv in moves {", "for mv in moves.iter().rev() {", "B"),
    (R, "for depth in 1..MAX_DEPTH {", "for depth in (1..MAX_DEPTH).rev() {", "B"),
    (P, "nodes\n    }", "while false {}\n        nodes\n    }", "N"),
    # ---- score.rs
    (S, "        self.0\n", "        self.1\n", "B"),
    (S, "Self(self.0 + rhs.0, self.1 + rhs.1)", "Self(self.0 + rhs.0, self.1 - rhs.1)", "B"),
    (S, "Self(self.0 - rhs.0, self.1 - rhs.1)", "Self(self.0 - rhs.1, self.1 - rhs.0)", "B"),
    (S, "Self(self.0 * rhs, self.1 * rhs)", "Self(self.0 * rhs, self.1)", "B"),
    (S, "Score(self * rhs.0, self * rhs.1)", "Score(self * rhs.1, self * rhs.0)", "B"),
    (S, "        self.1 += rhs.1;\n", "", "B"),
    (S, "self.0 -= rhs.0;", "self.0 += rhs.0;", "B"),
    (S, "        Score(0, 0)\n", "        Score(0, 1)\n", "B"),
]


def run(cmd, cwd, env, timeout):
    try:
        r = subprocess.run(cmd, cwd=cwd, env=env, stdout=subprocess.PIPE, stderr=subprocess.STDOUT, text=True, timeout=timeout)
        return r.returncode, r.stdout
    except subprocess.TimeoutExpired as ex:
        return 124, (ex.stdout or "") + "\nTIMEOUT"


def main():
    ap = argparse.ArgumentParser()
    ap.add_argument("--repo", default=os.environ.get("RAWR_REPO", "/repo"))
    ap.add_argument("--lean", required=True)
    ap.add_argument("--translator", default=os.path.join(HERE, "rust2lean_search.py"))
    ap.add_argument("--work", default="/tmp/rust2lean_search_selftest")
    ap.add_argument("--only", default="")
    ap.add_argument("--jobs", type=int, default=8)
    ap.add_argument("--timeout", type=int, default=900)
    a = ap.parse_args()
    if os.path.realpath(a.lean) == os.path.realpath("/verif/lean"):
        sys.exit("refusing to run on the shared /verif/lean: give a private copy with --lean")
    if os.path.realpath(a.repo) != os.path.realpath(a.repo) or not os.path.isdir(os.path.join(a.repo, "src")):
        sys.exit("no src/ under --repo")
    shutil.rmtree(a.work, ignore_errors=True)
    os.makedirs(a.work)
    only = {int(x) for x in a.only.split(",") if x}
    todo = [(i, m) for i, m in enumerate(M, 1) if not only or i in only]
    jobs = max(1, min(a.jobs, len(todo)))

    def check(lean, repo):
        out_file = os.path.join(lean, "Rawr", "Generated", "RustSearch.lean")
        env = dict(os.environ, RAWR_REPO=repo, RAWR_SEARCH_OUT=out_file, RAWR_VERIF=os.path.dirname(lean))
        rc, out = run([sys.executable, a.translator], lean, env, 120)
        if rc == 3:
            return "TRANSLATE-ERROR", out.strip().splitlines()[-1][:160]
        if rc != 0:
            return "TRANSLATOR-CRASH", out.strip()[-300:]
        rc, out = run(["lake", "build"] + TARGETS, lean, dict(os.environ), a.timeout)
        if rc != 0:
            errs = [l for l in out.splitlines() if "error" in l]
            return "PROOF-FAILS", (errs[0] if errs else out[-200:])[:160]
        return "OK", ""

    workers = []
    for k in range(jobs):
        lean = os.path.join(a.work, f"w{k}", "lean")
        os.makedirs(os.path.dirname(lean))
        subprocess.run(["cp", "-a", a.lean, lean], check=True)
        scratch = os.path.join(a.work, f"w{k}", "repo")
        shutil.copytree(os.path.join(a.repo, "src"), os.path.join(scratch, "src"))
        workers.append((lean, scratch))
    t0 = time.time()
    st, msg = check(workers[0][0], a.repo)
    baseline = open(os.path.join(workers[0][0], "Rawr", "Generated", "RustSearch.lean")).read()
    print(f"baseline: {st} {msg} ({time.time() - t0:.0f}s)", flush=True)
    if st != "OK":
        sys.exit(1)
    q = queue.Queue()
    for item in todo:
        q.put(item)
    results, lock = [], threading.Lock()

    def work(lean, scratch):
        while True:
            try:
                i, (f, old, new, kind) = q.get_nowait()
            except queue.Empty:
                return
            orig = open(os.path.join(a.repo, f)).read()
            if orig.count(old) < 1:
                with lock:
                    print(f"{i:3d} {f}: pattern not found: {old[:50]!r}", flush=True)
                    results.append((i, kind, "PATTERN-NOT-FOUND"))
                continue
            open(os.path.join(scratch, f), "w").write(orig.replace(old, new, 1))
            t1 = time.time()
            st, msg = check(lean, scratch)
            if st == "OK" and open(os.path.join(lean, "Rawr", "Generated", "RustSearch.lean")).read() == baseline:
                st = "OK(same Lean text)"
            open(os.path.join(scratch, f), "w").write(orig)
            desc = (old.strip().splitlines()[0][:46] + " -> " + (new.strip().splitlines()[0][:40] if new.strip() else "<deleted>"))
            with lock:
                print(f"{i:3d} [{kind}] {os.path.basename(f):12s} {st:18s} {time.time() - t1:4.0f}s  {desc}   {msg}", flush=True)
                results.append((i, kind, st))
    threads = [threading.Thread(target=work, args=w) for w in workers]
    for t in threads:
        t.start()
    for t in threads:
        t.join()
    det = lambda r: not r[2].startswith("OK")     # noqa: E731
    b = [r for r in results if r[1] == "B"]
    n = [r for r in results if r[1] == "N"]
    ab = [r for r in results if r[1] == "A"]
    print(f"behaviour-changing mutants: {sum(map(det, b))}/{len(b)} detected "
          f"(TRANSLATE-ERROR {sum(r[2] == 'TRANSLATE-ERROR' for r in b)}, PROOF-FAILS {sum(r[2] == 'PROOF-FAILS' for r in b)})")
    print(f"behaviour-neutral mutants:  {sum(map(det, n))}/{len(n)} flagged")
    print(f"mutants of parts the model does not represent: {sum(map(det, ab))}/{len(ab)} flagged")
    print(f"total time {time.time() - t0:.0f}s")
    missed = sorted(r[0] for r in b if not det(r))
    if missed:
        print("MISSED:", missed)
        sys.exit(1)


if __name__ == "__main__":
    main()
