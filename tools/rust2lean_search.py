#!/usr/bin/env python3
"""Rust -> Lean translator for the SEARCH side of kz04px/rawr (perft, score, hashtable, quiescence, negamax, root).

Regenerates lean/Rawr/Generated/RustSearch.lean from the CURRENT sources on every run.  It uses tools/rust2lean_imp.py as
a library (tokenizer, expression parser, expression translator, the table of already translated chess-core functions)
and adds a statement compiler for code that threads `&mut` state, may panic, recurses and loops with `break`/`return`.
`lean/Rawr/Proofs/RustSearchAgree*.lean` prove `R.<fn> = <model fn>`.  Translated: perft.rs `perft`; score.rs (all impls);
hashtable.rs `new poll add hashfull len resize clear get_idx`; qsearch.rs `sort qsearch`; negamax.rs `is_endgame sort
negamax`; root.rs `root` and its `should_stop` closure.  The struct / enum declarations of stats.rs, ttentry.rs,
settings.rs, info.rs and the `const` items are read from the sources too.
Environment: RAWR_REPO (default /repo), RAWR_VERIF (default: the parent of tools/), RAWR_SEARCH_OUT (output file).
Self-test: tools/rust2lean_search_selftest.py.

Every operator, literal, condition, callee and the statement order of the emitted terms come from the Rust token
stream; per function only the Lean name, the representation of its parameters and the callee table are configured
(`generate()` at the end).  Unknown constructs raise TranslateError (exit 3, `TRANSLATE-ERROR ...`).  Dropped:
`debug_assert*!` statements, attributes, comments, and the statement following `#[cfg(debug_assertions)]`.

Representation
  `&mut` parameters / mutable locals      Lean variables that are re-bound (`let x := ..`); a function returns
                                          `(value, state variables ..)`; several Rust objects may live in the fields of
                                          ONE Lean record (negamax: `history`, `tt`, `stats` are `st.hist`, `st.tt`,
                                          `st.depth/seldepth/nodes/best` of the model's `SState`; qsearch: `stats` is a
                                          `QState`), a `&mut Stats` passed to a callee with another record is converted
                                          field by field (fields taken from stats.rs)
  panics (index, unwrap, `% 0`, `/ 0`)    `Option`: `match e with | none => none | some x => ..`
  recursion                               `def f .. : Nat -> .. | 0, .. => none | fuel+1, .. => body`, the recursive
                                          call is `f fuel ..`; a call of another fuelled function uses the fuel named
                                          in the callee table (`Rawr.qFuel`, the caller's own `fuel`)
  `for x in e {..}`                       an emitted structural function `<fn>_loop<k> [rec] captured.. : List _ ->
                                          state.. -> Option (state tuple)`; `break` returns the state, the end of the
                                          body recurses on the tail; with a `return v` inside the result is
                                          `Option (Option ret x state)`
  `for (i, x) in v.iter().enumerate()`    the same over `v.zipIdx`
  `obj.move_generator(|..| {..})`         the same over `R.move_generator obj`
  `if` that may `return` or fall through  `match (if .. then .. (some v, vars) .. else (none, vars)) with
                                            | (some v, vars) => <return v> | (none, vars) => <rest>`
  `if c { return a; }  rest`              `if c then <return a> else rest`
  `if`/`if let`/`match` updating x, y     `let (x, y) := if c then (..; (x, y)) else (x, y)`  (`match .. | none => none`
                                          around it when a branch can panic); `let x := if c then e else x` for a
                                          single plain assignment
  `let v = if c {s1; a} else {s2; b};`    `let (v, vars) := if c then (s1; (a, vars)) else (s2; (b, vars))`
  `a && f(st)` with an effectful `f`      `let (r, st) := if a then f st else (false, st)`
  `match x {A => .., B => ..}` (C-like)   the `if x == 0 .. else if x == 1 ..` chain over the discriminants taken from the
                                          enum declaration (statement position: no arm for a value outside the enum)
  `match s {Ctor(a, _) => ..}` (data)     a Lean `match` over the inductive generated from the enum declaration
  `should_stop: &impl Fn(&Stats) -> bool` a function `SState -> Option (Bool x SState)` (a call may read the clock: the
                                          state carries the poll counter, as in the model); a closure literal of that
                                          type is emitted as its own definition, one call = one poll
  `Instant::now()`, `start.elapsed()`     `clock st.polls` for a parameter `clock : Nat -> Nat` (milliseconds at poll k)
  `info_printer(&Info {..})`              appended to the list of printed records, returned with the result
  `Vec<Mv>` / arrays                      `List`; `v[i]` is `v[i]?`, `v[i] = e` is `R.Lst.set v i e` (both can panic);
  `Vec<u64>` history                      `List BB`, most recent first (the model's representation): push = cons,
                                          pop = tail, `.iter().rev()` = the list
  `Hashtable<T>`                          the model's `Table α`, `entries : Array α`
  u64 node counters, usize, u8 depth      `Nat`;  i32: `Int`;  `HashType` keys: `Nat` (`hash.toNat` at the call)
"""
import os
import re
import sys

sys.path.insert(0, os.path.dirname(os.path.abspath(__file__)))
import rust2lean_imp as imp                                    # noqa: E402
from rust2lean_imp import TranslateError, NeedMonad, Ex, lname, is_opt   # noqa: E402

REPO = os.environ.get("RAWR_REPO", "/repo")
VERIF = os.environ.get("RAWR_VERIF", os.path.dirname(os.path.dirname(os.path.abspath(__file__))))
OUT = os.environ.get("RAWR_SEARCH_OUT", os.path.join(VERIF, "lean", "Rawr", "Generated", "RustSearch.lean"))
imp.REPO = REPO


# --------------------------------------------------------------------------------------------- parser
class SParser(imp.Parser):
    """adds: match, break, continue, array literals, vec!/panic!, typed closure parameters, `fn(..)`/`impl Fn(..) -> T`
    types, paths with a turbofish in the middle, `#[cfg(debug_assertions)] <statement>`."""

    def type_(self):
        while self.peek() in ("&", "mut") or self.peekkind() == "life":
            self.eat()
        if self.peek() in ("impl", "fn"):
            kw = self.eat()
            name = self.ident() if kw == "impl" else "fn"
            args = []
            self.eat("(")
            while self.peek() != ")":
                args.append(self.type_())
                if self.peek() == ",":
                    self.eat(",")
            self.eat(")")
            ret = None
            if self.peek() == "->":
                self.eat("->")
                ret = self.type_()
            return ("fn", name, args, ret)
        return super().type_()

    def attribute(self):
        self.eat("#")
        self.eat("[")
        toks, depth = [], 1
        while True:
            t = self.eat()
            depth += (t == "[") - (t == "]")
            if depth == 0:
                break
            toks.append(t)
        return toks

    def statement(self):
        t = self.peek()
        if t == "#":
            if self.attribute() == ["cfg", "(", "debug_assertions", ")"]:
                self.statement()            # compiled only into debug builds
            return None
        if t == "if":
            s = self.if_()
            if self.peek() == ";":
                self.eat(";")
            return s
        if t == "break":
            self.eat()
            self.eat(";")
            return ("break",)
        if t == "continue":
            self.eat()
            self.eat(";")
            return ("continue",)
        if t == "match":
            m = self.match_()
            if self.peek() == ";":
                self.eat(";")
                return ("matchstmt", m[1], m[2])
            if self.peek() == "}":
                return ("tail", m)
            return ("matchstmt", m[1], m[2])
        return super().statement()

    def match_(self):
        self.eat("match")
        scrut = self.expr(nostruct=True)
        self.eat("{")
        arms = []
        while self.peek() != "}":
            pat = self.mpattern()
            self.eat("=>")
            if self.peek() == "{":
                body = self.block()
            else:
                e = self.expr()
                if self.peek() in imp.ASSIGN_OPS:
                    op = self.eat()
                    rhs = self.expr()
                    body = [("assign", op, e, rhs)]
                else:
                    body = [("tail", e)]
            arms.append((pat, body))
            if self.peek() == ",":
                self.eat(",")
        self.eat("}")
        return ("match", scrut, arms)

    def mpattern(self):
        if self.peek() == "_":
            self.eat()
            return ("pwild",)
        segs = [self.ident()]
        while self.peek() == "::":
            self.eat("::")
            segs.append(self.ident())
        subs = None
        if self.peek() == "(":
            self.eat("(")
            subs = []
            while self.peek() != ")":
                subs.append(self.ident())
                if self.peek() == ",":
                    self.eat(",")
            self.eat(")")
        if len(segs) == 1 and subs is None and segs[0] == "_":
            return ("pwild",)
        return ("pctor", segs, subs)

    def macro_args(self, open_, close):
        self.eat(open_)
        old = self.nostruct
        self.nostruct = False
        a = []
        while self.peek() != close:
            a.append(self.expr())
            if self.peek() == ",":
                self.eat(",")
        self.eat(close)
        self.nostruct = old
        return a

    def primary(self):
        kind, tok = self.peekkind(), self.peek()
        if tok == "match":
            return self.match_()
        if tok == "[":
            self.eat("[")
            old = self.nostruct
            self.nostruct = False
            items = []
            rep = None
            while self.peek() != "]":
                items.append(self.expr())
                if self.peek() == ";":
                    self.eat(";")
                    rep = self.expr()
                    break
                if self.peek() == ",":
                    self.eat(",")
            self.eat("]")
            self.nostruct = old
            if rep is not None:
                if len(items) != 1:
                    self.err("array repeat literal")
                return ("arrayrep", items[0], rep)
            return ("array", items)
        if kind == "id" and tok not in ("if", "return", "match") and self.peek(1) == "!" and self.peek(2) in ("(", "["):
            name = self.eat()
            self.eat("!")
            if name == "vec":
                return ("array", self.macro_args("[", "]")) if self.peek() == "[" else self.err("vec!(..)")
            if name == "panic":
                return ("panic", self.macro_args("(", ")"))
            self.err(f"macro {name}! is not supported")
        if tok == "|":
            self.eat("|")
            ps = []
            while self.peek() != "|":
                p = self.ident()
                if self.peek() == ":":
                    self.eat(":")
                    self.type_()
                ps.append(p)
                if self.peek() == ",":
                    self.eat(",")
            self.eat("|")
            if self.peek() == "{":
                body = self.block()
            else:
                body = [("tail", self.expr())]
            return ("closure", ps, body)
        if kind == "id" and tok not in ("if",):
            # a path, possibly `A::<T>::b`
            save = self.i
            segs = [self.eat()]
            gen = []
            while self.peek() == "::":
                if self.peek(1) == "<":
                    gen = gen + self.turbofish()
                    continue
                self.eat("::")
                segs.append(self.ident())
            if gen and len(segs) > 1 and self.peek() != "{":
                return ("path", segs, gen)
            self.i = save
        return super().primary()


def find_item(src, kw, name, what):
    """source text of `struct name {..}` / `enum name {..}` (brace balanced)."""
    m = re.search(r"\b" + kw + r"\s+" + re.escape(name) + r"\b[^{;]*\{", src)
    if not m:
        raise TranslateError(f"{what}: {kw} {name} not found")
    i, depth = m.end(), 1
    while depth:
        if i >= len(src):
            raise TranslateError(f"{what}: unbalanced braces in {kw} {name}")
        depth += (src[i] == "{") - (src[i] == "}")
        i += 1
    return src[m.end():i - 1]


def parse_struct(src, name, what):
    """[(field, type AST)] of `pub struct name { pub f: T, .. }`."""
    body = re.sub(r"#\[[^\]]*\]", "", find_item(src, "struct", name, what))
    p = SParser(imp.tokenize(body), f"{what}::{name}")
    out = []
    while p.peek() is not None:
        if p.peek() == "pub":
            p.eat()
        f = p.ident()
        p.eat(":")
        out.append((f, p.type_()))
        if p.peek() == ",":
            p.eat(",")
    return out


def parse_enum(src, name, what):
    """[(variant, [payload type ASTs] or None, explicit discriminant or None)]."""
    body = re.sub(r"#\[[^\]]*\]", "", find_item(src, "enum", name, what))
    p = SParser(imp.tokenize(body), f"{what}::{name}")
    out = []
    while p.peek() is not None:
        v = p.ident()
        payload, disc = None, None
        if p.peek() == "(":
            p.eat("(")
            payload = []
            while p.peek() != ")":
                payload.append(p.type_())
                if p.peek() == ",":
                    p.eat(",")
            p.eat(")")
        if p.peek() == "=":
            p.eat("=")
            disc = int(p.eat().replace("_", ""))
        out.append((v, payload, disc))
        if p.peek() == ",":
            p.eat(",")
    return out


def parse_consts(src):
    """{name: (literal text, rust type)} of `[pub] const NAME: T = <literal>;` items."""
    out = {}
    for m in re.finditer(r"\bconst\s+([A-Z_][A-Z0-9_]*)\s*:\s*([A-Za-z0-9_]+)\s*=\s*(-?\s*[0-9][0-9_]*)\s*;", src):
        out[m.group(1)] = (m.group(3).replace("_", "").replace(" ", ""), m.group(2))
    return out


# --------------------------------------------------------------------------------------------- types
# additional model types:  "T" (the generic entry type, Lean `α`), ("Arr", t) = Array, ("RList", t) = a Vec kept most
# recent first, ("Table", t), ("Rec", name) = a Lean structure, ("View", name) = a Rust `Stats` living in the Lean record
# `name`, "Settings" (settings::Type), ("Result", ok, err) = Except err ok, "StopFn", "Sink", "Instant", "Dur"
REC_LEAN = {"QState": "Rawr.QState", "SState": "Rawr.SState", "TTEntry": "Rawr.TTEntry", "Info": "Info"}


def lty(t):
    if isinstance(t, tuple):
        k = t[0]
        if k == "Opt":
            return "Option " + lty_atom(t[1])
        if k == "Tup":
            return " × ".join(lty_atom(x) for x in t[1])
        if k in ("List", "RList"):
            return "List " + lty_atom(t[1])
        if k == "Arr":
            return "Array " + lty_atom(t[1])
        if k == "Table":
            return "Rawr.Table " + lty_atom(t[1])
        if k in ("Rec", "View"):
            return REC_LEAN[t[1]]
        if k == "Result":
            return f"Except {lty_atom(t[2])} {lty_atom(t[1])}"
        raise TranslateError(f"no Lean type for {t!r}")
    if t == "T":
        return "α"
    if t == "Settings":
        return "Settings"
    if t == "StopFn":
        return "(Rawr.SState → Option (Bool × Rawr.SState))"
    if t == "Clock":
        return "(Nat → Nat)"
    if t == "Dur":
        return "Nat"
    if t == "Instant":
        return "Unit"
    if t == "Unit":
        return "Unit"
    if t in imp.LEAN_TY:
        return imp.LEAN_TY[t]
    raise TranslateError(f"no Lean type for {t!r}")


def lty_atom(t):
    s = lty(t)
    return f"({s})" if " " in s and not s.startswith("(") else s


imp.lean_ty = lty
imp.lean_ty_atom = lty_atom


class SCtx(imp.Ctx):
    def __init__(self, tr, monadic, rettype):
        super().__init__(tr, monadic, rettype)
        self.roots = {}          # Lean variables in scope -> Lean type text (for the capture lists of loop functions)
        self.rec = None          # text of the recursive callee (`negamax should_stop fuel` / `rec`)
        self.fn = None           # SFn being compiled
        self.u64 = "Nat"         # what an untyped-by-context `u64` is here

    def child(self):
        c = SCtx(self.tr, self.monadic, self.rettype)
        c.env = dict(self.env)
        c.unwrapped = dict(self.unwrapped)
        c.guards = set(self.guards)
        c.names = self.names
        c.in_closure = self.in_closure
        c.closure_fall = self.closure_fall
        c.roots = dict(self.roots)
        c.rec, c.fn, c.u64 = self.rec, self.fn, self.u64
        c.clock = getattr(self, "clock", None)
        return c

    def fresh(self, base):
        n, k = base, 1
        while n in self.names or n in self.roots or any(v[0] == n for v in self.env.values()):
            k += 1
            n = f"{base}{k}"
        self.names.add(n)
        return n

    def declare(self, rust, lean, ty, mut):
        self.env[rust] = (lean, ty, mut)
        if "." not in lean:
            try:
                self.roots[lean] = lty(ty)
            except TranslateError:
                pass


class SFn:
    """signature of a function translated by this file.
    params: [(rust name, spec)], spec = ("val", type) | ("state", type) | ("group", lean var) | ("static", type);
    groups: {lean var: (record name, {rust param: field | {rust field: lean field}})}; outs: the Lean state variables
    returned after the value (in order)."""

    def __init__(self, lean, params, ret, outs, monadic, fuel=None, groups=None, hasself=False):
        self.lean, self.params, self.ret, self.outs, self.monadic = lean, params, ret, outs, monadic
        self.fuel, self.groups, self.hasself = fuel, groups or {}, hasself


# --------------------------------------------------------------------------------------------- translator: expressions
class ST(imp.Translator):
    instance = None

    def __init__(self):
        super().__init__()
        ST.instance = self
        self.sfns = {}           # rust key -> SFn
        self.consts = {}         # NAME -> (literal, rust type)
        self.views = {}          # record name -> {rust field: (lean field, type)}   (a Rust `Stats`)
        self.recs = {}           # struct name -> (lean ctor type, {rust field: (lean field, type)})
        self.enums = {}          # C-like enum name -> {variant: discriminant}
        self.settings = None     # [(variant, [types])] of settings::Type
        self.aux = []            # emitted loop functions of the function being compiled
        self.loopno = 0
        self.sout = []

    # ---- types
    def conv(self, t, c=None, u64=None):
        u64 = u64 or (c.u64 if c is not None else "Nat")
        if t is None:
            return "Unit"
        if t[0] == "tuple":
            return "Unit" if not t[1] else ("Tup", [self.conv(x, c, u64) for x in t[1]])
        if t[0] == "fn":
            return ("Fn", [self.conv(x, c, u64) for x in t[2]], self.conv(t[3], c, u64) if len(t) > 3 else "Unit")
        _, name, args = t
        simple = {"u64": u64, "HashType": u64, "u128": "Nat", "u32": "Nat", "usize": "Nat", "u8": "Nat", "i32": "Int",
                  "bool": "Bool", "Mv": "Mv", "Position": "Pos", "Square": "Sq", "Piece": "Pc", "Bitboard": "BB",
                  "str": "Str", "T": "T", "Instant": "Instant", "Flag": "Nat", "Score": "Score"}
        if name in simple and not args:
            return simple[name]
        if name == "Option" and len(args) == 1:
            return ("Opt", self.conv(args[0], c, u64))
        if name == "Vec" and len(args) == 1:
            return ("List", self.conv(args[0], c, u64))
        if name == "Result" and len(args) == 2:
            return ("Result", self.conv(args[0], c, u64), self.conv(args[1], c, u64))
        if name == "Hashtable" and len(args) == 1:
            return ("Table", self.conv(args[0], c, u64))
        if name in ("Self",) and not args:
            return getattr(self, "cur_self", None) or ("Table", "T")
        if name in self.recs and not args:
            return ("Rec", name)
        if name == "Type" and not args:
            return "Settings"
        raise TranslateError(f"type {name}<{args}> is not supported")

    # ---- pendings: (kind, pattern, text, post lines)   kind = "opt" (Option-valued text) | "let" (a pair-valued text)
    def bind(self, text, ty, base, c, what):
        if text in c.unwrapped:
            return Ex(c.unwrapped[text], ty)
        if not c.monadic:
            raise NeedMonad(what)
        v = c.fresh(base)
        c.pending.append(("opt", v, text, []))
        c.unwrapped[text] = v
        try:
            c.roots[v] = lty(ty)
        except TranslateError:
            pass
        return Ex(v, ty)

    def flush(self, c, ind, lines):
        for kind, pat, text, post in c.pending:
            if kind == "opt":
                lines.append(" " * ind + f"match {text} with")
                lines.append(" " * ind + "| none => none")
                lines.append(" " * ind + f"| some {pat} =>")
            else:
                lines.append(" " * ind + f"let {pat} := {text}")
            for p in post:
                lines.append(" " * ind + p)
        c.pending = []

    def pend_text(self, pend, final, monadic):
        """single-line term: the pendings, then `final`."""
        out = final
        for kind, pat, text, post in reversed(pend):
            body = "; ".join(post + [out])
            if kind == "opt":
                out = f"(match {text} with | none => none | some {pat} => {body})"
            else:
                out = f"(let {pat} := {text}; {body})"
        return out

    # ---- expression forms
    def ex_num(self, e, c):
        m = re.fullmatch(r"(0x[0-9a-fA-F_]+|\d[\d_]*?)(u64|u32|u8|i32|usize)?", e[1])
        if m and m.group(2) == "u64" and c.u64 == "Nat":
            body = m.group(1).replace("_", "")
            return Ex(body, "Nat", int(body, 16) if body.startswith("0x") else int(body))
        return super().ex_num(e, c)

    def const(self, name):
        val, rty = self.consts[name]
        ty = {"i32": "Int", "usize": "Nat", "u8": "Nat", "u64": "Nat"}.get(rty)
        if ty is None:
            raise TranslateError(f"const {name}: type {rty}")
        return Ex(f"({val} : {lty(ty)})", ty, int(val) if ty == "Nat" else None)

    def ex_path(self, e, c):
        segs, gen = e[1], e[2]
        if segs == ["self"] and "self" in c.env:
            return Ex(c.env["self"][0], c.env["self"][1])
        if len(segs) == 1 and not gen and segs[0] not in c.env and segs[0] in self.consts:
            return self.const(segs[0])
        if len(segs) == 2 and segs[0] in self.enums and not gen:
            if segs[1] not in self.enums[segs[0]]:
                raise TranslateError("unknown variant " + "::".join(segs))
            v = self.enums[segs[0]][segs[1]]
            return Ex(str(v), "Nat", v)
        if len(segs) >= 2 and segs[-2] == "Type" and self.settings is not None and not gen:
            for v, payload in self.settings:
                if v == segs[-1] and payload is None:
                    return Ex(f"Settings.{v}", "Settings")
        if len(segs) >= 2 and segs[-1] in self.consts and not gen:
            return self.const(segs[-1])
        return super().ex_path(e, c)

    def coerce(self, x, ty, what):
        if x.ty == ty:
            return x
        if x.ty == "BB" and ty == "Nat":
            return Ex(f"(BitVec.toNat {x.text})", "Nat")
        if x.ty == "Dur" and ty == "Nat" or x.ty == "Nat" and ty == "Dur":
            return Ex(x.text, ty)
        if isinstance(ty, tuple) and isinstance(x.ty, tuple) and ty[0] in ("List", "RList") and x.ty[0] == ty[0] and x.ty[1] in ("?", "Lit"):
            return Ex(x.text, ty)
        if isinstance(ty, tuple) and isinstance(x.ty, tuple) and ty[0] == "Arr" and x.ty == ("List", "?"):
            return Ex("#[]", ty) if x.text == "[]" else x
        if is_opt(ty) and is_opt(x.ty) and x.ty[1] == "Lit" and ty[1] in ("Nat", "Int"):
            return Ex(x.text, ty)
        return super().coerce(x, ty, what)

    def nonzero(self, e):
        """a divisor that is syntactically `x.max(k)` / `std::cmp::max(x, k)` with a positive literal k."""
        while e[0] in ("paren", "cast"):
            e = e[1]
        lits = []
        if e[0] == "mcall" and e[2] == "max" and len(e[4]) == 1:
            lits = [e[4][0]]
        if e[0] == "call" and e[1][0] == "path" and e[1][1][-1] == "max":
            lits = list(e[2])
        return any(a[0] == "num" and int(re.sub(r"[^0-9]", "", a[1].split("u")[0].split("i")[0]) or "0") > 0 for a in lits)

    def ex_binary(self, e, c):
        op, l, r = e[1], e[2], e[3]
        if op in ("&&", "||"):
            a = self.coerce(self.ex(l, c), "Bool", op)
            facts = self.guard_facts(l, c) if op == "&&" else set()
            sub = c.child()
            sub.guards |= facts
            sub.pending = []
            b = self.coerce(self.ex(r, sub), "Bool", op)
            if not sub.pending:
                return Ex(f"({a.text} {op} {b.text})", "Bool")
            # an effectful / possibly panicking right operand: evaluated only when the left one does not decide
            vars_ = self.pend_vars(sub.pending, c)
            monadic = any(p[0] == "opt" for p in sub.pending)
            tup = lambda first: "(" + ", ".join([first] + vars_) + ")"     # noqa: E731
            wrap = (lambda t: "some " + t) if monadic else (lambda t: t)   # noqa: E731
            run = self.pend_text(sub.pending, wrap(tup(b.text)), monadic)
            # `let (r, st) := f st; (r, st)` is `f st`
            if len(sub.pending) == 1 and not sub.pending[0][3] and sub.pending[0][1] == tup(b.text):
                run = sub.pending[0][2]
            skip = wrap(tup("false" if op == "&&" else "true"))
            cond = a.text if op == "&&" else f"(!{a.text})"
            v = c.fresh("c")
            c.pending.append(("opt" if monadic else "let", tup(v), f"(if {cond} then {run} else {skip})", []))
            c.roots[v] = "Bool"
            for x in vars_:
                self.invalidate(c, x)
            return Ex(v, "Bool")
        if op in ("/", "%"):
            ta, tb = self.peek(l, c), self.peek(r, c)
            if tb.const is None and {ta.ty, tb.ty} <= {"Nat", "Lit", "Dur"} and {ta.ty, tb.ty} & {"Nat", "Dur"}:
                a, b = self.ex(l, c), self.ex(r, c)
                if self.nonzero(r):
                    return Ex(f"({a.text} {op} {b.text})", "Nat")
                fn = "R.checkedDiv" if op == "/" else "R.checkedMod"
                return self.bind(f"({fn} {a.text} {b.text})", "Nat", "q", c, "division")
        if op in ("<", ">", "<=", ">=", "==", "!="):
            ta, tb = self.peek(l, c), self.peek(r, c)
            if ta.ty in ("T", "Dur") or tb.ty in ("T", "Dur") or (ta.ty == "Mv" and tb.ty == "Mv" and op in ("==", "!=")
                                                                  and not self.guarded_unwrap(l, c.child()) and not self.guarded_unwrap(r, c.child())):
                a, b = self.ex(l, c), self.ex(r, c)
                if a.ty == "Lit":
                    a = self.coerce(a, b.ty, op)
                b = self.coerce(b, a.ty, op)
                return Ex(f"({a.text} {op} {b.text})", "Bool")
        return super().ex_binary(e, c)

    def peek(self, e, c):
        """translate without side effects on `c` (to look at the type)."""
        sub = c.child()
        sub.pending = []
        sub.monadic = True
        return self.ex(e, sub)

    def pend_vars(self, pend, c):
        """Lean state variables re-bound by a list of pendings (in order of appearance)."""
        out = []
        for kind, pat, text, post in pend:
            names = re.findall(r"[A-Za-z_][A-Za-z0-9_']*", pat)
            for p in post:
                m = re.match(r"let ([A-Za-z_][A-Za-z0-9_']*)", p)
                if m:
                    names.append(m.group(1))
            for n in names:
                if n in c.roots and n not in out and any(v[0].split(".")[0] == n and v[2] for v in c.env.values()):
                    out.append(n)
        return out

    def ex_cast(self, e, c):
        x = self.ex(e[1], c)
        tname = e[2][1] if e[2][0] == "ty" else None
        if x.ty == "Bool" and tname == "i32":
            return Ex(f"(if {x.text} then (1 : Int) else 0)", "Int")
        if tname in ("u128", "u64", "usize", "u32") and x.ty in ("Nat", "Dur", "Lit"):
            return Ex(x.text, "Nat" if x.ty != "Lit" else "Lit", x.const)
        if tname in ("usize", "u64") and x.ty == "BB":
            return Ex(f"(BitVec.toNat {x.text})", "Nat")
        return super().ex_cast(e, c)

    def ex_array(self, e, c):
        xs = [self.ex(x, c) for x in e[1]]
        tys = {repr(x.ty): x.ty for x in xs if x.ty != "Lit"}
        if len(tys) > 1:
            raise TranslateError("array literal of mixed types")
        ty = list(tys.values())[0] if tys else ("Lit" if xs else "?")
        return Ex("[" + ", ".join(x.text for x in xs) + "]", ("List", ty))

    def ex_arrayrep(self, e, c):
        v, n = self.ex(e[1], c), self.ex(e[2], c)
        if n.const is None:
            raise TranslateError("array repeat count must be a literal")
        return Ex(f"(List.replicate {n.text} {v.text})", ("List", v.ty))

    def ex_panic(self, e, c):
        if not c.monadic:
            raise NeedMonad("panic!")
        raise TranslateError("panic! in expression position")

    def ex_ifexpr(self, e, c):
        """a pure if-expression (branches are single expressions)."""
        _, branches, els = e[1]
        if els is None:
            raise TranslateError("if-expression without else")
        out, tys = "", []
        for cond, blk in branches:
            if cond[0] != "cond" or len(blk) != 1 or blk[0][0] != "tail":
                raise TranslateError("if-expression form not supported in expression position")
            ct = self.coerce(self.ex(cond[1], c), "Bool", "if condition")
            v = self.ex(blk[0][1], c)
            tys.append(v.ty)
            out += f"if {ct.text} then {v.text} else "
        if len(els) != 1 or els[0][0] != "tail":
            raise TranslateError("if-expression form not supported in expression position")
        v = self.ex(els[0][1], c)
        tys.append(v.ty)
        known = [t for t in tys if t != "Lit"]
        if len({repr(t) for t in known}) > 1:
            raise TranslateError("if-expression branches of different types")
        return Ex(f"({out}{v.text})", known[0] if known else "Lit")

    def ex_field(self, e, c):
        base, f = e[1], e[2]
        if f in ("0", "1") and self.peek(base, c).ty == "Score":
            return Ex(f"{self.ex(base, c).text}.{int(f) + 1}", "Int")
        if f != "0":
            b = self.ex(base, c)
            if isinstance(b.ty, tuple) and b.ty[0] == "View":
                tab = self.views[b.ty[1]]
                if f not in tab:
                    raise TranslateError(f"field {f} is not part of the {b.ty[1]} view of Stats")
                return Ex(f"{b.text}.{tab[f][0]}", tab[f][1])
            if isinstance(b.ty, tuple) and b.ty[0] == "Rec":
                tab = self.recs[b.ty[1]][1]
                if f not in tab:
                    raise TranslateError(f"field {f} of {b.ty[1]}")
                return Ex(f"{b.text}.{tab[f][0]}", tab[f][1])
            if isinstance(b.ty, tuple) and b.ty[0] == "Table" and f == "entries":
                return Ex(f"{b.text}.entries", ("Arr", b.ty[1]))
            if b.ty == "Mv" or b.ty == "Pos":
                pass
        return super().ex_field(e, c)

    def ex_index(self, e, c):
        base, idx = e[1], e[2]
        if not (base[0] == "field" and base[2] in imp.POS_ARRAYS) and not (base[0] == "path" and base[1][0] in imp.TABLES):
            b = self.ex(base, c)
            if isinstance(b.ty, tuple) and b.ty[0] in ("List", "Arr"):
                i = self.ex(idx, c)
                if i.ty not in ("Nat", "Lit", "Pc", "Sq"):
                    raise TranslateError(f"index of type {i.ty}")
                nm = re.sub(r"[^A-Za-z0-9_]", "_", b.text.split(".")[-1] + "_" + i.text).strip("_")
                return self.bind(f"{b.text}[{i.text}]?", b.ty[1], nm if re.fullmatch(r"[A-Za-z_][A-Za-z0-9_]*", nm) else "x", c, "index")
        return super().ex_index(e, c)

    def ex_struct(self, e, c):
        segs, fields = e[1], e[2]
        name = segs[-1]
        if name == "Hashtable" and [f for f, _ in fields] == ["entries"]:
            v = self.coerce(self.ex(fields[0][1], c), ("Arr", "T"), "entries")
            return Ex(f"({{ entries := {v.text} }} : Rawr.Table α)", ("Table", "T"))
        if name in self.recs and name != "Mv":
            lean, tab = self.recs[name]
            if [f for f, _ in fields] != list(tab):
                raise TranslateError(f"struct literal {name}: fields {[f for f, _ in fields]} expected {list(tab)}")
            vals = [self.coerce(self.ex(v, c), tab[f][1], f"{name}.{f}") for f, v in fields]
            return Ex("({ " + ", ".join(f"{tab[f][0]} := {v.text}" for (f, _), v in zip(fields, vals)) + f" }} : {lean})", ("Rec", name))
        return super().ex_struct(e, c)

    def ex_unary(self, e, c):
        if e[1] == "-":
            x = self.ex(e[2], c)
            if x.ty in ("Int", "Lit"):
                return Ex(f"(-{x.text})", "Int")
            raise TranslateError(f"unary - on {x.ty}")
        return super().ex_unary(e, c)

    # ---- calls
    def place(self, e, c):
        """an argument that names mutable state: (Lean text, type, root Lean variable, field or None)."""
        while e[0] == "paren":
            e = e[1]
        if e[0] == "path" and len(e[1]) == 1 and e[1][0] in c.env:
            ln, ty, mut = c.env[e[1][0]]
            if not mut:
                raise TranslateError("mutable use of the immutable binding " + e[1][0])
            root, _, field = ln.partition(".")
            return ln, ty, root, (field or None)
        if e[0] == "field" and e[1][0] == "path" and len(e[1][1]) == 1 and e[1][1][0] in c.env:
            ln, ty, mut = c.env[e[1][1][0]]
            if not mut:
                raise TranslateError("mutable use of the immutable binding " + e[1][1][0])
            x = self.ex(e, c)
            if "." in ln:
                raise TranslateError("nested field place")
            return x.text, x.ty, ln, x.text.split(".", 1)[1]
        raise TranslateError("this argument must name a mutable variable")

    def store(self, root, field, value, c):
        """the `let` line that stores `value` into a place."""
        if field is None:
            return f"let {root} : {c.roots[root]} := {value}" if root in c.roots else f"let {root} := {value}"
        return f"let {root} : {c.roots[root]} := {{ {root} with {field} := {value} }}"

    def call_sfn(self, info, recv, args, gen, c, key):
        params = list(info.params)
        actual = list(args)
        if info.hasself:
            if recv is None:
                raise TranslateError(key + ": method called as a function")
            actual = [recv] + actual
        if len(actual) + len(gen) != len([p for p in params if p[1][0] != "extra"]):
            raise TranslateError(key + ": wrong number of arguments")
        inst = None
        if info.hasself and recv is not None and info.params[0][1][1] == ("Table", "T"):
            rt = self.peek(recv, c).ty
            if isinstance(rt, tuple) and rt[0] == "Table" and rt[1] != "T":
                inst = rt[1]

        def sub(t):
            if inst is None:
                return t
            if t == "T":
                return inst
            if isinstance(t, tuple):
                return tuple(sub(x) if isinstance(x, (tuple, str)) else ([sub(y) for y in x] if isinstance(x, list) else x) for x in t)
            return t
        params = [(pn, tuple(sub(x) for x in spec)) for pn, spec in params]
        statics, vals, posts = [], [], []
        pats = []                      # (out name, pattern text)
        groups = {}                    # callee group var -> (argument text, out pattern, posts)
        it = iter(actual + [("path", [g], []) for g in gen])
        for pname, spec in params:
            if spec[0] == "extra":
                if pname not in c.env:
                    raise TranslateError(f"{key}: needs `{pname}`, which the caller does not have")
                vals.append((pname, c.env[pname][0]))
                continue
            a = next(it)
            if spec[0] == "val":
                vals.append((pname, self.coerce(self.ex(a, c), spec[1], key).text))
            elif spec[0] == "static":
                x = self.ex(a, c)
                if x.ty != spec[1]:
                    raise TranslateError(f"{key}: argument {pname} of type {x.ty}")
                statics.append(x.text)
            elif spec[0] == "state":
                text, ty, root, field = self.place(a, c)
                if ty != spec[1]:
                    raise TranslateError(f"{key}: state argument {pname}: expected {spec[1]}, got {ty}")
                vals.append((pname, text))
                if field is None:
                    pats.append((pname, root))
                else:
                    v = c.fresh(pname + "'")
                    pats.append((pname, v))
                    posts.append(self.store(root, field, v, c))
            elif spec[0] == "group":
                g = spec[1]
                rec, mapping = info.groups[g]
                m = mapping[pname]
                text, ty, root, field = self.place(a, c)
                if isinstance(m, str):
                    if field != m or c.roots.get(root) != lty(("Rec", rec)):
                        raise TranslateError(f"{key}: argument {pname} must be the `{m}` field of a {rec}")
                    cand = (root, root, [])
                else:
                    if not (isinstance(ty, tuple) and ty[0] == "View") or field is not None:
                        raise TranslateError(f"{key}: argument {pname} must be a Stats")
                    if ty[1] == rec:
                        cand = (root, root, [])
                    else:
                        if len([1 for _, s in params if s == spec]) != 1:
                            raise TranslateError(f"{key}: cannot convert a {ty[1]} into part of a {rec}")
                        mine, theirs = self.views[ty[1]], self.views[rec]
                        for f in theirs:
                            if f not in mine or mine[f][1] != theirs[f][1]:
                                raise TranslateError(f"{key}: Stats field {f} is missing in the caller's view")
                        q = c.fresh("q")
                        argt = "({ " + ", ".join(f"{theirs[f][0]} := {root}.{mine[f][0]}" for f in theirs) + f" }} : {lty(('Rec', rec))})"
                        upd = f"let {root} : {c.roots[root]} := {{ {root} with " + ", ".join(f"{mine[f][0]} := {q}.{theirs[f][0]}" for f in theirs) + " }"
                        cand = (argt, q, [upd])
                if g in groups and groups[g] != cand:
                    raise TranslateError(f"{key}: the arguments for `{g}` do not belong to one record")
                if g not in groups:
                    groups[g] = cand
                    vals.append((g, cand[0]))
                    pats.append((g, cand[1]))
                    posts.extend(cand[2])
            else:
                raise TranslateError("parameter kind " + spec[0])
        argtext = [v for _, v in vals]
        if info is c.fn and c.rec is not None:
            head = c.rec
        else:
            head = "R." + info.lean + "".join(" " + s for s in statics)
            if info.fuel is not None:
                head += " " + info.fuel
        text = "(" + " ".join([head] + argtext) + ")"
        outs = [dict(pats)[o] for o in info.outs]
        iret = sub(info.ret)
        if not outs:
            if info.monadic:
                return self.bind(text, iret, info.lean + "_r", c, key)
            return Ex(text, iret)
        parts = list(outs)
        r = None
        if iret != "Unit":
            r = c.fresh("r")
            c.roots[r] = lty(iret)
            parts = [r] + parts
        if info.monadic and not c.monadic:
            raise NeedMonad(key)
        pat = parts[0] if len(parts) == 1 else "(" + ", ".join(parts) + ")"
        c.pending.append(("opt" if info.monadic else "let", pat, text, posts))
        for o in outs:
            if o in c.roots:
                self.invalidate(c, o)
        for p in posts:
            self.invalidate(c, p.split()[1])
        return Ex(r if r is not None else "()", iret)

    def call_stop(self, ln, args, c, key):
        if len(args) != 1:
            raise TranslateError(key + ": one argument expected")
        text, ty, root, field = self.place(args[0], c)
        if ty != ("View", "SState") or field is not None:
            raise TranslateError(key + ": the argument must be the Stats of an SState")
        if not c.monadic:
            raise NeedMonad(key)
        r = c.fresh("r")
        c.roots[r] = "Bool"
        c.pending.append(("opt", f"({r}, {root})", f"({ln} {root})", []))
        self.invalidate(c, root)
        return Ex(r, "Bool")

    def ex_call(self, e, c):
        f, args = e[1], e[2]
        if f[0] == "path":
            segs, gen = f[1], f[2]
            key, last = "::".join(segs), segs[-1]
            if key in ("std::cmp::max", "std::cmp::min") and len(args) == 2:
                a, b = self.ex(args[0], c), self.ex(args[1], c)
                if a.ty == "Lit":
                    a = self.coerce(a, b.ty, key)
                b = self.coerce(b, a.ty, key)
                if a.ty not in ("Int", "Nat"):
                    raise TranslateError(f"{key} on {a.ty}")
                return Ex(f"({last} {a.text} {b.text})", a.ty)
            if len(args) == 2 and (key == "Score" or (key == "Self" and getattr(self, "cur_self", None) == "Score")):
                a = self.coerce(self.ex(args[0], c), "Int", key)
                b = self.coerce(self.ex(args[1], c), "Int", key)
                return Ex(f"(({a.text}, {b.text}) : Score)", "Score")
            if key == "T::default" and not args:
                return Ex("(default : α)", "T")
            if segs == ["Option", "default"] and len(gen) == 1 and not args:
                return Ex("none", ("Opt", self.conv(("ty", gen[0], []), c)))
            if key == "std::mem::size_of" and gen == ["T"] and not args:
                if "size_of_T" not in c.env:
                    raise TranslateError("size_of::<T>() needs the `size_of_T` parameter")
                return Ex("size_of_T", "Nat")
            if key == "Instant::now" and not args:
                return Ex("()", "Instant")
            if key in ("Ok", "Err") and isinstance(c.rettype, tuple) and c.rettype[0] == "Result" and len(args) == 1:
                a = self.coerce(self.ex(args[0], c), c.rettype[1 if key == "Ok" else 2], key)
                return Ex(f"(Except.{'ok' if key == 'Ok' else 'error'} {a.text})", c.rettype)
            if len(segs) == 1 and last in c.env and c.env[last][1] == "StopFn":
                return self.call_stop(c.env[last][0], args, c, key)
            for cand in (key, last):
                if cand in self.sfns and not self.sfns[cand].hasself:
                    return self.call_sfn(self.sfns[cand], None, args, gen, c, key)
        return super().ex_call(e, c)

    def iter_norm(self, x):
        return f"(List.reverse {x.text})" if getattr(x, "rev", False) else x.text

    def ex_mcall(self, e, c):
        recv_ast, name, gen, args = e[1], e[2], e[3], e[4]
        if name == "unwrap" and not args:
            return super().ex_mcall(e, c)
        t = self.peek(recv_ast, c).ty
        k = t[0] if isinstance(t, tuple) else t
        if t == "Pos" and "Position::" + name in self.sfns:
            return self.call_sfn(self.sfns["Position::" + name], recv_ast, args, gen, c, "Position::" + name)
        if k == "Table" and "Hashtable::" + name in self.sfns:
            return self.call_sfn(self.sfns["Hashtable::" + name], recv_ast, args, gen, c, "Hashtable::" + name)
        if k in ("List", "RList", "Arr", "Iter"):
            r = self.ex(recv_ast, c)
            pre = "Array" if k == "Arr" else "List"
            if name == "len" and not args and k != "Iter":
                return Ex(f"({pre}.{'size' if k == 'Arr' else 'length'} {r.text})", "Nat")
            if name == "is_empty" and not args and k != "Iter":
                return Ex(f"({pre}.isEmpty {r.text})", "Bool")
            if name == "iter" and not args and k in ("List", "RList"):
                x = Ex(r.text, ("Iter", t[1]))
                x.rev = k == "RList"
                return x
            if k == "Iter":
                if name == "rev" and not args:
                    x = Ex(r.text, t)
                    x.rev = not getattr(r, "rev", False)
                    return x
                if name == "take" and len(args) == 1:
                    n = self.coerce(self.ex(args[0], c), "Nat", "take")
                    return Ex(f"(List.take {n.text} {self.iter_norm(r)})", t)
                if name == "step_by" and len(args) == 1:
                    n = self.ex(args[0], c)
                    if n.const != 2 or t[1] != "BB":
                        raise TranslateError("step_by: only step_by(2) over u64 hashes is supported")
                    return Ex(f"(Rawr.everySecond {self.iter_norm(r)})", t)
                if name == "filter" and len(args) == 1 and args[0][0] == "closure" and len(args[0][1]) == 1 \
                        and len(args[0][2]) == 1 and args[0][2][0][0] == "tail":
                    p = args[0][1][0]
                    sub = c.child()
                    sub.pending = []
                    sub.env[p] = (lname(p), t[1], False)
                    b = self.coerce(self.ex(args[0][2][0][1], sub), "Bool", "filter")
                    if sub.pending:
                        raise TranslateError("possibly panicking expression in a filter closure")
                    return Ex(f"(List.filter (fun {lname(p)} => {b.text}) {self.iter_norm(r)})", t)
                if name == "count" and not args:
                    return Ex(f"(List.length {self.iter_norm(r)})", "Nat")
        if is_opt(t) and name == "unwrap_or" and len(args) == 1:
            r = self.ex(recv_ast, c)
            d = self.coerce(self.ex(args[0], c), t[1], "unwrap_or")
            return Ex(f"(Option.getD {r.text} {d.text})", t[1])
        if t in ("Nat", "Int") and name in ("max", "min") and len(args) == 1:
            r = self.ex(recv_ast, c)
            d = self.coerce(self.ex(args[0], c), t, name)
            return Ex(f"({name} {r.text} {d.text})", t)
        if t == "Instant" and name == "elapsed" and not args:
            if getattr(c, "clock", None) is None:
                raise TranslateError("elapsed(): no clock in this function")
            return Ex(f"({c.clock[0]} {c.clock[1]})", "Dur")
        if t == "Dur" and name == "as_millis" and not args:
            return Ex(self.ex(recv_ast, c).text, "Nat")
        return super().ex_mcall(e, c)


# --------------------------------------------------------------------------------------------- translator: statements
class K:
    """what the exits of a block mean: each hook gives a single-line Lean term (or None = not allowed here)."""

    def __init__(self, ret, fall, brk=None, cont=None, tailv=None):
        self.ret, self.fall, self.brk, self.cont = ret, fall, brk, cont
        self.tailv = tailv or ret


VEC_MUTATORS = ("push", "pop", "resize", "fill")


class SC(ST):
    # ---- analysis
    def effects(self, node, c, declared, out):
        """Rust variables (roots) mutated by a statement list / statement / expression, in order of appearance."""
        def add(n):
            if n not in declared and n not in out:
                out.append(n)

        def root(e):
            try:
                return self.root_var(e, c)
            except TranslateError:
                return None
        if isinstance(node, list):
            declared = set(declared)
            for s in node:
                if isinstance(s, tuple) and s and s[0] == "let":
                    self.effects(s[4], c, declared, out)
                    pat = s[1]
                    declared |= set([pat[1]] if pat[0] == "pvar" else pat[1])
                else:
                    self.effects(s, c, declared, out)
            return out
        if not isinstance(node, tuple) or not node:
            return out
        k = node[0]
        if k == "assign":
            self.effects(node[3], c, declared, out)
            for x in (node[2][1] if node[2][0] == "tuple" else [node[2]]):
                r = root(x)
                if r:
                    add(r)
        elif k == "if":
            for cond, b in node[1]:
                self.effects(cond[2] if cond[0] == "iflet" else cond[1], c, declared, out)
                self.effects(b, c, declared | ({cond[1]} if cond[0] == "iflet" else set()), out)
            if node[2] is not None:
                self.effects(node[2], c, declared, out)
        elif k == "ifexpr":
            self.effects(node[1], c, declared, out)
        elif k == "for":
            self.effects(node[2], c, declared, out)
            pat = node[1]
            self.effects(node[3], c, declared | set([pat[1]] if pat[0] == "pvar" else pat[1]), out)
        elif k in ("match", "matchstmt"):
            self.effects(node[1], c, declared, out)
            for pat, body in node[2]:
                self.effects(body, c, declared | set(pat[2] or [] if pat[0] == "pctor" else []), out)
        elif k == "closure":
            self.effects(node[2], c, declared | set(node[1]), out)
        elif k == "call":
            f, args = node[1], node[2]
            for a in args:
                self.effects(a, c, declared, out)
            if f[0] == "path":
                segs = f[1]
                if len(segs) == 1 and segs[0] in c.env and segs[0] not in declared and c.env[segs[0]][1] in ("StopFn", "Sink"):
                    if c.env[segs[0]][1] == "Sink":
                        add(segs[0])
                    elif args:
                        r = root(args[0])
                        if r:
                            add(r)
                else:
                    for cand in ("::".join(segs), segs[-1]):
                        if cand in self.sfns and not self.sfns[cand].hasself:
                            ps = [p for p in self.sfns[cand].params if p[1][0] != "extra"]
                            for (pn, spec), a in zip(ps, args):
                                if spec[0] in ("state", "group"):
                                    r = root(a)
                                    if r:
                                        add(r)
                            break
        elif k == "mcall":
            recv, name, args = node[1], node[2], node[4]
            self.effects(recv, c, declared, out)
            for a in args:
                self.effects(a, c, declared, out)
            key = "Hashtable::" + name
            if name in VEC_MUTATORS or (key in self.sfns and self.sfns[key].params[0][1][0] == "state") \
                    or ("Position::" + name in self.fns and self.fns["Position::" + name].mutself):
                r = root(recv)
                if r:
                    add(r)
        else:
            for x in node[1:]:
                if isinstance(x, (tuple, list)):
                    self.effects(x, c, declared, out)
        return out

    def mutated(self, node, c, declared=()):
        """the Lean variables re-bound by a piece of Rust code."""
        out = []
        for n in self.effects(node, c, set(declared), []):
            if n not in c.env:
                raise TranslateError("assignment to unknown variable " + n)
            r = c.env[n][0].split(".")[0]
            if r not in out:
                out.append(r)
        return out

    @staticmethod
    def exits(block, loop=True):
        """kinds of exits in a block: return anywhere, break/continue outside nested loops."""
        out = set()
        for s in block:
            k = s[0]
            if k == "return":
                out.add("return")
            elif k in ("break", "continue") and loop:
                out.add(k)
            elif k == "if":
                for _, b in s[1]:
                    out |= SC.exits(b, loop)
                if s[2] is not None:
                    out |= SC.exits(s[2], loop)
            elif k == "matchstmt":
                for _, b in s[2]:
                    out |= SC.exits(b, loop)
            elif k == "for":
                out |= SC.exits(s[3], False)
            elif k == "tail" and s[1][0] in ("ifexpr", "match"):
                blocks = [b for _, b in s[1][1][1]] + [s[1][1][2] or []] if s[1][0] == "ifexpr" else [b for _, b in s[1][2]]
                for b in blocks:
                    out |= SC.exits(b, loop)
        return out

    @staticmethod
    def always_exits(block, value_pos=False):
        if not block:
            return False
        s = block[-1]
        if s[0] in ("return", "break", "continue"):
            return True
        if s[0] == "tail" and value_pos and s[1][0] != "unit":
            return True
        if s[0] == "if" and s[2] is not None:
            return all(SC.always_exits(b, value_pos) for _, b in s[1]) and SC.always_exits(s[2], value_pos)
        return False

    def checkpoint(self, c):
        return (len(self.aux), self.loopno, set(c.names), list(c.pending), dict(c.unwrapped), dict(c.roots), dict(c.env))

    def restore(self, c, cp):
        del self.aux[cp[0]:]
        self.loopno = cp[1]
        c.names.clear()
        c.names.update(cp[2])
        c.pending, c.unwrapped, c.roots, c.env = list(cp[3]), dict(cp[4]), dict(cp[5]), dict(cp[6])

    @staticmethod
    def tup(names):
        return names[0] if len(names) == 1 else "(" + ", ".join(names) + ")"

    def tup_ty(self, names, c):
        return " × ".join(lty_paren(c.roots[n]) for n in names)

    # ---- blocks
    def cblock(self, stmts, c, ind, k):
        lines = []
        for i, s in enumerate(stmts):
            rest = stmts[i + 1:]
            kind = s[0]
            done = False
            if kind == "let":
                done = self.s_let(s, rest, c, ind, lines, k)
            elif kind == "assign":
                self.s_assign(s, c, ind, lines)
            elif kind == "expr":
                done = self.s_expr(s[1], rest, c, ind, lines, k)
            elif kind == "if":
                done = self.s_if(s[1], s[2], rest, c, ind, lines, k)
            elif kind == "matchstmt":
                done = self.s_match(s, rest, c, ind, lines, k)
            elif kind == "for":
                done = self.s_for(s, rest, c, ind, lines, k)
            elif kind in ("return", "break", "continue", "tail"):
                if kind == "tail" and s[1][0] == "unit":
                    continue
                if rest:
                    raise TranslateError(f"statements after `{kind}`")
                if kind == "tail" and s[1][0] == "ifexpr":
                    return lines + self.tail_if(s[1][1], c, ind, k)
                if kind == "tail" and s[1][0] == "match":
                    return lines + self.tail_match(s[1], c, ind, k)
                if kind == "tail" and s[1][0] == "panic" or kind == "return" and s[1] is not None and s[1][0] == "panic":
                    if not c.monadic:
                        raise NeedMonad("panic!")
                    self.flush(c, ind, lines)
                    lines.append(" " * ind + "none")
                    return lines
                if kind in ("return", "tail"):
                    v = None
                    if s[1] is not None:
                        v = self.ex(s[1], c)
                    t = (k.ret if kind == "return" else k.tailv)(c, v)
                else:
                    hook = k.brk if kind == "break" else k.cont
                    t = hook(c) if hook else None
                if t is None:
                    raise TranslateError(f"`{kind}` is not allowed here")
                self.flush(c, ind, lines)
                lines.append(" " * ind + t)
                return lines
            else:
                raise TranslateError("statement kind " + kind)
            if done:
                return lines
        t = k.fall(c)
        if t is None:
            raise TranslateError("control reaches the end of a block that must produce a value")
        self.flush(c, ind, lines)
        lines.append(" " * ind + t)
        return lines

    # ---- if
    def chain(self, branches, els, c, ind, lines, body, tail, pre=None):
        """`if c1 then (B1) else (if c2 ..)`: `body(block, ctx, ind)` compiles a branch, `tail(ctx, ind)` the final else
        when the Rust has none.  `pre` = (lines, indent) where the bindings needed by the FIRST condition go (default:
        in front of the `if`)."""
        (cond, blk), more = branches[0], branches[1:]
        sub = c.child()
        sub.pending = []
        head = self.cond_head(cond, c, sub)
        if pre is not None:
            self.flush(c, pre[1], pre[0])
        else:
            self.flush(c, ind, lines)
        sp = " " * ind
        for kk, vv in c.unwrapped.items():
            sub.unwrapped.setdefault(kk, vv)
        for kk, vv in c.roots.items():
            sub.roots.setdefault(kk, vv)
        if head[0] == "match" and cond[0] != "iflet":
            inner = cond[1]
            while inner[0] == "paren":
                inner = inner[1]
            sub.roots[head[2]] = lty(self.peek(inner[1], c).ty[1])

        def other(ctx, ind2):
            if more:
                ls = []
                self.chain(more, els, ctx, ind2, ls, body, tail)
                return ls
            if els is not None:
                return body(els, ctx, ind2)
            return tail(ctx, ind2)
        if head[0] == "if":
            lines.append(sp + f"if {head[1]} then (")
            lines.extend(body(blk, sub, ind + 4))
            lines[-1] += ")"
            lines.append(sp + "else (")
            lines.extend(other(c.child(), ind + 4))
            lines[-1] += ")"
        else:
            if cond[0] == "iflet":
                sub.declare(cond[1], head[2], sub.env[cond[1]][1], False)
            lines.append(sp + f"match {head[1]} with")
            lines.append(sp + f"| some {head[2]} => (")
            lines.extend(body(blk, sub, ind + 4))
            lines[-1] += ")"
            lines.append(sp + "| none => (")
            lines.extend(other(c.child(), ind + 4))
            lines[-1] += ")"

    def s_if(self, branches, els, rest, c, ind, lines, k):
        blocks = [b for _, b in branches] + ([els] if els is not None else [])
        value_pos = not rest and els is not None and all(b and b[-1][0] == "tail" and b[-1][1][0] != "unit" for b in blocks)
        ex = set()
        for b in blocks:
            ex |= self.exits(b)
        if not ex and not value_pos:
            self.effect_if(branches, els, c, ind, lines)
            return False
        falling = [b for b in blocks if not self.always_exits(b, value_pos)]
        nfall = len(falling) + (1 if els is None else 0)
        if nfall <= 1:
            def body(blk, sub, ind2):
                return self.cblock(blk + (rest if not self.always_exits(blk, value_pos) else []), sub, ind2, k)
            self.chain(branches, els, c, ind, lines, body, lambda sub, ind2: self.cblock(rest, sub, ind2, k))
            return True
        if ex - {"return"}:
            raise TranslateError("an `if` that may break/continue or fall through is not supported")
        self.join_if(branches, els, rest, c, ind, lines, k)
        return True

    def tail_if(self, ifs, c, ind, k):
        _, branches, els = ifs
        if els is None:
            raise TranslateError("if-expression without else")
        lines = []
        self.chain(branches, els, c, ind, lines, lambda blk, sub, ind2: self.cblock(blk, sub, ind2, k), None)
        return lines

    def join_if(self, branches, els, rest, c, ind, lines, k):
        """an `if` with `return`s inside that can also fall through."""
        blocks = [b for _, b in branches] + ([els] if els is not None else [])
        vars_ = []
        for b in blocks:
            for v in self.mutated(b, c):
                if v not in vars_:
                    vars_.append(v)
        rty = lty_paren(lty(c.rettype))
        early = c.fresh("early")
        cp = self.checkpoint(c)
        saved = c.monadic
        for monadic in ((False, True) if saved else (False,)):
            wrap = (lambda t: "some " + t) if monadic else (lambda t: t)     # noqa: E731
            kj = K(ret=lambda cc, v, w=wrap: w(self.tup([f"some {self.coerce(v, c.rettype, 'return value').text}"] + vars_)),
                   fall=lambda cc, w=wrap: w(self.tup(["none"] + vars_)))
            c.monadic = monadic
            n0 = len(lines)
            try:
                jl = []
                self.chain(branches, els, c, ind + 4, jl, lambda blk, sub, ind2: self.cblock(blk, sub, ind2, kj),
                           lambda sub, ind2: [" " * ind2 + kj.fall(sub)], pre=(lines, ind))
                break
            except NeedMonad:
                del lines[n0:]
                self.restore(c, cp)
                if monadic or not saved:
                    c.monadic = saved
                    raise
        c.monadic = saved
        sp = " " * ind
        ty = " × ".join([f"Option {rty}"] + [lty_paren(c.roots[v]) for v in vars_])
        if monadic:
            ty = f"Option ({ty})"
        lines.append(sp + "match ((")
        lines.extend(jl)
        lines[-1] += f") : {ty}) with"
        if monadic:
            lines.append(sp + "| none => none")
        w = (lambda t: "some " + t) if monadic else (lambda t: t)      # noqa: E731
        for v in vars_:
            self.invalidate(c, v)
        c.roots[early] = lty(c.rettype)
        lines.append(sp + f"| {w(self.tup(['some ' + early] + vars_))} => " + k.ret(c, Ex(early, c.rettype)))
        lines.append(sp + f"| {w(self.tup(['none'] + vars_))} =>")
        lines.extend(self.cblock(rest, c, ind, k))

    def effect_if(self, branches, els, c, ind, lines, valued=None):
        """an `if` without exits that updates variables (`valued` = (lean name, hint) for `let x = if ..`)."""
        blocks = [b for _, b in branches] + ([els] if els is not None else [])
        vars_ = []
        for b in blocks:
            for v in self.mutated(b, c):
                if v not in vars_:
                    vars_.append(v)
        sp = " " * ind
        if not vars_ and valued is None:
            cp = self.checkpoint(c)
            self.chain(branches, els, c, ind, [], lambda blk, sub, ind2: self.cblock(blk, sub, ind2, K(None, lambda cc: "()")),
                       lambda sub, ind2: ["()"])
            self.restore(c, cp)          # only dropped debug assertions inside: the conditions must be translatable
            return None
        # `if c { x = e; }`  ->  let x := if c then e else x
        if valued is None and len(branches) == 1 and els is None and branches[0][0][0] == "cond" and len(branches[0][1]) == 1:
            st = branches[0][1][0]
            if st[0] == "assign" and st[2][0] == "path" and len(st[2][1]) == 1 and st[2][1][0] in c.env and "." not in c.env[st[2][1][0]][0]:
                cp = self.checkpoint(c)
                sub = c.child()
                sub.pending = []
                head = self.cond_head(branches[0][0], c, sub)
                ln, ty, mut = c.env[st[2][1][0]]
                if head[0] == "if" and mut:
                    e = self.ex(st[3], sub)
                    if st[1] != "=":
                        e = self.combine(Ex(ln, ty), st[1], e)
                    e = self.coerce(e, ty, "assignment")
                    if not sub.pending:
                        self.flush(c, ind, lines)
                        lines.append(sp + f"let {ln} : {lty(ty)} := if {head[1]} then {e.text} else {ln}")
                        self.invalidate(c, ln)
                        return None
                self.restore(c, cp)
        cp = self.checkpoint(c)
        saved = c.monadic
        vty = [None]
        for monadic in ((False, True) if saved else (False,)):
            wrap = (lambda t: "some " + t) if monadic else (lambda t: t)     # noqa: E731

            def tailv(cc, v, w=wrap):
                if valued is None:
                    raise TranslateError("value in a block that only updates variables")
                if v.ty != "Lit":
                    if vty[0] not in (None, v.ty) and not (is_opt(vty[0]) and is_opt(v.ty) and "?" in (vty[0][1], v.ty[1])):
                        raise TranslateError("if-expression branches of different types")
                    if vty[0] is None or (is_opt(vty[0]) and vty[0][1] == "?"):
                        vty[0] = v.ty
                return w(self.tup([v.text] + vars_))
            kb = K(ret=None, fall=(lambda cc, w=wrap: w(self.tup(vars_))) if valued is None else (lambda cc: None), tailv=tailv)
            c.monadic = monadic
            n0 = len(lines)
            try:
                jl = []
                self.chain(branches, els, c, ind + 4, jl, lambda blk, sub, ind2: self.cblock(blk, sub, ind2, kb),
                           lambda sub, ind2: [" " * ind2 + kb.fall(sub)], pre=(lines, ind))
                break
            except NeedMonad:
                del lines[n0:]
                self.restore(c, cp)
                if monadic or not saved:
                    c.monadic = saved
                    raise
        c.monadic = saved
        names = ([valued[0]] if valued is not None else []) + vars_
        if valued is not None:
            t = vty[0] if vty[0] is not None else valued[1]
            if t is None:
                raise TranslateError("cannot determine the type of an if-expression")
            c.roots[valued[0]] = lty(t)
        tys = " × ".join(lty_paren(c.roots[n]) for n in names)
        if monadic:
            lines.append(sp + "match ((")
            lines.extend(jl)
            lines[-1] += f") : Option ({tys})) with"
            lines.append(sp + "| none => none")
            lines.append(sp + f"| some {self.tup(names)} =>")
        else:
            lines.append(sp + f"let {self.tup(names)} : {tys} := (")
            lines.extend(jl)
            lines[-1] += ")"
        for v in vars_:
            self.invalidate(c, v)
        return vty[0]

    # ---- match
    def arm_cond(self, scrut, pat):
        if pat[0] != "pctor" or pat[2] is not None:
            raise TranslateError("match arm pattern not supported in a statement match")
        return ("cond", ("binary", "==", scrut, ("path", pat[1], [])))

    def s_match(self, s, rest, c, ind, lines, k):
        """a statement `match` over a C-like enum: the chain of `if scrut == Variant`, no arm for other values."""
        _, scrut, arms = s
        t = self.peek(scrut, c).ty
        if t == "Settings":
            raise TranslateError("a match over settings::Type is only supported in tail position")
        if arms and arms[-1][0][0] == "pwild":
            branches = [(self.arm_cond(scrut, p), b) for p, b in arms[:-1]]
            return self.s_if(branches, arms[-1][1], rest, c, ind, lines, k)
        return self.s_if([(self.arm_cond(scrut, p), b) for p, b in arms], None, rest, c, ind, lines, k)

    def tail_match(self, m, c, ind, k):
        """`match` as the value of a block: over settings::Type a Lean `match`, over a C-like enum the if-chain whose
        last arm is the else."""
        _, scrut, arms = m
        x = self.ex(scrut, c)
        lines = []
        if x.ty != "Settings":
            branches = [(self.arm_cond(scrut, p), b) for p, b in arms[:-1]]
            last = arms[-1]
            if last[0][0] not in ("pwild", "pctor"):
                raise TranslateError("match arm pattern")
            self.chain(branches, last[1], c, ind, lines, lambda blk, sub, ind2: self.cblock(blk, sub, ind2, k), None)
            return lines
        self.flush(c, ind, lines)
        sp = " " * ind
        lines.append(sp + f"match {x.text} with")
        seen = []
        for pat, body in arms:
            sub = c.child()
            sub.pending = []
            if pat[0] == "pwild":
                lines.append(sp + "| _ => (")
            else:
                v = pat[1][-1]
                decl = [p for n, p in self.settings if n == v]
                if not decl or len(pat[1]) < 2 or pat[1][-2] != "Type":
                    raise TranslateError("unknown settings::Type variant " + "::".join(pat[1]))
                payload = decl[0] or []
                subs = pat[2] or []
                if len(subs) != len(payload):
                    raise TranslateError(f"pattern {v}: {len(payload)} fields expected")
                names = []
                for n, ty in zip(subs, payload):
                    if n == "_":
                        names.append("_")
                    else:
                        ln = lname(n)
                        sub.declare(n, ln, ty, False)
                        names.append(ln)
                lines.append(sp + f"| .{v}" + "".join(" " + n for n in names) + " => (")
                seen.append(v)
            lines.extend(self.cblock(body, sub, ind + 4, k))
            lines[-1] += ")"
        return lines


def lty_paren(s):
    return f"({s})" if " " in s and not (s.startswith("(") and s.endswith(")")) else s


LOOPCALL = "@@LOOPCALL@@"


class SC2(SC):
    # ---- let
    CANDS = {"Lit": ["Int", "Nat"], repr(("List", "Lit")): [("List", "Int"), ("List", "Nat")],
             repr(("List", "?")): [("List", "Mv")], repr(("Opt", "?")): [("Opt", "Mv"), ("Opt", "Int"), ("Opt", "Nat")]}

    def infer(self, name, ln, vty, mutable, rest, c, ind, k):
        """the type of `let x = <literal / None / empty>` from the later uses (trial compilation of the rest)."""
        cands = self.CANDS.get(vty if isinstance(vty, str) else repr(vty))
        if cands is None:
            return vty
        for cand in cands:
            cp = self.checkpoint(c)
            trial = c.child()
            trial.pending = []
            trial.declare(name, ln, cand, mutable)
            try:
                self.cblock(rest, trial, ind, k)
                self.restore(c, cp)
                return cand
            except NeedMonad:
                self.restore(c, cp)
                raise
            except TranslateError as ex:
                self.restore(c, cp)
                last = ex
        raise TranslateError(f"let {name}: cannot determine its type from its uses ({last})")

    def s_let(self, s, rest, c, ind, lines, k):
        _, pat, mutable, ty, e = s
        if pat[0] != "pvar":
            raise TranslateError("tuple pattern in let")
        name = pat[1]
        ln = lname(name)
        dty = self.conv(ty, c) if ty is not None else None
        special = self.let_special(name, ln, mutable, e, c, ind, lines)
        if special:
            return False
        if e[0] in ("ifexpr", "match"):
            cp = self.checkpoint(c)
            try:
                v = self.ex(e, c)
            except TranslateError:
                self.restore(c, cp)
                v = None
            if v is None:
                if e[0] != "ifexpr":
                    raise TranslateError("let x = match ..: not supported")
                _, branches, els = e[1]
                if els is None:
                    raise TranslateError("if-expression without else")
                vty = self.effect_if(branches, els, c, ind, lines, valued=(ln, dty))
                c.declare(name, ln, dty or vty, mutable)
                self.invalidate(c, ln)
                return False
        else:
            v = self.ex(e, c)
        vty = v.ty
        if dty is not None:
            v = self.coerce(v, dty, "let")
            vty = dty
        if vty == "SqIdx":
            vty = "Sq"
        vty = self.infer(name, ln, vty, mutable, rest, c, ind, k)
        self.flush(c, ind, lines)
        lines.append(" " * ind + f"let {ln} : {lty(vty)} := {v.text}")
        c.declare(name, ln, vty, mutable)
        self.invalidate(c, ln)
        if is_opt(vty) and v.text in c.unwrapped:
            c.unwrapped[ln] = c.unwrapped[v.text]
        return False

    def let_special(self, name, ln, mutable, e, c, ind, lines):
        agg = getattr(c.fn, "aggregate", None)
        if agg and name == agg[0] and e[0] == "call" and e[1][0] == "path" and e[1][1] == ["Stats", "default"] and not e[2]:
            # `let mut stats = Stats::default();`: from here on `stats` and the absorbed `&mut` parameters live in one record
            _, var, rec, absorbed, extra = agg
            fields = []
            for p, f in absorbed.items():
                fields.append(f"{f} := {c.env[p][0]}")
            for f, (lf, ty) in self.views[rec].items():
                d = "none" if is_opt(ty) else {"Int": "0", "Nat": "0", "Bool": "false"}.get(ty)
                if d is None:
                    raise TranslateError(f"Stats::default(): field {f} of type {ty}")
                fields.append(f"{lf} := {d}")
            for f, v in extra.items():
                fields.append(f"{f} := {v}")
            self.flush(c, ind, lines)
            lines.append(" " * ind + f"let {var} : {lty(('Rec', rec))} := {{ " + ", ".join(fields) + " }")
            c.roots[var] = lty(("Rec", rec))
            c.names.add(var)
            for p, f in absorbed.items():
                c.env[p] = (f"{var}.{f}", c.env[p][1], True)
            c.env[name] = (var, ("View", rec), True)
            return True
        if e[0] == "closure" and len(e[1]) == 1 and agg:
            # a closure `|stats: &Stats| -> bool` that may read the clock: its own definition over the state record
            _, var, rec, absorbed, extra = agg
            fname = f"{c.fn.lean}_{name}"
            sub = c.child()
            sub.pending = []
            sub.monadic = True
            sub.rettype = "Bool"
            sub.env[e[1][0]] = (var, ("View", rec), False)
            sub.roots.pop(var, None)
            sub.clock = (c.clock[0], f"{var}.polls") if getattr(c, "clock", None) else None
            done = f"{{ {var} with polls := {var}.polls + 1 }}"
            k = K(ret=lambda cc, v: f"some ({self.coerce(v, 'Bool', 'closure value').text}, {done})", fall=lambda cc: None)
            bl = self.cblock(e[2], sub, 2, k)
            words = set()
            for line in bl:
                words |= set(re.findall(r"(?<![.\w'])[A-Za-z_][A-Za-z0-9_']*", line))
            caps = [v for v in c.roots if v in words and v != var]
            binders = "".join(f" ({v} : {c.roots[v]})" for v in caps)
            self.aux.append(f"def {fname}{binders} ({var} : {lty(('Rec', rec))}) : Option (Bool × {lty(('Rec', rec))}) :=\n" + "\n".join(bl) + "\n")
            c.env[name] = ("(R." + fname + "".join(" " + v for v in caps) + ")", "StopFn", False)
            return True
        return False

    # ---- assignment
    def combine(self, cur, op, r):
        b = op[:-1]
        if cur.ty in ("Int", "Nat") and b in ("+", "-", "*"):
            r = self.coerce(r, cur.ty, op)
            return Ex(f"({cur.text} {b} {r.text})", cur.ty)
        if cur.ty == "Bool" and b in ("&", "|"):
            r = self.coerce(r, "Bool", op)
            return Ex(f"({cur.text} {b * 2} {r.text})", "Bool")
        if cur.ty == "BB" and b in ("|", "&", "^"):
            r = self.coerce(r, "BB", op)
            return Ex(f"({cur.text} {self.BITOPS[b]} {r.text})", "BB")
        raise TranslateError(f"{op} on {cur.ty}")

    def store_to(self, target, v, c, ind, lines):
        while target[0] == "paren":
            target = target[1]
        if target[0] == "path" and len(target[1]) == 1:
            n = target[1][0]
            if n not in c.env:
                raise TranslateError("assignment to unknown variable " + n)
            ln, ty, mut = c.env[n]
            if not mut:
                raise TranslateError("assignment to immutable variable " + n)
            v = self.coerce(v, ty, "assignment")
            root, _, field = ln.partition(".")
            self.flush(c, ind, lines)
            lines.append(" " * ind + self.store(root, field or None, v.text, c))
            self.invalidate(c, root)
            return
        if target[0] == "field":
            n = self.root_var(target, c)
            if n not in c.env or not c.env[n][2]:
                raise TranslateError("assignment through an immutable binding: " + n)
            if target[2] in ("0", "1") and self.peek(target[1], c).ty == "Score":
                b = self.ex(target[1], c)
                if "." in b.text:
                    raise TranslateError("assignment to a nested field")
                v = self.coerce(v, "Int", "assignment")
                self.flush(c, ind, lines)
                new = f"({v.text}, {b.text}.2)" if target[2] == "0" else f"({b.text}.1, {v.text})"
                lines.append(" " * ind + f"let {b.text} : Score := {new}")
                self.invalidate(c, b.text)
                return
            x = self.ex(target, c)
            if x.text.count(".") != 1:
                raise TranslateError("assignment to a nested field")
            v = self.coerce(v, x.ty, "assignment")
            root, field = x.text.split(".")
            self.flush(c, ind, lines)
            lines.append(" " * ind + self.store(root, field, v.text, c))
            self.invalidate(c, root)
            return
        if target[0] == "index":
            n = self.root_var(target, c)
            if n not in c.env or not c.env[n][2]:
                raise TranslateError("assignment through an immutable binding: " + n)
            cont = self.ex(target[1], c)
            if not (isinstance(cont.ty, tuple) and cont.ty[0] in ("List", "Arr")):
                raise TranslateError("indexed assignment into " + str(cont.ty))
            i = self.ex(target[2], c)
            if i.ty not in ("Nat", "Lit", "Sq", "Pc"):
                raise TranslateError(f"index of type {i.ty}")
            v = self.coerce(v, cont.ty[1], "assignment")
            if not c.monadic:
                raise NeedMonad("indexed assignment")
            root, _, field = cont.text.partition(".")
            fn = "R.Lst.set" if cont.ty[0] == "List" else "R.Arr.set"
            self.flush(c, ind, lines)
            if field:
                tmp = c.fresh(field.replace(".", "_") + "'")
                c.pending.append(("opt", tmp, f"({fn} {cont.text} {i.text} {v.text})", [self.store(root, field, tmp, c)]))
            else:
                c.pending.append(("opt", root, f"({fn} {cont.text} {i.text} {v.text})", []))
            self.flush(c, ind, lines)
            self.invalidate(c, root)
            return
        raise TranslateError("assignment target not supported")

    def s_assign(self, s, c, ind, lines):
        _, op, lhs, rhs = s
        if lhs[0] == "tuple":
            if op != "=" or rhs[0] != "tuple" or len(rhs[1]) != len(lhs[1]):
                raise TranslateError("tuple assignment form not supported")
            vals = [self.ex(x, c) for x in rhs[1]]
            for t, v in zip(lhs[1], vals):
                self.store_to(t, v, c, ind, lines)
            return
        r = None
        if rhs[0] == "ifexpr":
            cp = self.checkpoint(c)
            try:
                r = self.ex(rhs, c)
            except TranslateError:
                self.restore(c, cp)
                _, branches, els = rhs[1]
                if els is None:
                    raise TranslateError("if-expression without else")
                tmp = c.fresh("v")
                vty = self.effect_if(branches, els, c, ind, lines, valued=(tmp, None))
                r = Ex(tmp, vty)
        if r is None:
            r = self.ex(rhs, c)
        if op != "=":
            cur = self.ex(lhs, c)
            r = self.combine(cur, op, r)
        self.store_to(lhs, r, c, ind, lines)

    # ---- expression statements
    def s_expr(self, e, rest, c, ind, lines, k):
        if e[0] == "mcall" and e[2] in VEC_MUTATORS:
            t = self.peek(e[1], c).ty
            if isinstance(t, tuple) and t[0] in ("List", "RList", "Arr"):
                text, ty, root, field = self.place(e[1], c)
                name, args = e[2], e[4]
                if name == "push" and len(args) == 1 and ty[0] in ("List", "RList"):
                    v = self.coerce(self.ex(args[0], c), ty[1], "push")
                    new = f"({text} ++ [{v.text}])" if ty[0] == "List" else f"({v.text} :: {text})"
                elif name == "pop" and not args and ty[0] in ("List", "RList"):
                    new = f"(List.dropLast {text})" if ty[0] == "List" else f"(List.tail {text})"
                elif name == "resize" and len(args) == 2 and ty[0] == "Arr":
                    n = self.coerce(self.ex(args[0], c), "Nat", "resize")
                    v = self.coerce(self.ex(args[1], c), ty[1], "resize")
                    new = f"(R.Arr.resize {text} {n.text} {v.text})"
                elif name == "fill" and len(args) == 1 and ty[0] == "Arr":
                    v = self.coerce(self.ex(args[0], c), ty[1], "fill")
                    new = f"(R.Arr.fill {text} {v.text})"
                else:
                    raise TranslateError(f"{name} on {ty}")
                self.flush(c, ind, lines)
                lines.append(" " * ind + self.store(root, field, new, c))
                self.invalidate(c, root)
                return False
        if e[0] == "mcall" and len(e[4]) == 1 and e[4][0][0] == "closure":
            info = self.method_info(e, c)
            if info is not None and getattr(info, "callback", False):
                return self.callback_loop(e, info, rest, c, ind, lines, k)
        if e[0] == "call" and e[1][0] == "path" and len(e[1][1]) == 1 and e[1][1][0] in c.env and c.env[e[1][1][0]][1] == "Sink":
            ln = c.env[e[1][1][0]][0]
            if len(e[2]) != 1:
                raise TranslateError("printer call: one argument expected")
            v = self.ex(e[2][0], c)
            if v.ty != ("Rec", "Info"):
                raise TranslateError("printer call: an Info expected")
            self.flush(c, ind, lines)
            lines.append(" " * ind + f"let {ln} : List Info := ({ln} ++ [{v.text}])")
            return False
        n = len(c.pending)
        self.ex(e, c)
        if len(c.pending) == n:
            raise TranslateError("expression statement without effect")
        self.flush(c, ind, lines)
        return False

    # ---- loops
    def uses_rec(self, body, c):
        if c.fn is None or c.rec is None:
            return False
        found = []

        def walk(n):
            if isinstance(n, tuple) and n and n[0] == "call" and n[1][0] == "path" and \
                    any(self.sfns.get(cand) is c.fn for cand in ("::".join(n[1][1]), n[1][1][-1])):
                found.append(1)
            if isinstance(n, tuple) and n and n[0] == "mcall" and c.fn.hasself and self.sfns.get(c.fn.key) is c.fn and n[2] == c.fn.rust:
                found.append(1)
            if isinstance(n, (tuple, list)):
                for x in n:
                    walk(x)
        walk(body)
        return bool(found)

    def emit_loop(self, c, ind, lines, k, list_text, elem_ty, head_pat, bound, setup, body):
        """emit `<fn>_loop<k>` for a loop body and the call; `setup(sub)` declares the loop variables and returns the
        first lines of the body."""
        if not c.monadic:
            raise NeedMonad("loop")
        probe = c.child()
        setup(probe)
        mut = self.mutated(body, probe, declared=bound)
        has_ret = "return" in self.exits(body)
        if not mut and not has_ret:
            raise TranslateError("for-loop without effect")
        self.loopno += 1
        name = f"{c.fn.lean}_loop{self.loopno}"
        sub = c.child()
        sub.pending = []
        sub.monadic = True
        for v in mut:
            self.invalidate(sub, v)
        uses_rec = self.uses_rec(body, c)
        if uses_rec:
            sub.rec = "rec"
        tl = c.fresh("tl")
        first = setup(sub)
        rty = lty_paren(lty(c.rettype)) if has_ret else None

        def result(early):
            parts = ([early] if has_ret else []) + mut
            return "some " + self.tup(parts)
        kl = K(ret=(lambda cc, v: result("some " + self.coerce(v, c.rettype, "return value").text)) if has_ret else None,
               fall=lambda cc: f"{LOOPCALL} {tl} " + " ".join(mut),
               brk=lambda cc: result("none"), cont=lambda cc: f"{LOOPCALL} {tl} " + " ".join(mut))
        if has_ret and c.rettype is None:
            raise TranslateError("return in a loop of a function without value")
        bl = [" " * 4 + x for x in first] + self.cblock(body, sub, 4, kl)
        words = set()
        for line in bl:
            words |= set(re.findall(r"(?<![.\w'])[A-Za-z_][A-Za-z0-9_']*", line))
        caps = [v for v in c.roots if v in words and v not in mut]
        call = "R." + name + (" " + (c.rec if " " not in c.rec else f"({c.rec})") if uses_rec else "") + "".join(" " + v for v in caps)
        inner = name + (" rec" if uses_rec else "") + "".join(" " + v for v in caps)
        bl = [x.replace(LOOPCALL, inner) for x in bl]
        res_ty = " × ".join(([f"Option {rty}"] if has_ret else []) + [lty_paren(c.roots[v]) for v in mut])
        binders = (f" (rec : {c.fn.rec_type})" if uses_rec else "") + "".join(f" ({v} : {c.roots[v]})" for v in caps)
        sig = " → ".join([f"List {lty_paren(elem_ty)}"] + [lty_paren(c.roots[v]) for v in mut] + [f"Option ({res_ty})"])
        d = [f"def {name}{binders} : {sig}",
             "  | [], " + ", ".join(mut) + " => " + result("none") if mut else "  | [] => " + result("none"),
             f"  | {head_pat} :: {tl}" + "".join(", " + v for v in mut) + " =>"] + bl
        self.aux.append("\n".join(d) + "\n")
        self.flush(c, ind, lines)
        sp = " " * ind
        lines.append(sp + f"match {call} {list_text} " + " ".join(mut) + " with")
        lines.append(sp + "| none => none")
        for v in mut:
            self.invalidate(c, v)
        if has_ret:
            early = c.fresh("early")
            c.roots[early] = lty(c.rettype)
            lines.append(sp + f"| some {self.tup(['some ' + early] + mut)} => " + k.ret(c, Ex(early, c.rettype)))
            lines.append(sp + f"| some {self.tup(['none'] + mut)} =>")
        else:
            lines.append(sp + f"| some {self.tup(mut)} =>")
        return False

    def s_for(self, s, rest, c, ind, lines, k):
        _, pat, it, body = s
        if it[0] == "range":
            if pat[0] != "pvar":
                raise TranslateError("tuple pattern over a range")
            lo, hi = self.ex(it[1], c), self.ex(it[2], c)
            if "Int" in (lo.ty, hi.ty):
                lo, hi = self.coerce(lo, "Int", "range"), self.coerce(hi, "Int", "range")
                lst, ety = f"(R.rangeI {lo.text} {hi.text})", "Int"
            else:
                lo, hi = self.coerce(lo, "Nat", "range"), self.coerce(hi, "Nat", "range")
                lst = f"(List.range {hi.text})" if lo.const == 0 else f"(List.range' {lo.text} ({hi.text} - {lo.text}))"
                ety = "Nat"
            x, lx = pat[1], lname(pat[1])
            return self.emit_loop(c, ind, lines, k, lst, lty(ety), lx, {x},
                                  lambda sub: sub.declare(x, lx, ety, False) or [], body)
        if pat[0] == "ptuple":
            if not (it[0] == "mcall" and it[2] == "enumerate" and not it[4] and it[1][0] == "mcall" and it[1][2] == "iter"
                    and not it[1][4] and len(pat[1]) == 2):
                raise TranslateError("tuple pattern in for: only `for (i, x) in v.iter().enumerate()`")
            v = self.ex(it[1][1], c)
            if not (isinstance(v.ty, tuple) and v.ty[0] == "List"):
                raise TranslateError("enumerate over " + str(v.ty))
            (i, x), (li, lx) = pat[1], [lname(n) for n in pat[1]]

            def setup(sub):
                sub.declare(i, li, "Nat", False)
                sub.declare(x, lx, v.ty[1], False)
                return []
            return self.emit_loop(c, ind, lines, k, f"(List.zipIdx {v.text})", f"{lty_atom(v.ty[1])} × Nat", f"({lx}, {li})",
                                  {i, x}, setup, body)
        b = self.ex(it, c)
        x, lx = pat[1], lname(pat[1])
        if b.ty == "BB":
            lst, ety = f"(Rawr.toList {b.text})", "Sq"
        elif isinstance(b.ty, tuple) and b.ty[0] == "List":
            lst, ety = b.text, b.ty[1]
        else:
            raise TranslateError("for-loop over " + str(b.ty))
        return self.emit_loop(c, ind, lines, k, lst, lty(ety), lx, {x}, lambda sub: sub.declare(x, lx, ety, False) or [], body)

    def callback_loop(self, e, info, rest, c, ind, lines, k):
        recv = self.ex(e[1], c)
        clo = e[4][0]
        ps, body = clo[1], clo[2]
        if len(ps) != 4:
            raise TranslateError("closure of an unexpected arity")
        g = c.fresh("g")

        def setup(sub):
            first = []
            for pn, (proj, ty) in zip(ps, ((".piece", "Pc"), (".mv.src", "Sq"), (".mv.dst", "Sq"), (".mv.promo", "Pc"))):
                lp = lname(pn)
                sub.declare(pn, lp, ty, False)
                first.append(f"let {lp} : {lty(ty)} := {g}{proj}")
            return first
        return self.emit_loop(c, ind, lines, k, f"(R.{info.lean} {recv.text})", "GMv", g, set(ps), setup, body)


# --------------------------------------------------------------------------------------------- functions
class FParser(SParser):
    def function(self):
        """like Parser.function, but the parameters are (name, type, is `&mut`)."""
        self.eat("fn")
        name = self.ident()
        if self.peek() == "<":
            self.err("generic functions are not supported")
        self.eat("(")
        params, selfkind = [], None
        while self.peek() != ")":
            if self.peek() == "&" and self.peek(1) == "self":
                self.eat(), self.eat()
                selfkind = "ref"
            elif self.peek() == "&" and self.peek(1) == "mut" and self.peek(2) == "self":
                self.eat(), self.eat(), self.eat()
                selfkind = "mut"
            elif self.peek() == "self":
                self.eat()
                selfkind = "ref"
            else:
                mutbind = self.peek() == "mut"
                if mutbind:
                    self.eat()
                p = self.ident()
                self.eat(":")
                mutref = self.peek() == "&" and self.peek(1) == "mut"
                params.append((p, self.type_(), mutref, mutbind))
            if self.peek() == ",":
                self.eat(",")
        self.eat(")")
        ret = None
        if self.peek() == "->":
            self.eat("->")
            ret = self.type_()
        return {"name": name, "self": selfkind, "params": params, "ret": ret, "body": self.block()}


class SC3(SC2):
    def compile(self, cfg):
        """cfg: file, rust, key, lean [, self=(lean name, type), fuel, u64, statics={param: type}, sinks=[param],
        groups={lean var: (record, {param: field | 'view'})}, types={param: type}, extra=[names], clock=polls text,
        monadic=True]"""
        what = os.path.basename(cfg["file"])
        src = imp.read(cfg["file"])
        cut = src.find("#[cfg(test)]")
        if cut >= 0:
            src = src[:cut]
        for _ in range(cfg.get("nth", 0)):          # the n-th `fn name` of the file (several impl blocks)
            m = re.search(r"\bfn\s+" + re.escape(cfg["rust"]) + r"\b", src)
            if not m:
                raise TranslateError(f"{what}: fn {cfg['rust']} #{cfg.get('nth')} not found")
            src = src[m.end():]
        self.cur_self = cfg.get("selfty")
        fn = FParser(imp.find_fn(src, cfg["rust"], what), f"{what}::{cfg['rust']}").function()
        forced = cfg.get("fuel") or cfg.get("monadic")
        last = None
        for monadic in ((True,) if forced else (False, True)):
            self.aux, self.loopno = [], 0
            try:
                text = self.scompile_fn(fn, cfg, monadic, what)
                break
            except NeedMonad as ex:
                last = ex
                if monadic:
                    raise TranslateError(f"{what}::{cfg['rust']}: unexpected panicking expression: {ex}")
            except TranslateError as ex:
                raise TranslateError(f"{what}::{cfg['rust']}: {ex}")
        self.sout.extend(self.aux)
        self.sout.append(text)

    def scompile_fn(self, fn, cfg, monadic, what):
        u64 = cfg.get("u64", "Nat")
        rty = self.conv(fn["ret"], None, u64)
        c = SCtx(self, monadic, rty if rty != "Unit" else None)
        c.u64 = u64
        statics, binders, params, outs, groups = [], [], [], [], {}
        first = []
        if fn["self"]:
            sname, sty = cfg["self"]
            spec = ("state", sty) if fn["self"] == "mut" else ("val", sty)
            c.declare("self", sname, sty, fn["self"] == "mut")
            c.names.add(sname)
            params.append(("self", spec))
            binders.append((sname, lty(sty)))
            if fn["self"] == "mut":
                outs.append("self")
        for p, t, mutref, mutbind in fn["params"]:
            lp = lname(p)
            c.names.add(lp)
            if p in cfg.get("statics", {}):
                ty = cfg["statics"][p]
                c.declare(p, lp, ty, False)
                statics.append((lp, lty(ty)))
                params.append((p, ("static", ty)))
                continue
            if p in cfg.get("sinks", []):
                c.declare(p, "infos", "Sink", True)
                c.roots["infos"] = "List Info"
                first.append("let infos : List Info := []")
                params.append((p, ("sink",)))
                continue
            grp = [(g, rec, m) for g, (rec, m) in cfg.get("groups", {}).items() if p in m]
            if grp:
                g, rec, m = grp[0]
                if g not in groups:
                    groups[g] = (rec, {})
                    binders.append((g, lty(("Rec", rec))))
                    c.roots[g] = lty(("Rec", rec))
                    c.names.add(g)
                    outs.append(g)
                if m[p] == "view":
                    groups[g][1][p] = dict(self.views[rec])
                    c.env[p] = (g, ("View", rec), True)
                else:
                    field, ty = m[p]
                    groups[g][1][p] = field
                    c.env[p] = (f"{g}.{field}", ty, True)
                params.append((p, ("group", g)))
                continue
            ty = cfg.get("types", {}).get(p) or self.conv(t, None, u64)
            if mutref:
                c.declare(p, lp, ty, True)
                params.append((p, ("state", ty)))
                outs.append(p)
            else:
                c.declare(p, lp, ty, mutbind)
                params.append((p, ("val", ty)))
            binders.append((lp, lty(ty)))
        for x in cfg.get("extra", []):
            c.declare(x, x, "Nat", False)
            params.append((x, ("extra",)))
            binders.append((x, "Nat"))
        if cfg.get("clock"):
            c.declare("clock", "clock", "Clock", False)
            statics.append(("clock", lty("Clock")))
            c.clock = ("clock", cfg["clock"])
        sinks = [p for p, s in params if s == ("sink",)]
        info = SFn(cfg["lean"], [(p, s) for p, s in params if s != ("sink",)], rty, outs, monadic,
                   fuel=None, groups=groups, hasself=bool(fn["self"]))
        info.key, info.rust, info.sinks = cfg["key"], cfg["rust"], sinks
        info.callfuel = cfg.get("callfuel")
        info.aggregate = cfg.get("aggregate")
        c.fn = info

        def out_texts(cc):
            ts = []
            for o in outs:
                ts.append(o if o in groups else cc.env[o][0])
            return ts + ["infos" for _ in sinks]

        def ret(cc, v):
            parts = []
            if rty != "Unit":
                if v is None:
                    raise TranslateError("`return;` in a function with a value")
                parts.append(self.coerce(v, rty, "return value").text)
            elif v is not None and v.ty != "Unit":
                raise TranslateError("value returned from a function without result")
            parts += out_texts(cc)
            if not parts:
                raise TranslateError("function without a result")
            t = self.tup(parts)
            return "some " + t if monadic else t
        k = K(ret=ret, fall=(lambda cc: ret(cc, None)) if rty == "Unit" else (lambda cc: None))
        res_parts = ([lty_paren(lty(rty))] if rty != "Unit" else []) + \
            [lty_paren(lty(("Rec", groups[o][0])) if o in groups else lty(dict((p, s) for p, s in params)[o][1])) for o in outs] + \
            ["(List Info)" for _ in sinks]
        res = " × ".join(res_parts)
        if monadic:
            res = f"Option ({res})" if " " in res else f"Option {res}"
        stat = "".join(f" ({n} : {t})" for n, t in statics)
        info.rec_type = " → ".join([lty_paren(t) for _, t in binders] + [res])
        self.sfns[cfg["key"]] = info
        if cfg.get("fuel"):
            info.fuel = cfg.get("callfuel", "fuel")
            c.rec = cfg["lean"] + "".join(" " + n for n, _ in statics) + " fuel"
            c.roots["fuel"] = "Nat"
            body = self.cblock(fn["body"], c, 4, k)
            head = f"def {cfg['lean']}{stat} : Nat → {info.rec_type}"
            zero = "  | 0" + ", _" * len(binders) + " => none"
            succ = "  | fuel + 1" + "".join(", " + n for n, _ in binders) + " =>"
            return "\n".join([head, zero, succ] + [" " * 4 + x for x in first] + body) + "\n"
        body = self.cblock(fn["body"], c, 2, k)
        head = f"def {cfg['lean']}{stat}" + "".join(f" ({n} : {t})" for n, t in binders) + f" : {res} :="
        return "\n".join([head] + [" " * 2 + x for x in first] + body) + "\n"


# --------------------------------------------------------------------------------------------- driver
PRELUDE = '''/-! primitives of the Rust standard library used by the translated functions (`none` = panic) -/
/-- `v[i] = x` on a Vec / array. -/
def Lst.set {α : Type} (l : List α) (i : Nat) (v : α) : Option (List α) := if i < l.length then some (l.set i v) else none
def Arr.set {α : Type} (a : Array α) (i : Nat) (v : α) : Option (Array α) :=
  if i < a.size then some (a.setIfInBounds i v) else none
/-- `Vec::resize(n, v)`. -/
def Arr.resize {α : Type} (a : Array α) (n : Nat) (v : α) : Array α :=
  if n ≤ a.size then a.extract 0 n else a ++ Array.replicate (n - a.size) v
/-- `slice::fill(v)`. -/
def Arr.fill {α : Type} (a : Array α) (v : α) : Array α := Array.replicate a.size v
/-- `a / b`, `a % b` on unsigned integers with a divisor that is not a literal. -/
def checkedDiv (a b : Nat) : Option Nat := if b = 0 then none else some (a / b)
def checkedMod (a b : Nat) : Option Nat := if b = 0 then none else some (a % b)
/-- `lo..hi` over `i32`. -/
def rangeI (lo hi : Int) : List Int := (List.range (hi - lo).toNat).map (fun (k : Nat) => lo + (k : Int))
'''


def generate():
    class Recorder(imp.Translator):
        last = None

        def __init__(self):
            super().__init__()
            Recorder.last = self
    orig = imp.Translator
    imp.Translator = Recorder
    try:
        imp.generate()                              # fills the table of the chess-core functions (`R.eval`, ...)
    finally:
        imp.Translator = orig
    T = SC3()
    T.fns = Recorder.last.fns
    T.sout = ["-- GENERATED by tools/rust2lean_search.py from /repo on every run. Do not edit.",
              "import Rawr.Generated.RustImp", "import Rawr.Model.Search", "import Rawr.Model.Uci",
              "set_option linter.unusedVariables false", "namespace Rawr.R", "open Rawr", "", PRELUDE]
    # ---- perft.rs
    T.compile(dict(file="src/chess/perft.rs", rust="perft", key="Position::perft", lean="perft", self=("s", "Pos"),
                   fuel=True, u64="Nat"))
    # ---- score.rs
    sc = "src/search/score.rs"
    for rust, lean, nth, selfspec in (("mg", "score_mg", 0, ("s", "Score")), ("eg", "score_eg", 0, ("s", "Score")),
                                      ("default", "score_default", 0, None), ("add", "score_add", 0, ("s", "Score")),
                                      ("sub", "score_sub", 0, ("s", "Score")), ("mul", "score_mul", 0, ("s", "Score")),
                                      ("mul", "score_mul_i32", 1, ("n", "Int")), ("add_assign", "score_add_assign", 0, ("s", "Score")),
                                      ("sub_assign", "score_sub_assign", 0, ("s", "Score"))):
        cfg = dict(file=sc, rust=rust, key="Score::" + lean, lean=lean, nth=nth, selfty="Score")
        if selfspec:
            cfg["self"] = selfspec
        T.compile(cfg)
    T.cur_self = None
    # ---- hashtable.rs (generic in the entry type)
    T.sout.append("section Hashtable\nvariable {α : Type} [Inhabited α] [DecidableEq α]\n")
    tself = ("t", ("Table", "T"))
    for f, extra in (("get_idx", []), ("poll", []), ("add", []), ("hashfull", []), ("len", []), ("resize", ["size_of_T"]),
                     ("clear", []), ("new", ["size_of_T"])):
        T.compile(dict(file="src/search/hashtable.rs", rust=f, key="Hashtable::" + f, lean="tt_" + f, self=tself, extra=extra,
                       u64="Nat"))
    T.sfns["Hashtable::new_free"] = T.sfns["Hashtable::new"]
    T.sout.append("end Hashtable\n")
    # ---- declarations used by the search: constants, Stats, TTEntry, Flag
    for f in ("src/search/qsearch.rs", "src/search/negamax.rs", "src/search/root.rs"):
        for n, v in parse_consts(imp.read(f)).items():
            if n in T.consts and T.consts[n] != v:
                raise TranslateError(f"const {n} has different values in different files")
            T.consts[n] = v
    stats = {f: T.conv(t, None, "Nat") for f, t in parse_struct(imp.read("src/search/stats.rs"), "Stats", "stats.rs")}
    model_stats = {"depth": "depth", "seldepth": "seldepth", "nodes": "nodes", "best_move": "best"}
    if set(stats) != set(model_stats):
        raise TranslateError(f"stats.rs: fields {sorted(stats)} differ from the modelled ones")
    T.views["QState"] = {f: (model_stats[f], stats[f]) for f in ("seldepth", "nodes")}
    T.views["SState"] = {f: (model_stats[f], stats[f]) for f in stats}
    T.stats_default = {"Int": "0", "Nat": "0"}
    tte = parse_struct(imp.read("src/search/ttentry.rs"), "TTEntry", "ttentry.rs")
    T.recs["TTEntry"] = ("Rawr.TTEntry", {f: (f, T.conv(t, None, "BB")) for f, t in tte})
    disc, flags = 0, {}
    for v, payload, d in parse_enum(imp.read("src/search/ttentry.rs"), "Flag", "ttentry.rs"):
        if payload is not None:
            raise TranslateError("Flag: variant with data")
        disc = d if d is not None else disc
        flags[v] = disc
        disc += 1
    T.enums["Flag"] = flags
    # ---- qsearch.rs
    T.compile(dict(file="src/search/qsearch.rs", rust="sort", key="sort", lean="qs_sort", monadic=True))
    T.compile(dict(file="src/search/qsearch.rs", rust="qsearch", key="qsearch", lean="qsearch", fuel=True, callfuel="Rawr.qFuel",
                   groups={"stats": ("QState", {"stats": "view"})}))
    # ---- negamax.rs
    T.compile(dict(file="src/search/negamax.rs", rust="is_endgame", key="is_endgame", lean="is_endgame"))
    T.compile(dict(file="src/search/negamax.rs", rust="sort", key="sort", lean="nm_sort", monadic=True))
    sstate = ("SState", {"history": ("hist", ("RList", "BB")), "tt": ("tt", ("Table", ("Rec", "TTEntry"))), "stats": "view"})
    T.compile(dict(file="src/search/negamax.rs", rust="negamax", key="negamax", lean="negamax", fuel=True, callfuel="fuel",
                   statics={"should_stop": "StopFn"}, groups={"st": sstate}))
    # ---- settings.rs, info.rs, root.rs
    T.settings = []
    decl = []
    for v, payload, d in parse_enum(imp.read("src/search/settings.rs"), "Type", "settings.rs"):
        tys = [T.conv(t, None, "Nat") for t in payload] if payload is not None else None
        T.settings.append((v, tys))
        decl.append(f"  | {v}" + "".join(f" (a{i} : {lty(t)})" for i, t in enumerate(tys or [])))
    T.sout.append("/-- settings::Type -/\ninductive Settings where\n" + "\n".join(decl) + "\n")
    info = [(f, T.conv(t, None, "Nat")) for f, t in parse_struct(imp.read("src/search/info.rs"), "Info", "info.rs")]
    T.recs["Info"] = ("Info", {f: (f, t) for f, t in info})
    T.sout.append("/-- info::Info -/\nstructure Info where\n" + "\n".join(f"  {f} : {lty(t)}" for f, t in info) + "\n")
    T.compile(dict(file="src/search/root.rs", rust="root", key="root", lean="root", monadic=True, sinks=["info_printer"],
                   extra=["fuel"], clock="st.polls", types={"history": ("RList", "BB")},
                   aggregate=("stats", "st", "SState", {"history": "hist", "tt": "tt"}, {"polls": "0"})))
    T.sout.append("end Rawr.R\n")
    return "\n".join(T.sout)


def main():
    try:
        txt = generate()
    except TranslateError as ex:
        print("TRANSLATE-ERROR " + str(ex))
        sys.exit(3)
    except NeedMonad as ex:
        print("TRANSLATE-ERROR unexpected panicking expression: " + str(ex))
        sys.exit(3)
    try:
        if open(OUT).read() == txt:
            print("rust2lean_search: unchanged")
            return
    except FileNotFoundError:
        pass
    os.makedirs(os.path.dirname(OUT), exist_ok=True)
    open(OUT, "w").write(txt)
    print("rust2lean_search: RustSearch.lean rewritten")


if __name__ == "__main__":
    main()
