"""Process-level / UCI properties: C05 C15 C16 and the style tool C20."""
import json
import os
import random
import re
import subprocess
import sys

import vlib
from vlib import Pos, canon_transcript, fmt_mv, log, parse_moves, run_driver, run_driver_par, run_engine, run_hx, run_hx_par
from props_core import compare, gen_positions, sizes, uci_oracle
from props_search import games, in_domain

CASTLE_STRINGS = ["e1g1", "e1c1", "e8g8", "e8c8"]


# ------------------------------------------------------------------ token oracle (specification side)
def spec_tokens(P, legal, tok):
    """the legal moves (engine triples) a token may denote under the property's rule (more than one only when UCI_Chess960 is off
    on a position with non-standard castling geometry, where the standard notation is ambiguous)"""
    out = [m for m in legal if uci_oracle(P, m) == tok]
    if out:
        return out
    m = spec_token_castle(P, legal, tok)
    return [m] if m is not None else []


def spec_token_castle(P, legal, tok):
    if tok in CASTLE_STRINGS:
        white_string = tok[1] == "1"
        if white_string == (not P.black):
            ksq = (P.piece(5) & P.c0).bit_length() - 1
            if ksq == 4:
                for m in legal:
                    if m[0] == 4 and (P.c0 >> m[1]) & 1 and m[2] == 6:
                        kingside = (m[1] % 8) > 4
                        if kingside == (tok[2] == "g"):
                            return m
    return None


def random_tokens(P, legal, rnd, n):
    toks = []
    for _ in range(n):
        k = rnd.random()
        if legal and k < 0.45:
            m = rnd.choice(legal)
            toks.append(uci_oracle(P, m))
        elif legal and k < 0.6:
            m = rnd.choice(legal)
            Q = P.with_(frc=0 if P.frc else 1)
            toks.append(uci_oracle(Q, m))          # the other notation
        elif k < 0.8:
            toks.append(rnd.choice(CASTLE_STRINGS))
        elif k < 0.9:
            a, b = rnd.randrange(64), rnd.randrange(64)
            toks.append(vlib.sq_name(a) + vlib.sq_name(b) + rnd.choice(["", "", "q", "n", "k"]))
        else:
            toks.append(rnd.choice(["0000", "e2e", "xyz", "e2e4q", "E2E4", "a1a1", "e1h1", "e8a8", "O-O", "e7e8", "--"]))
    return toks


def run_C05(res):
    g, pl, sp, co = sizes(res, (16, 60, 600, 200), (200, 120, 20000, 3000))
    rnd = random.Random(res.seed)
    ps0 = gen_positions(res, g, pl, sp, co)
    ok = in_domain(ps0)
    ps0 = [p for p, o in zip(ps0, ok) if o]
    rnd.shuffle(ps0)
    ps0 = ps0[: (1500 if res.tier == "quick" else 30000)]
    res.coverage["rule"] = ("in-process: uci::moves on one token per (position, UCI_Chess960 flag): legal moves in both notations, the four castling strings in every "
                            "situation, near-miss and garbage tokens; oracle = Spec legal moves + notation rule; process level: `position fen|startpos ... moves ...` "
                            "scripts against the real binary (both builds) compared with the model transcript (print, history)")
    ps = []
    for p in ps0:
        P = Pos(p)
        ps.append(str(P.with_(frc=rnd.choice([0, 1]))))
    # castling set-ups with the mover's king on its e-file home square and a right, Chess960 rook files, either colour, in BOTH notations
    # (the conventional strings e1g1 … are a fallback that only matters when UCI_Chess960 is on and the rook is not in the corner)
    extra = [l for l in run_driver([f"gpattern {res.seed + 41} 0 {1500 * res.escalate if res.tier == 'quick' else 20000} 1"]) if l and l != "bad-op"]
    extra = [p for p in extra if (Pos(p).piece(5) & Pos(p).c0).bit_length() - 1 == 4 and (Pos(p).t[12] == "1" or Pos(p).t[13] == "1")]
    okx = in_domain(extra)
    extra = [p for p, o in zip(extra, okx) if o][: (250 if res.tier == "quick" else 4000)]
    res.count("e_file_king_castling_setups", len(extra))
    for p in extra:
        ps.append(str(Pos(p).with_(frc=1)))
        ps.append(str(Pos(p).with_(frc=0)))
    ps = list(dict.fromkeys(ps))
    legal = [parse_moves(s) for s in run_driver_par(["smoves " + p for p in ps])]
    reqs, meta = [], []
    for p, ml in zip(ps, legal):
        P = Pos(p)
        toks = random_tokens(P, ml, rnd, 4)
        ksq = (P.piece(5) & P.c0).bit_length() - 1
        if ksq == 4 and (P.t[12] == "1" or P.t[13] == "1"):
            toks += CASTLE_STRINGS      # every conventional castling string wherever the mover's king is on its e-file home square
        for t in toks:
            reqs.append(f"apply {p} {t}")
            meta.append((p, ml, t))
    impl = run_hx_par(reqs)
    model = run_driver_par(reqs)
    compare(res, "uci::moves (one token)", reqs, impl, model)
    implc = run_hx_par(reqs, "checked")
    want_moves = []
    for (p, ml, t) in meta:
        want_moves.append(spec_tokens(Pos(p), ml, t))
    flat = [(i, m) for i, ((p, ml, t), ms) in enumerate(zip(meta, want_moves)) for m in ms]
    mk = run_hx_par([f"make {meta[i][0]} {m[0]} {m[1]} {m[2]} 1" for i, m in flat])
    exps = {}
    for (i, m), r in zip(flat, mk):
        exps.setdefault(i, []).append(r)
    for i, ((p, ml, t), ms) in enumerate(zip(meta, want_moves)):
        r = impl[i]
        m = ms[0] if ms else None
        castle_tok = t in CASTLE_STRINGS
        res.case(reqs[i], m is not None or castle_tok, {"position": p, "token": t, "denotes": None if m is None else fmt_mv(m), "result": r[-30:]})
        res.count("token_" + ("accepted" if m is not None else "rejected") + ("_castling_string" if castle_tok else ""))
        if len(ms) > 1:
            res.count("token_ambiguous_in_standard_notation")
        if r in ("PANIC", "DIED") or implc[i] != r:
            res.fail("uci::moves panicked / corrupted the position on a token", position=p, token=t, observed=(r[-40:], implc[i][-40:]))
            continue
        f = r.split()
        if m is None:
            if f[:22] != p.split() or f[22] != "u=1" or f[23] != "h=0":
                res.fail("a token that denotes no legal move changed the position / history or was not reported as unknown", position=p, token=t, observed=r)
        else:
            if all(f[:22] != e.split()[:22] for e in exps[i]) or f[22] != "u=0" or f[23] != "h=1":
                res.fail("a token that denotes a legal move was not applied as that move", position=p, token=t, move=fmt_mv(m), observed=r)
    # process level
    vlib.cargo_build_bins()
    n_scripts = 40 if res.tier == "quick" else 600
    gs = games(res, 6 if res.tier == "quick" else 60, 40, 40, 40)
    starts = [g[0] for g in gs]
    fens = run_hx(["fenout " + s for s in starts])
    scripts = []
    for k in range(n_scripts):
        i = rnd.randrange(len(starts))
        frc = rnd.choice([False, True])
        cur = str(Pos(starts[i]).with_(frc=1 if frc else 0))
        toks = []
        for _ in range(rnd.randrange(0, 14)):
            ml = parse_moves(run_hx(["moves " + cur])[0])
            t = random_tokens(Pos(cur), ml, rnd, 1)[0]
            toks.append(t)
            r = run_hx([f"apply {cur} {t}"])[0]
            if r in ("PANIC", "DIED"):
                break
            cur = " ".join(r.split()[:22])
        head = ["setoption name UCI_Chess960 value " + ("true" if frc else "false"), "isready"]
        pos_line = ("position startpos" if fens[i].startswith("rnbqkbnr/pppppppp/8/8/8/8/PPPPPPPP/RNBQKBNR w KQkq - 0 1") and rnd.random() < 0.7
                    else "position fen " + fens[i]) + (" moves " + " ".join(toks) if toks else "")
        scripts.append(head + [pos_line, "print", "history", "go split 1", "quit"])
    # hand-built scripts first: castling in both notations from the standard start and from a Chess960 FEN, with the option on and off
    g1 = "g1f3 g8f6 e2e3 e7e6 f1e2 f8e7"
    for frc in ("true", "false"):
        for start in ("position startpos", "position fen rnbqkbnr/pppppppp/8/8/8/8/PPPPPPPP/RNBQKBNR w KQkq - 0 1"):
            for castles in ("e1h1 e8h8", "e1g1 e8g8", "e1h1 e8g8", "e1c1 e8c8 e1a1"):
                scripts.insert(0, [f"setoption name UCI_Chess960 value {frc}", "isready", f"{start} moves {g1} {castles}", "print", "history", "go split 1",
                                   "moves a2a3", "history", "quit"])
        scripts.insert(0, [f"setoption name UCI_Chess960 value {frc}", "isready", "ucinewgame", f"position startpos moves {g1} e1h1", "history",
                           "position fen bnrqkrnb/pppppppp/8/8/8/8/PPPPPPPP/BNRQKRNB w KQkq - 0 1 moves g1f3 g8f6 e1f1 e8f8 h1g2", "print", "history", "quit"])
    # a conventional castling string as the SECOND (third, …) token of one `moves` list, the two sides having different castling-rook
    # files: whatever the parser caches across tokens must follow the side to move
    cands = [l for l in run_driver([f"gpattern {res.seed + 43} 0 {2500 * res.escalate if res.tier == 'quick' else 30000} 1"]) if l and l != "bad-op"]
    cands = [p for p in cands if (Pos(p).piece(5) & Pos(p).c1).bit_length() - 1 == 60 and (Pos(p).t[14] == "1" or Pos(p).t[15] == "1")
             and (Pos(p).t[16], Pos(p).t[17]) != (Pos(p).t[18], Pos(p).t[19])]
    okc = in_domain(cands)
    cands = [p for p, o in zip(cands, okc) if o][: (120 if res.tier == "quick" else 1200)]
    cf = run_hx(["fenout " + p for p in cands])
    cm = run_hx(["moves " + p for p in cands])
    for p, f, ml in zip(cands, cf, cm):
        P = Pos(p)
        quiet = [m for m in parse_moves(ml) if not ((P.c0 | P.c1) >> m[1]) & 1 and m[2] == 6 and not (P.piece(5) >> m[0]) & 1 and not (P.piece(3) >> m[0]) & 1]
        if not quiet or f in ("PANIC", "DIED"):
            continue
        p1 = str(P.with_(frc=1))
        for m in rnd.sample(quiet, min(3, len(quiet))):
            tok = uci_oracle(Pos(p1), m)
            after = run_hx([f"apply {p1} {tok}"])[0]
            if after in ("PANIC", "DIED") or not after.endswith("u=0 h=1"):
                continue
            p2 = " ".join(after.split()[:22])
            for cs, differ in zip((("e1g1", "e1c1") if P.black else ("e8g8", "e8c8")), (P.t[16] != P.t[18], P.t[17] != P.t[19])):
                r2 = run_hx([f"apply {p2} {cs}"])[0]
                if differ and r2.endswith("u=0 h=1"):       # the conventional string denotes a legal castling there
                    scripts.insert(0, ["setoption name UCI_Chess960 value true", "isready", f"position fen {f} moves {tok} {cs}", "print", "history", "quit"])
    res.count("second_token_castling_scripts", sum(1 for sc in scripts if len(sc) == 6 and sc[2].startswith("position fen") and sc[2].split()[-1] in CASTLE_STRINGS))
    # Unicode white space glued to a token: `split_ascii_whitespace` does not split on U+000B, U+0085, U+00A0, U+2003, U+3000, so a move
    # token carrying one denotes no legal move and must be reported as unknown; a command word carrying one is an unknown command
    for ws in ("\u00a0", "\x0b", "\u0085", "\u3000", "\u2003"):
        scripts.insert(0, ["isready", "position startpos moves e2e4 e7e5" + ws, "print", "history", "quit"])
        scripts.insert(0, ["isready", "position startpos moves e2e4", "moves e7e5" + ws, "history", "moves " + ws + "e7e5 g1f3", "history", "quit"])
        scripts.insert(0, ["isready", ws + "position startpos moves e2e4", "history", "position startpos moves d2d4" + ws + " d7d5", "history", "quit"])
    process_compare(res, scripts, "position/moves script", as_property=True)


def process_compare(res, scripts, what, builds=("release", "checked"), model=True, as_property=False):
    mreq = []
    for sc in scripts:
        mreq.append("script w - " + "|".join(sc))
    mw = run_driver_par(mreq) if model else [None] * len(scripts)
    for sc, mo in zip(scripts, mw):
        for b in builds:
            rc, out, err, to, secs = run_engine(sc, b, timeout=30)
            res.evaluations += 1
            if to:
                res.fail("engine hung (no exit within 30 s)", script=sc, build=b)
                continue
            if rc != 0 or "panicked" in err:
                res.fail("engine crashed", script=sc, build=b, exit_status=rc, stderr=err[-300:])
                continue
            if model:
                got = canon_transcript(out)
                exp = mo.split("|") if mo not in ("PANIC", "DIED") else ["<model: PANIC>"]
                while exp and exp[-1] == "":
                    exp.pop()
                if got != exp:
                    k = next((i for i, (a, c) in enumerate(zip(got, exp)) if a != c), min(len(got), len(exp)))
                    if as_property:
                        # the model's position/moves handling is proved to be the fold of specification-legal tokens (Props/C05, C09, C01, C02)
                        res.fail("position/moves transcript (print, history) differs from the game prescribed by the rules", script=sc, build=b,
                                 observed="line %d: %s" % (k, got[k] if k < len(got) else "<end>"), expected="line %d: %s" % (k, exp[k] if k < len(exp) else "<end>"))
                    else:
                        res.disagree(what + f" ({b} build)", " | ".join(sc)[:600], "line %d: %s" % (k, got[k] if k < len(got) else "<end>"),
                                     "line %d: %s" % (k, exp[k] if k < len(exp) else "<end>"))


def match_F3(f):
    return f.get("token") in CASTLE_STRINGS and f.get("what", "").startswith(("a token that denotes no legal move", "uci::moves panicked"))


# ------------------------------------------------------------------ C15
def random_script(rnd, fens, movegen, timed_ok=True):
    """a command script (after the initial `uci`) and the number of bestmove lines it must produce"""
    lines = []
    expect_best = 0
    ready = 0
    deterministic = True
    # first loop
    for _ in range(rnd.randrange(0, 3)):
        lines.append(rnd.choice(["setoption name Hash value %d" % rnd.choice([1, 2, 4, 8]), "setoption name UCI_Chess960 value true",
                                 "setoption name UCI_Chess960 value false", "setoption name Foo value 1", "setoption"]))
    first = rnd.choice(["isready", "isready", "isready", "ucinewgame", "print", "", "go depth 1"])
    n = rnd.randrange(2, 14)
    body = [first]
    for _ in range(n):
        k = rnd.random()
        if k < 0.08:
            body.append("isready")
        elif k < 0.14:
            body.append("ucinewgame")
        elif k < 0.2:
            body.append(rnd.choice(["setoption name Hash value %d" % rnd.choice([1, 2, 3, 16, 0, 0, 64]), "setoption name UCI_Chess960 value true",
                                    "setoption name UCI_Chess960 value false", "setoption name Hash value abc", "setoption name Hash"]))
        elif k < 0.42:
            f = rnd.choice(fens)
            toks = movegen(f, rnd)
            body.append(("position startpos" if f is None else "position fen " + f) + (" moves " + " ".join(toks) if toks else ""))
        elif k < 0.47:
            body.append("moves " + " ".join(rnd.choice(["e2e4", "e7e5", "g1f3", "e1g1", "e8g8", "zzzz", "a7a8q"]) for _ in range(rnd.randrange(1, 4))))
        elif k < 0.72:
            g = rnd.random()
            if g < 0.3:
                body.append("go depth %d" % rnd.choice([0, 1, 1, 2, 2, 3]))
            elif g < 0.45:
                body.append("go nodes %d" % rnd.choice([0, 1, 10, 100, 1000]))
            elif g < 0.6 and timed_ok:
                body.append("go movetime %d" % rnd.choice([0, 1, 5, 20]))
                deterministic = False
            elif g < 0.8 and timed_ok:
                s = "go wtime %d btime %d" % (rnd.choice([0, 1, 30, 100, 500]), rnd.choice([0, 1, 30, 100, 500]))
                if rnd.random() < 0.4:
                    s += " winc %d binc %d" % (rnd.choice([0, 10]), rnd.choice([0, 10]))
                if rnd.random() < 0.5:
                    s += " movestogo %d" % rnd.choice([0, 1, 5, 40])
                body.append(s)
                deterministic = False
            elif g < 0.9:
                body.append("go perft %d" % rnd.choice([0, 1, 2, 3]))
            else:
                body.append("go split %d" % rnd.choice([0, 1, 2]))
        elif k < 0.8:
            body.append("print")
        elif k < 0.86:
            body.append("history")
        elif k < 0.92:
            body.append("eval")
        else:
            body.append(rnd.choice(["", "foo", "stop", "ponderhit", "  ", "go", "go foo 1", "display"]))
    if rnd.random() < 0.7:
        body.append("quit")
    lines += body
    # count obligations: a quit in the first loop ends everything (not generated); count until the first quit
    seen_first = False
    for l in lines:
        t = l.split()
        if not t:
            if not seen_first:
                seen_first = True
            continue
        if not seen_first:
            if t[0] == "setoption":
                continue
            seen_first = True
        if t[0] == "isready":
            ready += 1
        if t[0] == "quit":
            break
        if t[0] == "go" and len(t) >= 3 and t[1] in ("depth", "nodes", "movetime", "wtime"):
            expect_best += 1
    return lines, expect_best, ready, deterministic


# hand-built edge scenarios and minimised past failures; always run first (both builds, compared with the model)
CORPUS_SCRIPTS = [
    ["isready", "setoption name Hash value 0", "go depth 2", "isready", "quit"],
    ["setoption name Hash value 0", "isready", "go depth 2", "isready", "quit"],
    ["isready", "setoption name Hash value 1", "go depth 3", "setoption name Hash value 0", "ucinewgame", "go depth 2", "isready"],
    ["isready", "go wtime 0 btime 0 movestogo 0", "go wtime 1000 btime 1000 movestogo 0", "isready", "quit"],
    ["isready", "go split 0", "go perft 0", "go split 1", "isready", "quit"],
    ["isready", "go depth 0", "go nodes 0", "go movetime 0", "isready", "quit"],
    ["isready", "position startpos moves e1g1", "print", "position startpos moves e8g8 e1c1 e8c8", "history", "isready", "quit"],
    ["setoption name UCI_Chess960 value true", "isready", "position fen 1r2k2r/8/8/8/8/8/8/KR6 b Bhb - 0 1 moves e8g8", "print", "history", "quit"],
    ["isready", "position fen 4k3/8/8/8/8/8/8/R3K3 w - - 100 80", "go depth 3", "isready", "quit"],
    ["isready", "position fen 7n/8/8/8/8/8/K7/2k5 b - - 0 1 moves h8g6 a2a1 g6h8", "go depth 4", "history", "quit"],
    # `fen.trim()` removes Unicode White_Space that `split_ascii_whitespace` leaves inside tokens (U+000B, U+0085, U+00A0, U+2003, U+3000)
    ["isready", "position fen \x0brnbqkbnr/pppppppp/8/8/8/8/PPPPPPPP/RNBQKBNR w KQkq - 0 1 moves e2e4", "print", "history", "go depth 1", "quit"],
    ["isready", "position fen \u00a0\u2003rnbqkbnr/pppppppp/8/8/8/8/PPPPPPPP/RNBQKBNR w KQkq - 0 1\u0085 moves e2e4 e7e5", "print", "history", "quit"],
    ["isready", "position fen rnbqkbnr/pppppppp/8/8/8/8/PPPPPPPP/RNBQKBNR w KQkq - 0 1\u3000", "print", "go depth 1", "quit"],
    # the largest counts the u8 arguments admit, on positions where they are cheap (no legal move / a fully blocked position)
    ["isready", "position fen 7k/5Q2/6K1/8/8/8/8/8 b - - 0 1", "go perft 255", "go split 255", "go perft 254", "isready", "quit"],
    ["isready", "position fen R6k/6pp/8/8/8/8/8/7K b - - 0 1", "go perft 255", "go split 255", "isready", "quit"],
    ["isready", "position fen 8/8/4k3/p1p1p1p1/P1P1P1P1/8/4K3/8 w - - 0 1", "go perft 3", "go split 2", "go depth 12", "isready", "quit"],
    # numeric arguments at the edge of their integer types, where that is cheap: a huge movestogo / increment makes the budget tiny
    ["isready", "go wtime 1000 btime 1000 movestogo 4294967295", "go wtime 1000 btime 1000 movestogo 4294967294", "go wtime 50 btime 50 winc 4294967295 binc 4294967295 movestogo 2147483648", "isready", "quit"],
    ["isready", "go wtime 4294967295 btime 4294967295 movestogo 4294967295", "go wtime 0 btime 0 winc 0 binc 0 movestogo 4294967295", "isready", "quit"],
    # the record position with 218 legal moves (the move-ordering buffers hold exactly 218) and one with 217
    ["isready", "position fen R6R/3Q4/1Q4Q1/4Q3/2Q4Q/Q4Q2/pp1Q4/kBNN1KB1 w - - 0 1", "go perft 1", "go depth 2", "go nodes 0", "isready", "quit"],
    ["isready", "position fen 3Q4/1Q4Q1/4Q3/2Q4R/Q4Q2/3Q4/1Q4Rp/1K1BBNNk w - - 0 1", "go perft 1", "go depth 2", "isready", "quit"],
    ["go depth 1"],
    ["print"],
    [],
    ["isready", "position fen 7k/5Q2/6K1/8/8/8/8/8 b - - 0 1", "go depth 2", "go nodes 10", "isready", "quit"],       # stalemate: bestmove 0000
    ["isready", "position fen 6rk/5Npp/8/8/8/8/8/6K1 b - - 0 1", "go depth 2", "isready", "quit"],                     # checkmated root
    ["setoption name Hash value", "setoption name", "setoption", "isready", "setoption name Hash value", "setoption name UCI_Chess960 value", "isready", "quit"],
    ["quit"],
    ["setoption name Hash value 2", "setoption name UCI_Chess960 value true", "isready", "ucinewgame", "go depth 2", "go", "go foo 1", "go depth", "stop", ""],
]


def run_corpus(res):
    for sc in CORPUS_SCRIPTS:
        nbest = 0
        nready = 0
        started = False
        for l in sc:
            t = l.split()
            if not started and t[:1] == ["setoption"]:
                continue
            started = True
            if t[:1] == ["quit"]:
                break
            if t[:1] == ["isready"]:
                nready += 1
            if t[:1] == ["go"] and len(t) >= 3 and t[1] in ("depth", "nodes", "movetime", "wtime"):
                nbest += 1
        for b in ("release", "checked"):
            rc, out, err, to, secs = run_engine(sc, b, timeout=30)
            res.case("corpus|" + b + "|" + "|".join(sc), True)
            if to:
                res.fail("engine hung (no exit within 30 s)", script=sc, build=b)
                continue
            if rc != 0 or "panicked" in err:
                res.fail("engine crashed", script=sc, build=b, exit_status=rc, stderr=err[-300:])
                continue
            lines = out.split("\n")
            if sum(1 for l in lines if l == "readyok") != nready or sum(1 for l in lines if l.startswith("bestmove")) != nbest:
                res.fail("wrong number of readyok / bestmove lines", script=sc, build=b, observed=(lines.count("readyok"), sum(1 for l in lines if l.startswith("bestmove"))),
                         expected=(nready, nbest))
        if all(not re.search(r"movetime|wtime", l) for l in sc):
            process_compare_one(res, sc)
    # the first-line dispatch of main.rs (not part of the UCI model): must exit cleanly whatever the first line is
    for first in ("quit\n", "about\n", "foo\n", "\n", "", "uci"):
        for b in ("release", "checked"):
            try:
                p = subprocess.run([vlib.BIN[b]], input=first, stdout=subprocess.PIPE, stderr=subprocess.PIPE, text=True, timeout=20)
                res.case("first-line|" + b + "|" + repr(first), True)
                if p.returncode != 0 or "panicked" in p.stderr:
                    res.fail("engine crashed", script=[first], build=b, exit_status=p.returncode, stderr=p.stderr[-300:])
            except subprocess.TimeoutExpired:
                res.fail("engine hung (no exit within 30 s)", script=[first], build=b)
    res.count("corpus_scripts", len(CORPUS_SCRIPTS))


def run_C15(res):
    rnd = random.Random(res.seed)
    vlib.cargo_build_bins()
    gs = games(res, 8 if res.tier == "quick" else 80, 60, 60, 80)
    pool = [p for g in gs for p in g]
    ok = in_domain(pool)
    pool = [p for p, o in zip(pool, ok) if o]
    rnd.shuffle(pool)
    pool = pool[:200]
    fens = run_hx(["fenout " + p for p in pool]) + [None] * 20
    legal_cache = {}

    def movegen(f, rnd):
        toks = []
        for _ in range(rnd.randrange(0, 5)):
            toks.append(rnd.choice(["e2e4", "e7e5", "g1f3", "b8c6", "e1g1", "e8g8", "e1c1", "e8c8", "a2a4", "h7h5", "d2d4", "zz", "a7a8q", "e1h1"]))
        return toks
    run_corpus(res)
    n = 60 if res.tier == "quick" else 1500
    res.coverage["rule"] = ("hand-built edge scripts first; then random command scripts over the property's vocabulary (incl. the first-loop/second-loop boundary of listen, option changes, zero budgets, "
                            "movestogo 0, split/perft 0, garbage tokens, EOF with and without quit) fed to the real binary, optimised and checked build: exit status 0, no "
                            "panic text, one readyok per isready, one bestmove per well-formed search request, termination within 30 s; deterministic scripts also compared "
                            "line by line with the Lean UCI model")
    for i in range(n):
        sc, nbest, nready, det = random_script(rnd, fens, movegen)
        for b in ("release", "checked"):
            rc, out, err, to, secs = run_engine(sc, b, timeout=30)
            res.case(b + "|" + "|".join(sc), True, {"script": sc, "build": b, "exit": rc, "bestmoves": out.count("bestmove")} if i % 20 == 0 else None)
            if to:
                res.fail("engine hung (no exit within 30 s)", script=sc, build=b)
                continue
            if rc != 0 or "panicked" in err:
                res.fail("engine crashed", script=sc, build=b, exit_status=rc, stderr=err[-300:])
                continue
            lines = out.split("\n")
            if sum(1 for l in lines if l == "readyok") != nready:
                res.fail("wrong number of readyok lines", script=sc, build=b, observed=sum(1 for l in lines if l == "readyok"), expected=nready)
            nb = sum(1 for l in lines if l.startswith("bestmove"))
            if nb != nbest:
                res.fail("wrong number of bestmove lines", script=sc, build=b, observed=nb, expected=nbest)
        if det:
            res.count("deterministic_scripts_compared_with_model")
            process_compare_one(res, sc)
        else:
            res.count("timed_scripts_shape_only")
    twin_scripts_C15(res, rnd)
    rim_scripts_C15(res, rnd)


def rim_scripts_C15(res, rnd):
    """searches deep enough for the pruning rules to meet rim checks (back-rank king under pawn fire, checkers on far edge squares)"""
    import concurrent.futures
    from props_search import edge_check_fens
    ps = [l for l in run_driver(["feninw " + f for f in edge_check_fens(rnd, 300)]) if l not in ("PANIC", "bad-op")]
    ok = in_domain(ps)
    ps = [p for p, o in zip(ps, ok) if o][: (24 if res.tier == "quick" else 300)]
    fens = [f for f in run_hx(["fenout " + p for p in ps]) if f not in ("PANIC", "DIED")]
    jobs = [(["isready", "position fen " + f, "go depth " + str(rnd.choice([4, 5])), "isready", "quit"], b) for f in fens for b in ("release", "checked")]
    with concurrent.futures.ThreadPoolExecutor(12) as ex:
        outs = list(ex.map(lambda j: run_engine(j[0], j[1], timeout=60), jobs))
    for (sc, b), (rc, out, err, to, secs) in zip(jobs, outs):
        res.evaluations += 1
        res.count("rim_check_scripts")
        if to:
            res.fail("engine hung (no exit within 60 s)", script=sc, build=b)
        elif rc != 0 or "panicked" in err:
            res.fail("engine crashed", script=sc, build=b, exit_status=rc, stderr=err[-300:])
        elif out.count("readyok") != 2 or sum(1 for l in out.split("\n") if l.startswith("bestmove")) != 1:
            res.fail("wrong number of readyok / bestmove lines", script=sc, build=b)


def twin_scripts_C15(res, rnd):
    """two positions with the same key (same placement, the castling right of one wing referring to different rooks) searched one after
    the other without ucinewgame: the table left by the first search holds moves that need not exist in the second position"""
    import concurrent.futures
    from props_search import key_twin_pairs
    twins = key_twin_pairs(res, rnd, 3000 * res.escalate if res.tier == "quick" else 30000, 160 if res.tier == "quick" else 2000)
    fa = run_hx(["fenout " + a for a, b in twins])
    fb = run_hx(["fenout " + b for a, b in twins])
    scripts = []
    for x, y in zip(fa, fb):
        if x in ("PANIC", "DIED") or y in ("PANIC", "DIED") or x == y:
            continue
        scripts.append(["setoption name UCI_Chess960 value true", "isready", "position fen " + x, "go depth 3", "position fen " + y, "go depth 3",
                        "position fen " + x, "go depth 2", "isready", "quit"])

    def one(sc):
        return run_engine(sc, "release", timeout=30)
    with concurrent.futures.ThreadPoolExecutor(12) as ex:
        outs = list(ex.map(one, scripts))
    for sc, (rc, out, err, to, secs) in zip(scripts, outs):
        res.evaluations += 1
        res.count("key_twin_scripts")
        if to:
            res.fail("engine hung (no exit within 30 s)", script=sc, build="release")
        elif rc != 0 or "panicked" in err:
            res.fail("engine crashed", script=sc, build="release", exit_status=rc, stderr=err[-300:])
        else:
            lines = out.split("\n")
            if sum(1 for l in lines if l == "readyok") != 2 or sum(1 for l in lines if l.startswith("bestmove")) != 3:
                res.fail("wrong number of readyok / bestmove lines", script=sc, build="release",
                         observed=[sum(1 for l in lines if l == "readyok"), sum(1 for l in lines if l.startswith("bestmove"))], expected=[2, 3])
    for sc in scripts[:6]:
        process_compare_one(res, sc)


def process_compare_one(res, sc):
    mo = run_driver(["script w - " + "|".join(sc)])[0]
    for b in ("release", "checked"):
        rc, out, err, to, secs = run_engine(sc, b, timeout=30)
        if to or rc != 0:
            continue
        got = canon_transcript(out)
        exp = mo.split("|") if mo not in ("PANIC", "DIED") else ["<model: PANIC>"]
        while exp and exp[-1] == "":
            exp.pop()
        if got != exp:
            k = next((i for i, (a, c) in enumerate(zip(got, exp)) if a != c), min(len(got), len(exp)))
            res.disagree(f"UCI transcript ({b} build)", " | ".join(sc)[:600], "line %d: %s" % (k, got[k] if k < len(got) else "<end>"),
                         "line %d: %s" % (k, exp[k] if k < len(exp) else "<end>"))


def match_F7(f):
    sc = f.get("script") or []
    return f.get("what") in ("engine crashed", "engine hung (no exit within 30 s)") and any(re.search(r"movestogo 0\b|go split 0\b", l) for l in sc)


def match_F3_script(f):
    sc = f.get("script") or []
    return f.get("what") in ("engine crashed",) and any(re.search(r"\b(e1g1|e1c1|e8g8|e8c8)\b", l) for l in sc)


# ------------------------------------------------------------------ C16
def options_after(lines):
    hash_mb, frc = 16, False
    for l in lines:
        t = l.split()
        if len(t) >= 5 and t[0] == "setoption" and t[1] == "name" and t[3] == "value":
            if t[2] in ("Hash", "hash"):
                if re.fullmatch(r"\+?\d+", t[4]):
                    hash_mb = max(1, min(int(t[4]), 4096))
            elif t[2] == "UCI_Chess960":
                frc = t[4] == "true"
        if t and t[0] == "quit":
            break
    return hash_mb, frc


def after_last_readyok(out):
    lines = canon_transcript(out)
    idx = max((i for i, l in enumerate(lines) if l == "readyok"), default=-1)
    return lines[idx + 1:]


def run_C16(res):
    rnd = random.Random(res.seed)
    vlib.cargo_build_bins()
    gs = games(res, 8 if res.tier == "quick" else 80, 60, 60, 80)
    pool = [p for g in gs for p in g]
    ok = in_domain(pool)
    pool = [p for p, o in zip(pool, ok) if o]
    rnd.shuffle(pool)
    pool = pool[:200]
    fens = run_hx(["fenout " + p for p in pool]) + [None] * 10
    # positions in which castling is legal, with the castling move in king-takes-rook (Chess960) notation
    pats = [l for l in run_driver([f"gpattern {res.seed + 41} 0 {300 if res.tier == 'quick' else 6000} 1"]) if l and l != "bad-op"]
    pm = run_hx_par(["moves " + p for p in pats])
    castle960 = []
    for p, ml in zip(pats, pm):
        P = Pos(p)
        cms = [m for m in parse_moves(ml) if (P.c0 >> m[1]) & 1]
        if cms:
            castle960.append((p, uci_oracle(P.with_(frc=1), rnd.choice(cms))))
    cf = run_hx(["fenout " + p for p, _ in castle960])
    castle960 = [(f, t) for f, (_, t) in zip(cf, castle960)]

    def movegen(f, rnd):
        return [rnd.choice(["e2e4", "e7e5", "g1f3", "b8c6", "e1g1", "d2d4", "zz"]) for _ in range(rnd.randrange(0, 4))]
    n = 40 if res.tier == "quick" else 800
    res.coverage["rule"] = ("random command prefixes (positions, move lists, depth/node/time searches, perfts, option changes) followed by [ucinewgame,] position X and the queries "
                            "print, history, eval, go split 1, go perft 2, go depth 2/3: output after the prefix compared with a fresh engine given the same option values")
    for i in range(n):
        pre, _, _, _ = random_script(rnd, fens, movegen)
        pre = [l for l in pre if l.split()[:1] != ["quit"]]
        if pre and "isready" not in pre:
            pre.insert(0, "isready")
        f = rnd.choice(fens)
        posline = ("position startpos" if f is None else "position fen " + f) + rnd.choice(["", "", " moves e2e4", " moves zz"])
        want960 = False
        if castle960 and rnd.random() < 0.35:
            cfen, ctok = rnd.choice(castle960)
            posline = "position fen " + cfen + " moves " + ctok       # only understood when UCI_Chess960 is on
            want960 = True
        # option changes may also sit between ucinewgame and position (a table that was shrunk, cleared and grown again
        # must still look freshly cleared)
        mid = []
        if rnd.random() < 0.6:
            if rnd.random() < 0.7:
                # search the very position that will be queried later, then shrink the table
                pre = pre + [posline, "go depth %d" % rnd.choice([3, 4, 5]), "setoption name Hash value %d" % rnd.choice([1, 2])]
            mid = ["setoption name Hash value %d" % rnd.choice([1, 2, 4, 16, 32])] + \
                  (["setoption name UCI_Chess960 value " + rnd.choice(["true", "false"])] if rnd.random() < 0.3 else [])
        if want960:
            pre = pre + ["setoption name UCI_Chess960 value true"]
            mid = [l for l in mid if "UCI_Chess960" not in l]
        hash_mb, frc = options_after(pre + mid)
        for newgame in (True, False):
            queries = ["print", "history", "eval", "go split 1", "go perft 2"] + (["go depth %d" % rnd.choice([2, 3, 4])] if newgame else [])
            suffix = ["isready"] + (["ucinewgame"] if newgame else []) + mid + [posline] + queries + ["quit"]
            # the freshly started engine gets the option values and the position command only (no ucinewgame, no option changes in between)
            fresh = [f"setoption name Hash value {hash_mb}", "setoption name UCI_Chess960 value " + ("true" if frc else "false"), "isready", posline] + queries + ["quit"]
            for b in (("release", "checked") if i % 4 == 0 else ("release",)):
                r1 = run_engine(pre + suffix, b, timeout=40)
                r2 = run_engine(fresh, b, timeout=40)
                res.case(b + "|" + "|".join(pre + suffix), True, {"prefix": pre, "suffix": suffix, "build": b} if i % 10 == 0 and newgame else None)
                if r1[3] or r2[3] or r1[0] != 0 or r2[0] != 0:
                    res.fail("engine crashed or hung while comparing against a fresh engine", prefix=pre, suffix=suffix, build=b, exit=(r1[0], r2[0]))
                    continue
                a, c = after_last_readyok(r1[1]), after_last_readyok(r2[1])
                if a != c:
                    k = next((j for j, (x, y) in enumerate(zip(a, c)) if x != y), min(len(a), len(c)))
                    res.fail("output after %sposition depends on earlier commands" % ("ucinewgame + " if newgame else ""), prefix=pre, suffix=suffix, build=b,
                             observed=a[k] if k < len(a) else "<end>", fresh_engine=c[k] if k < len(c) else "<end>")
        # model correspondence of the whole run (deterministic prefixes only)
        if all(not re.search(r"movetime|wtime", l) for l in pre):
            process_compare_one(res, pre + ["isready", "ucinewgame", posline, "print", "history", "eval", "go depth 2", "quit"])


    # sessions that never send `isready`: options given in the preamble must still be in force (same output as with `isready`)
    from vlib import canon_transcript
    for h in (1, 2, 3):
        for newgame in (False, True):
            body = (["ucinewgame"] if newgame else []) + ["position startpos moves e2e4 e7e5", "go depth 5", "quit"]
            mbody = (["ucinewgame"] if newgame else []) + ["position startpos moves e2e4 e7e5", "go depth 3", "quit"]
            a = ["setoption name Hash value %d" % h] + body
            b = ["setoption name Hash value %d" % h, "isready"] + body
            ra, rb = run_engine(a, "release", timeout=60), run_engine(b, "release", timeout=60)
            res.evaluations += 2
            res.count("sessions_without_isready")
            ta = [l for l in canon_transcript(ra[1]) if l != "readyok"]
            tb = [l for l in canon_transcript(rb[1]) if l != "readyok"]
            if ra[0] != 0 or rb[0] != 0 or ra[3] or rb[3]:
                res.fail("engine crashed or hung in a session without isready", script=a, exit=(ra[0], rb[0]))
            elif ta != tb:
                k = next((j for j, (x, y) in enumerate(zip(ta, tb)) if x != y), min(len(ta), len(tb)))
                res.fail("output depends on whether `isready` was sent (an option given in the preamble is not in force without it)", script=a,
                         observed=ta[k] if k < len(ta) else "<end>", with_isready=tb[k] if k < len(tb) else "<end>")
            if h == 1:
                process_compare_one(res, ["setoption name Hash value %d" % h] + mbody)


# ------------------------------------------------------------------ C20
def run_C20(res):
    n = 200 if res.tier == "quick" else 3000
    res.coverage["rule"] = ("random legal games from the standard start (legality by the Lean chess model) incl. degenerate families (zero-move games, no captures, no pawn "
                            "moves, short games, every result), analysed by the REAL tools/style/style.py through the python-chess stand-in and by the Lean model: Stats fields, "
                            "is_valid, error class and scores compared; property oracle: is_valid, scores finite in [0,1], no exception")
    ok, out = vlib.lake_build(["styledriver"])
    if not ok:
        res.broken.append("lake build styledriver failed: " + out[-600:])
        return
    frag = os.path.join(vlib.VERIF, ".build", "c20_fragment.json")
    os.makedirs(os.path.dirname(frag), exist_ok=True)
    p = subprocess.run([sys.executable, os.path.join(vlib.VERIF, "tools", "style_corr.py"), "--seed", str(res.seed % 100000), "--games", str(n), "--out", frag],
                       stdout=subprocess.PIPE, stderr=subprocess.STDOUT, text=True, timeout=3000)
    for l in p.stdout.splitlines():
        m = re.match(r"FAIL kind=(\S+) case=(\S+)", l)
        if m:
            try:
                data = json.load(open(m.group(2)))
            except Exception:
                data = {}
            if m.group(1) == "property":
                res.fail("style tool violates the property", case=m.group(2), detail=json.dumps(data)[:600])
            else:
                res.disagree("style.py vs Lean model", m.group(2), json.dumps(data)[:300], "")
    if p.returncode not in (0, 1):
        res.broken.append("style_corr.py failed: " + p.stdout[-600:])
    try:
        fr = json.load(open(frag))
    except Exception:
        fr = {}
    res.evaluations += int(fr.get("evaluations", fr.get("games", n)))
    for k in range(int(fr.get("distinct_nontrivial", fr.get("games", n)))):
        res.distinct.add(k)
    res.samples = (fr.get("samples") or [{"games": n}])[:4]
    for k, v in fr.items():
        if isinstance(v, (int, float, str)) and k not in ("evaluations", "distinct_nontrivial"):
            res.coverage["style_" + k] = v
    res.assumptions.append("pystub/chess is a stand-in for python-chess (not installed here); IEEE rounding is probed, not modelled")


def match_F9(f):
    return f.get("what") == "style tool violates the property" and "ZeroDivision" in f.get("detail", "")


PROPS = {
    "C05": {"run": run_C05, "bins": True, "matchers": {"F3": match_F3}},
    "C15": {"run": run_C15, "bins": True, "matchers": {"F7": match_F7, "F3": match_F3_script}},
    "C16": {"run": run_C16, "bins": True},
    "C20": {"run": run_C20, "matchers": {"F9": match_F9}},
}
