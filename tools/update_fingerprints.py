#!/usr/bin/env python3
"""Record the normalised text fingerprint of every anchored source file. Run by hand after the model has been (re)validated
against /repo's current sources (all checks pass); never run by a check."""
import json, os, sys
sys.path.insert(0, os.path.dirname(os.path.abspath(__file__)))
import vlib
files = set()
for l in open(os.path.join(vlib.VERIF, "properties.jsonl")):
    files.update(json.loads(l)["anchors"]["files"])
fps = {f: vlib.fingerprint_file(os.path.join(vlib.REPO, f)) for f in sorted(files)}
json.dump(fps, open(os.path.join(vlib.VERIF, "model_fingerprints.json"), "w"), indent=1)
print(len(fps), "files fingerprinted at", os.popen("git -C /repo rev-parse --short HEAD").read().strip())
