PROPS = {}
