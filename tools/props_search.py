"""Search properties: C03 C11 C12 C13 C14 C19."""
import random
import re
import time

import vlib
from vlib import Pos, fmt_mv, log, parse_moves, run_driver, run_driver_par, run_hx, run_hx_par
from props_core import compare, gen_positions, sizes

MATE = 1000000


# ------------------------------------------------------------------ inputs
def games(res, n_games, plies, sparse, corpus):
    lines = gen_positions(res, n_games, plies, sparse, corpus, null=0, with_games=True)
    gs, cur = [], []
    for l in lines:
        if l == "#":
            if cur:
                gs.append(cur)
            cur = []
        else:
            cur.append(l)
    if cur:
        gs.append(cur)
    return gs


def roots_with_history(res, gs, per_game, rnd):
    """(position, history keys oldest->newest incl. the root's own key)"""
    out = []
    for g in gs:
        if len(g) == 1:
            out.append((g[0], [Pos(g[0]).hash]))
            continue
        for _ in range(per_game):
            i = rnd.randrange(len(g))
            out.append((g[i], [Pos(x).hash for x in g[: i + 1]]))
    return out


def in_domain(ps):
    """D = V and E and M (the search properties quantify over D; legal material also keeps capture trees and move lists bounded)"""
    ind = run_driver_par(["sind " + p for p in ps])
    return [d.split() == ["1", "1", "1"] for d in ind]


def hist_str(h):
    return ",".join(str(x) for x in h) if h else "-"


def parse_root(line):
    """'<mv>/<uci>|ERR hist=b pos=b infos=... tt=...' -> dict"""
    if line in ("PANIC", "DIED", "bad-op"):
        return {"raw": line, "panic": True}
    m = re.match(r"^(\S+) hist=(\d) pos=(\d) infos=(.*) tt=(\S+)$", line)
    if not m:
        return {"raw": line, "panic": True}
    infos = []
    if m.group(4) != "-":
        for rec in m.group(4).split("|"):
            d = dict(kv.split("=", 1) for kv in rec.split(" "))
            infos.append({"depth": int(d["d"]), "seldepth": int(d["sd"]), "score": int(d["sc"]), "nodes": int(d["n"]), "hashfull": int(d["hf"]),
                          "pv": [x.split("/")[0] for x in d["pv"].split(",")] if d["pv"] else []})
    best = None if m.group(1) == "ERR" else m.group(1).split("/")[0]
    return {"raw": line, "panic": False, "best": best, "best_uci": None if best is None else m.group(1).split("/")[1],
            "hist_ok": m.group(2) == "1", "pos_ok": m.group(3) == "1", "infos": infos, "tt": m.group(5)}


def successors(ps_moves):
    """[(p, m)] -> successor raw positions by the real make-move"""
    return run_hx_par([f"make {p} {m[0]} {m[1]} {m[2]} 1" for p, m in ps_moves])


def prefilled_tables(res, roots, rnd, depth=2):
    """tables left behind by earlier searches of the root, a successor or an unrelated position (real engine)."""
    legal = run_hx_par(["moves " + p for p, _ in roots])
    reqs = []
    for (p, h), ml in zip(roots, legal):
        ms = parse_moves(ml)
        k = rnd.randrange(4)
        if k == 0 or not ms:
            reqs.append(f"root {p} {hist_str(h)} 1 depth {depth}")
        elif k == 1:
            m = rnd.choice(ms)
            reqs.append(("succ", p, m))
        elif k == 2:
            m = rnd.choice(ms)
            reqs.append(("succ2", p, m))      # the position two plies later ("analysis stepping backwards")
        else:
            q, hq = rnd.choice(roots)
            reqs.append(f"root {q} {hist_str(hq)} 1 depth {depth}")
    succ_idx = [i for i, r in enumerate(reqs) if isinstance(r, tuple)]
    succ = successors([(reqs[i][1], reqs[i][2]) for i in succ_idx])
    # second ply for the "succ2" requests: a random reply
    two = [i for i, s in zip(succ_idx, succ) if reqs[i][0] == "succ2" and s not in ("PANIC", "DIED")]
    smap = dict(zip(succ_idx, succ))
    replies = run_hx_par(["moves " + smap[i] for i in two])
    pick = []
    for i, ml in zip(two, replies):
        ms = parse_moves(ml)
        pick.append((smap[i], rnd.choice(ms)) if ms else None)
    succ2 = successors([x for x in pick if x is not None])
    it2 = iter(succ2)
    for i, x in zip(two, pick):
        if x is not None:
            s2 = next(it2)
            if s2 not in ("PANIC", "DIED"):
                smap[i] = s2
    for i in succ_idx:
        s = smap[i]
        reqs[i] = f"root {s} {Pos(s).hash} 1 depth {depth + 1}" if s not in ("PANIC", "DIED") else f"root {roots[i][0]} - 1 depth 1"
    outs = run_hx_par(reqs)
    tts = []
    for o in outs:
        r = parse_root(o)
        tts.append("1" if r["panic"] else "1;" + ";".join(r["tt"].split(";")[1:]) if ";" in r.get("tt", "") else "1")
    return tts


THOROUGH = [False]


def limit_args(rnd):
    k = rnd.random()
    if k < 0.35:
        return "depth", f"depth {rnd.choice([0, 1, 1, 2, 2, 3] if not THOROUGH[0] else [0, 1, 2, 3, 3, 4, 4])}", True
    if k < 0.6:
        return "nodes", f"nodes {rnd.choice([0, 1, 2, 10, 60, 300, 1500])}", True
    if k < 0.8:
        return "movetime", f"movetime {rnd.choice([0, 0, 1, 3, 10])}", False
    wt, bt = rnd.choice([0, 1, 20, 29, 30, 60, 200]), rnd.choice([0, 1, 20, 29, 30, 60, 200])
    mtg = rnd.choice(["-", "-", "1", "5", "40"])
    return "time", f"time {wt} {bt} {mtg}", False


def legal_oracle(ps):
    return [set(fmt_mv(m) for m in parse_moves(s)) for s in run_driver_par(["smoves " + p for p in ps])]


# ------------------------------------------------------------------ C03
def special_roots(base, rnd):
    """roots already drawable by rule: clock >= 100, 2nd/3rd/4th occurrence of the root in its history."""
    out = []
    for p, h in base:
        P = Pos(p)
        k = rnd.randrange(4)
        if k == 0:
            out.append((str(P.with_(halfmoves=rnd.choice([99, 100, 100, 101, 120]))), h[-1:], "clock>=99"))
        else:
            occ = k + 1     # 2nd, 3rd, 4th occurrence
            hist = []
            for i in range(occ - 1):
                hist += [P.hash, rnd.getrandbits(64)]
            hist += [P.hash]
            out.append((str(P.with_(halfmoves=max(P.halfmoves, len(hist) + 1))), hist, f"occurrence#{occ}"))
    return out


def edge_check_fens(rnd, n):
    """checks that arise at the rim of the board: a king on its back rank (any file, corners included) facing enemy pawns on the second
    and third rank on the neighbouring files (a pawn check from the second rank now or one push away), or a rook / queen / bishop checker
    on the far edge square of a line through the king; a few officers on both sides (so that null-move pruning is active)"""
    out = []
    for _ in range(n):
        board = {}
        kf = rnd.randrange(8)
        board[kf] = "K"
        mode = rnd.randrange(3)
        if mode < 2:
            for df in (-1, 1):
                f = kf + df
                if 0 <= f < 8 and rnd.random() < 0.7:
                    board[8 * rnd.choice([1, 2, 2]) + f] = "p"
            if rnd.random() < 0.5 and 16 + kf not in board:
                board[16 + kf] = "p"
        else:
            line = rnd.choice([[kf + 8 * r for r in range(1, 8)], [f for f in range(8) if f != kf]])
            far = line[-1] if line[0] // 8 else (line[0] if kf > 3 else line[-1])
            board[far] = rnd.choice("rq")
        free = [sq for sq in range(64) if sq not in board and sq // 8 >= 3]
        rnd.shuffle(free)
        board[free.pop()] = "k"
        for _ in range(rnd.randrange(2, 5)):
            board[free.pop()] = rnd.choice("RNBQ")
        for _ in range(rnd.randrange(2, 5)):
            board[free.pop()] = rnd.choice("rnbq")
        rows = []
        for r in range(7, -1, -1):
            row, e = "", 0
            for f in range(8):
                x = board.get(8 * r + f)
                if x is None:
                    e += 1
                else:
                    row += (str(e) if e else "") + x
                    e = 0
            rows.append(row + (str(e) if e else ""))
        fen = "/".join(rows) + " " + rnd.choice("wb") + " - - 0 1"
        if rnd.random() < 0.5:
            fen = flip_fen_colour(fen)
        out.append(fen)
    return out


def key_twin_pairs(res, rnd, npat, cap):
    """pairs of positions of D with the same placement, turn, rights and ep file (hence the same Zobrist key) whose castling right on one
    wing refers to different rooks"""
    pats = [l for l in run_driver([f"gpattern {res.seed + 31} 0 {npat} 1"]) if l and l != "bad-op"]
    twins = []
    for p in pats:
        P = Pos(p)
        ksq = (P.piece(5) & P.c0).bit_length() - 1
        rooks = [f for f in range(8) if (P.piece(3) & P.c0) >> f & 1]
        for idx, right, cf in ((12, "usK", 16), (13, "usQ", 17)):
            if P.t[idx] != "1" or ksq < 0 or ksq > 7:
                continue
            cur = int(P.t[cf])
            others = [f for f in rooks if f != cur and ((f > ksq) == (cur > ksq))]
            if others:
                t = list(P.t)
                t[cf] = str(rnd.choice(others))
                twins.append((p, " ".join(t)))
    okA = in_domain([a for a, b in twins])
    okB = in_domain([b for a, b in twins])
    return [tw for tw, x, y in zip(twins, okA, okB) if x and y][:cap]


def run_C03(res):
    THOROUGH[0] = res.tier == "thorough"
    g, pl, sp, co = sizes(res, (12, 60, 60, 40), (500, 120, 4000, 1500))
    rnd = random.Random(res.seed)
    gs = games(res, g, pl, sp, co)
    roots = roots_with_history(res, gs, 3, rnd)
    ok = in_domain([p for p, _ in roots])
    roots = [r for r, o in zip(roots, ok) if o]
    rnd.shuffle(roots)
    roots = roots[: (140 if res.tier == "quick" else 8000)]
    spec = special_roots(roots[: len(roots) // 3], rnd)
    res.coverage["rule"] = ("roots sampled from model-side games (with their real key histories), constructed positions and /repo's test FENs; limits: depth 0..3, "
                            "nodes 0..1500, movetime 0..10 ms, clocks 0..200 ms with/without movestogo; tables fresh or left by earlier real searches of the root, a "
                            "successor or another position; plus roots with clock 99..120 and 2nd/3rd/4th occurrence histories; oracle = Spec.legalMoves")
    tts = prefilled_tables(res, roots, rnd)
    cases = []
    for (p, h), tt in zip(roots, tts):
        kind, args, det = limit_args(rnd)
        cases.append((p, h, tt if rnd.random() < 0.5 else "1", kind, args, det, "game"))
    for p, h, tag in spec:
        kind, args, det = limit_args(rnd)
        cases.append((p, h, "1", kind, args, det, tag))
    # key twins: same placement, turn, rights and ep file (hence the same key) but a castling right that refers to the OTHER rook of
    # the wing; the table left by a search of one twin is handed to a search of the other (a stored castling move may be illegal there)
    twins = key_twin_pairs(res, rnd, 4000 * res.escalate if res.tier == "quick" else 40000, 320 if res.tier == "quick" else 3000)
    outA = run_hx_par([f"root {a} {Pos(a).hash} 1 depth {rnd.choice([3, 3, 4])}" for a, b in twins])
    ncastle = 0
    for k, ((a, b), o) in enumerate(zip(twins, outA)):
        q = parse_root(o)
        if q["panic"]:
            continue
        tt = "1;" + ";".join(q["tt"].split(";")[1:]) if ";" in q["tt"] else "1"
        # a table that holds a castling move (king onto its own rook) is the interesting one: that move may not exist in the twin
        own_rooks = Pos(a).piece(3) & Pos(a).c0
        has_castle = any(len(e.split(",")) == 8 and (own_rooks >> int(e.split(",")[3])) & 1 and (Pos(a).piece(5) >> int(e.split(",")[2])) & 1
                         for e in tt.split(";")[1:])
        ncastle += has_castle
        lims = [("depth 3", True)] + ([("depth 2", True)] if has_castle else [])
        lims += [(("nodes 0", True), ("depth 0", True), ("movetime 0", False), ("depth 1", True))[k % 4]]
        for args, det in lims:
            cases.append((b, [Pos(b).hash], tt, args.split()[0], args, det, "key-twin-table"))
    res.count("key_twin_tables_holding_a_castling_move", ncastle)
    # rim checks: back-rank kings under pawn fire from the second / third rank, checkers on far edge squares; searched deep enough for
    # null-move pruning and the check extension to meet them inside the tree
    rim = [l for l in run_driver(["feninw " + f for f in edge_check_fens(rnd, 400 * res.escalate if res.tier == "quick" else 6000)]) if l not in ("PANIC", "bad-op")]
    okr = in_domain(rim)
    rim = [p for p, o in zip(rim, okr) if o][: (60 if res.tier == "quick" else 1200)]
    for p in rim:
        cases.append((p, [Pos(p).hash], "1", "depth", "depth " + str(rnd.choice([3, 4, 4, 5] if res.tier == "quick" else [4, 5, 6])), True, "rim-check"))
    # the record positions with 218 / 217 legal moves: the move-ordering buffers hold exactly 218 entries
    for f in ("R6R/3Q4/1Q4Q1/4Q3/2Q4Q/Q4Q2/pp1Q4/kBNN1KB1 w - - 0 1", "3Q4/1Q4Q1/4Q3/2Q4R/Q4Q2/3Q4/1Q4Rp/1K1BBNNk w - - 0 1"):
        for p in [l for l in run_driver(["feninw " + f]) if l not in ("PANIC", "bad-op")]:
            for a in ("depth 1", "nodes 0", "nodes 250"):
                cases.append((p, [Pos(p).hash], "1", a.split()[0], a, True, "max-moves"))
    # roots whose key (or whose successor's key) is a special value: 0 is what an empty table slot holds, so a fresh table "hits"
    from props_core import special_key_positions
    for p in special_key_positions(res, both=True):
        for a in ("depth 3", "depth 2", "nodes 200"):
            cases.append((p, [Pos(p).hash], "1", a.split()[0], a, True, "special-key"))
    # roots without any legal move (mate / stalemate): the answer must be the null move
    sparse = [l for l in run_driver([f"gsparse {res.seed + 9} {3000 if res.tier == 'quick' else 60000} 0"]) if l and l != "bad-op"]
    nomoves = [p for p, m in zip(sparse, run_driver_par(["moves " + p for p in sparse])) if m == "-"]
    for p in nomoves[:30 if res.tier == "quick" else 600]:
        kind, args, det = limit_args(rnd)
        cases.append((p, [Pos(p).hash], "1", kind, args, det, "no-legal-move"))
    reqs = [f"root {p} {hist_str(h)} {tt} {args}" for p, h, tt, kind, args, det, tag in cases]
    impl = run_hx_par(reqs)
    det_idx = [i for i, c in enumerate(cases) if c[5]]
    model = dict(zip(det_idx, run_driver_par([reqs[i] for i in det_idx])))
    legal = legal_oracle([c[0] for c in cases])
    for i, (c, r) in enumerate(zip(cases, impl)):
        p, h, tt, kind, args, det, tag = c
        res.case(reqs[i], True, {"root": p, "history_len": len(h), "limit": args, "table": "prefilled" if tt != "1" else "fresh", "tag": tag, "result": r[:60]})
        res.count("limit_" + kind)
        res.count("root_" + tag)
        if det and model[i] != r:
            res.disagree("search::root::root (" + args + ")", reqs[i][:400], r[:300], model[i][:300])
        pr = parse_root(r)
        if pr["panic"]:
            res.fail("search panicked", root=p, history=h, limit=args, tag=tag, observed=r[:80])
            continue
        if legal[i]:
            if pr["best"] is None:
                res.fail("search returned the null move although the root has legal moves", root=p, history=h, limit=args, table=tt[:80], tag=tag)
            elif pr["best"] not in legal[i]:
                res.fail("search returned an illegal move", root=p, history=h, limit=args, tag=tag, observed=pr["best"])
        else:
            res.count("root_without_legal_moves")
            if pr["best"] is not None:
                res.fail("search returned a move in a position without legal moves", root=p, observed=pr["best"])
    table_size_sessions_C03(res, rnd)


def table_size_sessions_C03(res, rnd):
    """`all prior table contents and table sizes` at process level: the Hash option changed between searches (growing by less than a factor
    of two, shrinking, odd sizes, before and after isready); every `go` must answer with a legal move of its root"""
    import concurrent.futures
    vlib.cargo_build_bins()
    seqs = [(24,), (1, 3), (7, 12), (2, 3, 5), (3, 5, 4), (64, 96), (12, 8, 11), (5, 4, 6), (1, 2, 3, 4), (33, 17, 25)]
    if res.tier == "thorough":
        seqs += [tuple(rnd.randrange(1, 130) for _ in range(rnd.randrange(1, 5))) for _ in range(60)]
    lines = ["e2e4", "e2e4 e7e5", "d2d4 d7d5 c2c4", "g1f3 g8f6 g2g3 g7g6"]
    jobs = []
    for k, sq in enumerate(seqs):
        for pre in (False, True):
            sc = (["setoption name Hash value %d" % sq[0]] if pre else []) + ["isready"]
            ngo = 0
            for j, n in enumerate(sq[1:] if pre else sq):
                sc += ["position startpos moves " + lines[(k + j) % len(lines)], "go depth 3", "setoption name Hash value %d" % n]
                ngo += 1
            sc += ["position startpos moves " + lines[k % len(lines)], "go depth 3", "go split 1", "quit"]
            for b in ("release", "checked"):
                jobs.append((sc, b, ngo + 1))
    with concurrent.futures.ThreadPoolExecutor(12) as ex:
        outs = list(ex.map(lambda j: vlib.run_engine(j[0], j[1], timeout=60), jobs))
    for (sc, b, ngo), (rc, out, err, to, secs) in zip(jobs, outs):
        res.evaluations += 1
        res.count("table_size_sessions")
        if to:
            res.fail("no answer from a search after a table size change (hang)", script=sc, build=b)
            continue
        best = re.findall(r"^bestmove (\S+)", out, re.M)
        legal_last = set(re.findall(r"^([a-h][1-8][a-h][1-8][nbrq]?) \d+$", out, re.M))
        if rc != 0 or "panicked" in err or len(best) != ngo:
            res.fail("a search after a table size change did not answer with a move", script=sc, build=b, exit_status=rc, bestmoves=best, stderr=err[-200:])
        elif best[-1] not in legal_last:
            res.fail("search returned an illegal move after a table size change", script=sc, build=b, observed=best[-1])


def match_F2(f):
    if f.get("what") != "search returned the null move although the root has legal moves":
        return False
    lim = f.get("limit", "")
    return lim in ("depth 0", "nodes 0", "movetime 0") or lim.startswith("time ") or f.get("tag", "") in ("clock>=99", "occurrence#3", "occurrence#4") \
        or lim.startswith("movetime")


# ------------------------------------------------------------------ C13 / C14
def run_C13(res):
    g, pl, sp, co = sizes(res, (10, 60, 50, 30), (400, 120, 3000, 1200))
    rnd = random.Random(res.seed)
    gs = games(res, g, pl, sp, co)
    roots = roots_with_history(res, gs, 3, rnd)
    ok = in_domain([p for p, _ in roots])
    roots = [r for r, o in zip(roots, ok) if o]
    rnd.shuffle(roots)
    roots = roots[: (100 if res.tier == "quick" else 5000)]
    res.coverage["rule"] = ("every search is run twice by the real driver from equal initial state (position, history, table image) and once by the Lean model: "
                            "history vector and position unchanged afterwards (compared inside the harness), identical best move and identical info stream "
                            "(depth, seldepth, score, nodes, pv, hashfull) and final table image; limits depth 1..4, nodes; also time limits for the unchanged-state clause")
    # roots whose search meets repetition nodes for certain (the only move returns to a position of the history)
    sparse = [l for l in run_driver([f"gsparse {res.seed + 21} {2500 if res.tier == 'quick' else 40000} 0"]) if l and l != "bad-op"]
    reps = [(p, h) for p, h, tag in build_repetition_roots(res, sparse, rnd)]
    res.count("repetition_roots", len(reps))
    roots = reps[:40 if res.tier == "quick" else 600] + roots
    tts = prefilled_tables(res, roots, rnd)
    reqs, det = [], []
    for (p, h), tt in zip(roots, tts):
        k = rnd.random()
        if k < 0.5:
            a, d = f"depth {rnd.choice([1, 2, 3, 4, 4, 5] if res.tier == 'thorough' else [1, 2, 3])}", True
        elif k < 0.85:
            a, d = f"nodes {rnd.choice([1, 30, 200, 1000, 4000])}", True
        else:
            a, d = f"movetime {rnd.choice([0, 2, 8])}", False
        reqs.append(f"root {p} {hist_str(h)} {tt if rnd.random() < 0.6 else '1'} {a}")
        det.append(d)
    # roots without a legal move (mate / stalemate) whose history reaches back beyond the last irreversible move: the driver leaves
    # through its error exit, which must hand the history back untouched as well
    nomoves = [p for p, m in zip(sparse, run_driver_par(["moves " + p for p in sparse])) if m == "-"]
    okn = in_domain(nomoves)
    nomoves = [p for p, o in zip(nomoves, okn) if o][: (25 if res.tier == "quick" else 400)]
    for p in nomoves:
        P = Pos(p).with_(halfmoves=rnd.choice([0, 1, 2, 5]))
        h = [rnd.getrandbits(64) for _ in range(rnd.randrange(2, 9))] + [P.hash]
        for a in ("depth 2", "nodes 50", "movetime 0"):
            reqs.append(f"root {P} {hist_str(h)} 1 {a}")
            det.append(a != "movetime 0")
    res.count("terminal_roots_with_long_history", len(nomoves))
    # node-limit sweep: the budget expires at every point of the tree in turn (inside the move loop, a null-move subtree, quiescence,
    # between iterations) — the abort paths are where a search forgets to restore what it borrowed
    # middlegame roots (null-move pruning is switched off in endgames)
    sweep_roots = [r for r in roots if bin(Pos(r[0]).c0 | Pos(r[0]).c1).count("1") >= 14][: (6 if res.tier == "quick" else 24)]
    for p, h in sweep_roots:
        for n in list(range(1, 150)) + list(range(150, 1200 if res.tier == "quick" else 800, 2 if res.tier == "quick" else 5)):
            reqs.append(f"root {p} {hist_str(h)} 1 nodes {n}")
            det.append(True)
    res.count("node_limit_sweep_requests", sum(1 for r in reqs if " 1 nodes " in r))
    # the same request twice IN A ROW IN THE SAME PROCESS (hidden process-wide state would show), pairs kept together
    both = run_hx_par([r for r in reqs for _ in (0, 1)], contiguous=True)
    a1, a2 = both[0::2], both[1::2]
    di = [i for i, d in enumerate(det) if d]
    model = dict(zip(di, run_driver_par([reqs[i] for i in di])))
    for i, r in enumerate(a1):
        res.case(reqs[i], True, {"request": reqs[i][:160], "result": r[:120]})
        pr = parse_root(r)
        if pr["panic"]:
            res.fail("search panicked", request=reqs[i][:300], observed=r[:80])
            continue
        if not pr["hist_ok"] or not pr["pos_ok"]:
            res.fail("search changed the position or the game history it was given", request=reqs[i][:300], hist_unchanged=pr["hist_ok"], pos_unchanged=pr["pos_ok"])
        if det[i]:
            if a2[i] != r:
                res.fail("repeating the same depth/node-limited search from equal state gave a different result", request=reqs[i][:300], first=r[:200], second=a2[i][:200])
            if model[i] != r:
                res.disagree("search::root::root", reqs[i][:300], r[:300], model[i][:300])
            res.count("deterministic_runs_compared")
        else:
            res.count("time_limited_runs_state_only")
    if res.tier == "thorough":
        # long searches (several seconds) twice in fresh processes: anything driven by the wall clock inside a depth-limited search shows only here
        from vlib import canon_transcript
        vlib.cargo_build_bins()
        for fen, d in (("r3k2r/p1ppqpb1/bn2pnp1/3PN3/1p2P3/2N2Q1p/PPPBBPPP/R3K2R w KQkq - 0 1", 11), ("rnbqkbnr/pppppppp/8/8/8/8/PPPPPPPP/RNBQKBNR w KQkq - 0 1", 10)):
            sc = ["isready", "position fen " + fen, f"go depth {d}", "quit"]
            runs = [vlib.run_engine(sc, "release", timeout=300) for _ in range(2)]
            res.evaluations += 2
            res.count("long_searches_seconds", int(runs[0][4] + runs[1][4]))
            t = [canon_transcript(r[1]) for r in runs]
            if runs[0][0] != 0 or runs[1][0] != 0 or runs[0][3] or runs[1][3]:
                res.fail("a long depth-limited search crashed or did not finish within 300 s", script=sc)
            elif t[0] != t[1]:
                k = next((i for i, (a, b) in enumerate(zip(t[0], t[1])) if a != b), min(len(t[0]), len(t[1])))
                res.fail("repeating the same depth-limited search in a fresh process gave a different info stream (time and nps aside)", script=sc,
                         first=t[0][k] if k < len(t[0]) else "<end>", second=t[1][k] if k < len(t[1]) else "<end>", seconds=[round(runs[0][4], 1), round(runs[1][4], 1)])


def run_C14(res):
    g, pl, sp, co = sizes(res, (10, 60, 50, 30), (100, 120, 1200, 500))
    rnd = random.Random(res.seed)
    gs = games(res, g, pl, sp, co)
    roots = roots_with_history(res, gs, 3, rnd)
    ok = in_domain([p for p, _ in roots])
    roots = [r for r, o in zip(roots, ok) if o]
    legal = legal_oracle([p for p, _ in roots])
    roots = [r for r, l in zip(roots, legal) if l]
    rnd.shuffle(roots)
    roots = roots[: (100 if res.tier == "quick" else 2000)]
    res.coverage["rule"] = ("roots with legal moves; depth limits 1..4: reported depths are exactly 1..D; node limits: no iteration >= 2 is reported once N nodes are spent; "
                            "every limit: best move = head of the last reported pv, scores strictly inside the mate bounds; process level: go movetime / clocks answered within budget + 250 ms")
    reqs, lims = [], []
    for p, h in roots:
        k = rnd.random()
        if k < 0.45:
            lim = ("depth", rnd.choice([1, 2, 3] if res.tier == "quick" else [1, 2, 3, 4, 5]))
        elif k < 0.8:
            lim = ("nodes", rnd.choice([0, 1, 20, 100, 500, 3000]))
        else:
            lim = ("movetime", rnd.choice([0, 0, 1, 5, 15]))
        lims.append(lim)
        reqs.append(f"root {p} {hist_str(h)} 1 {lim[0]} {lim[1]}")
    # roots in check (the check extension raises the local depth at the root) under every kind of limit incl. zero budgets
    chk = run_hx_par(["check " + p for p, _ in roots])
    for (p, h), c in zip(roots, chk):
        if c.split()[0] == "1":
            for lim in (("movetime", 0), ("nodes", 0), ("depth", 1), ("depth", 2)):
                lims.append(lim)
                reqs.append(f"root {p} {hist_str(h)} 1 {lim[0]} {lim[1]}")
                res.count("in_check_roots_x_limits")
    # node limits exactly at (and next to) the cumulative node count at the end of an iteration: the boundary of the node rule
    probe = roots[: (25 if res.tier == "quick" else 400)]
    pr_out = run_hx_par([f"root {p} {hist_str(h)} 1 depth 4" for p, h in probe])
    for (p, h), o in zip(probe, pr_out):
        q = parse_root(o)
        if q["panic"]:
            continue
        for x in q["infos"]:
            if x["depth"] >= 2:
                for n in (x["nodes"], x["nodes"] + 1, x["nodes"] - 1):
                    lims.append(("nodes", n))
                    reqs.append(f"root {p} {hist_str(h)} 1 nodes {n}")
                    res.count("node_limit_at_iteration_boundary")
    impl = run_hx_par(reqs)
    di = [i for i, l in enumerate(lims) if l[0] != "movetime"]
    model = dict(zip(di, run_driver_par([reqs[i] for i in di])))
    for i, r in enumerate(impl):
        res.case(reqs[i], True, {"request": reqs[i][:160], "result": r[:160]})
        pr = parse_root(r)
        if pr["panic"]:
            res.fail("search panicked", request=reqs[i][:300], observed=r[:80])
            continue
        if i in model and model[i] != r:
            res.disagree("search::root::root", reqs[i][:300], r[:300], model[i][:300])
        kind, val = lims[i]
        depths = [x["depth"] for x in pr["infos"]]
        if kind == "depth" and depths != list(range(1, val + 1)):
            res.fail("depth limit: reported iterations are not exactly 1..D", request=reqs[i][:300], limit=val, observed=depths)
        if kind == "nodes":
            late = [x for x in pr["infos"] if x["depth"] >= 2 and x["nodes"] >= val]
            if late or not depths or depths != list(range(1, len(depths) + 1)):
                res.fail("node limit: an iteration after the first was reported after N nodes were spent", request=reqs[i][:300], limit=val,
                         observed=[(x["depth"], x["nodes"]) for x in pr["infos"]])
        if not pr["infos"] or pr["best"] is None or pr["infos"][-1]["pv"][:1] != [pr["best"]]:
            res.fail("best move is not the head of the last reported principal variation", request=reqs[i][:300], best=pr["best"],
                     last_pv=pr["infos"][-1]["pv"] if pr["infos"] else None)
        for x in pr["infos"]:
            if not (-MATE < x["score"] < MATE):
                res.fail("reported score outside the mate bounds", request=reqs[i][:300], observed=x["score"])
    # wall clock at process level (exploration clause)
    vlib.cargo_build_bins()
    fens = run_hx(["fenout " + p for p, _ in roots[:12 if res.tier == "quick" else 60]])
    worst = 0.0
    for f in fens:
        for args, budget in (("movetime 60", 0.060), ("wtime 900 btime 900", 0.9), ("wtime 600 btime 600 movestogo 10", 0.6)):
            # whole-process wall time (incl. start-up and table allocation); scheduling noise is not a violation: a run that
            # overshoots is repeated twice and the best of three counts — a real defect reproduces every time
            best = None
            for _attempt in range(3):
                rc, out, err, to, secs = vlib.run_engine(["isready", "position fen " + f, "go " + args, "quit"], "release", timeout=10)
                best = secs if best is None else min(best, secs)
                if to or "bestmove" not in out or secs - budget <= 0.25:
                    break
            secs = best
            over = secs - budget
            worst = max(worst, over)
            res.evaluations += 1
            if to or "bestmove" not in out:
                res.fail("no bestmove within 10 s for a time-limited search", fen=f, go=args)
            elif over > 0.25:
                res.fail("time-limited search overran its budget by more than 250 ms", fen=f, go=args, seconds=round(secs, 3))
    # boundary clocks: a few milliseconds left, with and without movestogo / increments, either side to move. Whatever the
    # time management does, the answer has to come within the mover's whole remaining clock (+ increment) + 250 ms.
    combos = []
    for clock in (1, 5, 19, 20, 35):
        for extra in ("", " movestogo 0", " movestogo 1", " movestogo 2", " movestogo 40", " winc 10 binc 10"):
            combos.append((clock, extra))
    rnd.shuffle(combos)
    nlow = 0
    for k, (clock, extra) in enumerate(combos[: (14 if res.tier == "quick" else len(combos))]):
        f = fens[k % len(fens)] if fens else None
        if f is None:
            break
        args = f"wtime {clock} btime {clock}{extra}"
        budget = (clock + (10 if "inc" in extra else 0)) / 1000.0
        best = None
        for _attempt in range(3):
            rc, out, err, to, secs = vlib.run_engine(["isready", "position fen " + f, "go " + args, "quit"], "release", timeout=6)
            best = secs if best is None else min(best, secs)
            if to or "bestmove" not in out or secs - budget <= 0.25:
                break
        res.evaluations += 1
        nlow += 1
        worst = max(worst, best - budget)
        if to or "bestmove" not in out:
            res.fail("no bestmove within 6 s for a search on a nearly expired clock", fen=f, go=args)
        elif best - budget > 0.25:
            res.fail("search on a nearly expired clock overran the mover's whole clock by more than 250 ms", fen=f, go=args, seconds=round(best, 3))
    # increments far larger than the clock: whatever the time management does with them, the answer must come within the mover's own
    # remaining clock (+ 250 ms) — the increment is only credited after the move
    for args, clock in (("wtime 600 btime 600 winc 3000 binc 3000 movestogo 1", 0.6), ("wtime 500 btime 500 winc 2000 binc 2000 movestogo 2", 0.5),
                        ("wtime 300 btime 300 winc 5000 binc 5000", 0.3)):
        f = fens[nlow % len(fens)] if fens else None
        if f is None:
            break
        best = None
        for _attempt in range(3):
            rc, out, err, to, secs = vlib.run_engine(["isready", "position fen " + f, "go " + args, "quit"], "release", timeout=10)
            best = secs if best is None else min(best, secs)
            if to or "bestmove" not in out or secs - clock <= 0.25:
                break
        res.evaluations += 1
        nlow += 1
        if to or "bestmove" not in out:
            res.fail("no bestmove within 10 s for a clock-limited search with a large increment", fen=f, go=args)
        elif best - clock > 0.25:
            res.fail("a search with a large increment overran the mover's own remaining clock by more than 250 ms", fen=f, go=args, seconds=round(best, 3))
    res.count("process_level_low_clock_runs", nlow)
    # the deepest recursion the depth cap allows, through the real process (stack depth is outside every model): a blocked pawn ending is
    # searched to depth 120 in about a second; all 120 iterations must be reported and a move played
    for b, dmax in (("release", 120), ("checked", 70)):
        sc = ["isready", "position fen 8/8/4k3/p1p1p1p1/P1P1P1P1/8/4K3/8 w - - 0 1", f"go depth {dmax}", "quit"]
        rc, out, err, to, secs = vlib.run_engine(sc, b, timeout=120)
        res.evaluations += 1
        res.count("process_level_deep_recursion_runs")
        depths = [int(x) for x in re.findall(r"^info depth (\d+) ", out, re.M)]
        if to or rc != 0 or "bestmove" not in out:
            res.fail("a deep depth-limited search did not finish with a move (crash, stack overflow or hang)", script=sc, build=b, exit_status=rc,
                     last_depth_reported=depths[-1] if depths else None, stderr=err[-200:])
        elif depths != list(range(1, dmax + 1)):
            res.fail("depth limit: reported iterations are not exactly 1..D", script=sc, build=b, limit=dmax, observed=depths[-5:])
    res.coverage["max_overshoot_s_incl_process_startup"] = round(worst, 3)
    res.notes.append("the wall-clock clause is exploration: the model has a stop oracle, not a clock")


def match_F10(f):
    return f.get("what") == "depth limit: reported iterations are not exactly 1..D" and f.get("limit", 0) >= 128


# ------------------------------------------------------------------ C12
def minor_piece_mates():
    """mate-in-one roots with kings and one minor piece a side (K+B v K+N, K+B v K+B): the cornered king hemmed in by its own minor piece;
    all eight board symmetries, both colours, every origin square of the mating bishop"""
    out = []
    for blocker in "nb":
        for org in ("c8", "c6", "d5", "e4", "f3", "g2", "h1", "a6"):
            board = {"a8": "k", "b8": blocker, "b6": "K", org: "B"}
            for sym in range(8):
                def tr(sq):
                    f, r = "abcdefgh".index(sq[0]), int(sq[1]) - 1
                    if sym & 1:
                        f = 7 - f
                    if sym & 2:
                        r = 7 - r
                    if sym & 4:
                        f, r = r, f
                    return f, r
                g = [[None] * 8 for _ in range(8)]
                for sq, pc in board.items():
                    f, r = tr(sq)
                    g[r][f] = pc
                rows = []
                for r in range(7, -1, -1):
                    row, e = "", 0
                    for f in range(8):
                        if g[r][f] is None:
                            e += 1
                        else:
                            row += (str(e) if e else "") + g[r][f]
                            e = 0
                    rows.append(row + (str(e) if e else ""))
                fen = "/".join(rows) + " w - - 0 1"
                out.append(fen)
                out.append(flip_fen_colour(fen))
    return out


def run_C12(res):
    rnd = random.Random(res.seed)
    n = 12000 if res.tier == "quick" else 200000
    # gmate answers with several lines per request: one driver process per request
    import concurrent.futures
    with concurrent.futures.ThreadPoolExecutor(16) as ex:
        chunks = list(ex.map(lambda i: run_driver([f"gmate {res.seed * 31 + i} {n // 16} {1 if i % 4 == 3 else 0}"]), range(16)))
    ps = [l for ch in chunks for l in ch if l and l != "bad-op"]
    with concurrent.futures.ThreadPoolExecutor(16) as ex:
        chunks = list(ex.map(lambda i: run_driver([f"gmateu {res.seed * 17 + i} {1500 if res.tier == 'quick' else 30000}"]), range(16)))
    under = [l for ch in chunks for l in ch if l and l != "bad-op"]
    res.count("mates_by_underpromotion", len(under))
    ps = under[: (40 if res.tier == "quick" else 800)] + ps
    minor = [l for l in run_driver(["feninw " + f for f in minor_piece_mates()]) if l not in ("PANIC", "bad-op")]
    random.Random(res.seed + 77).shuffle(minor)          # its own stream: the draws made for the other roots stay what they were
    minor = minor[: (40 if res.tier == "quick" else 400)]
    res.count("minor_piece_corner_mates", len(minor))
    gs = games(res, 6 if res.tier == "quick" else 60, 80, 0, 200)
    cand = [p for g in gs for p in g]
    # mates in one met in playouts / test FENs as well
    legal = run_hx_par(["moves " + p for p in cand])
    res.coverage["rule"] = ("mate-in-one positions mined from constructed positions, playouts and /repo's test FENs (clock < 99); depth 1..4; tables fresh or left by "
                            "earlier real searches of the root at another depth, of a successor, or of another mate position; oracle = Spec: returned move mates, last score = MATE_SCORE-1")
    ps = list(dict.fromkeys(ps))
    ok = in_domain(ps)
    ps = [p for p, o in zip(ps, ok) if o][: (150 if res.tier == "quick" else 3000)]
    # the edge of the quantifier: the same mate positions with the fifty-move counter just below 99 (the key does not depend on it)
    edge = []
    for p in ps[: (60 if res.tier == "quick" else 1000)]:
        edge.append(str(Pos(p).with_(halfmoves=rnd.choice([98, 98, 97, 90]))))
    res.count("roots_with_clock_90_to_98", len(edge))
    okm = in_domain(minor)
    ps = list(dict.fromkeys(ps + edge + [p for p, o in zip(minor, okm) if o]))     # appended last: earlier roots keep their tables and depths
    roots = [(p, [Pos(p).hash]) for p in ps]
    tts = prefilled_tables(res, roots, rnd, depth=2)
    reqs = []
    for (p, h), tt in zip(roots, tts):
        d = rnd.choice([1, 2, 3] if res.tier == "quick" else [1, 2, 3, 4])
        reqs.append(f"root {p} {hist_str(h)} {tt if rnd.random() < 0.6 else '1'} depth {d}")
    impl = run_hx_par(reqs)
    model = run_driver_par(reqs)
    compare(res, "search::root::root", reqs, impl, model)
    adversarial_tables_C12(res, ps, rnd)
    best = []
    for i, r in enumerate(impl):
        pr = parse_root(r)
        best.append(None if pr["panic"] or pr["best"] is None else tuple(int(x) for x in pr["best"].split(":")))
    succ = successors([(ps[i], b) for i, b in enumerate(best) if b is not None])
    it = iter(succ)
    succ_by_i = {i: next(it) for i, b in enumerate(best) if b is not None}
    sm = dict(zip(succ_by_i, run_driver_par(["smoves " + s for s in succ_by_i.values()])))
    sc = dict(zip(succ_by_i, run_driver_par(["scheck " + s for s in succ_by_i.values()])))
    for i, r in enumerate(impl):
        res.case(reqs[i], True, {"request": reqs[i][:200], "result": r[:100]})
        res.count("table_prefilled" if " 1;" in reqs[i] else "table_fresh")
        pr = parse_root(r)
        if pr["panic"] or best[i] is None:
            res.fail("search failed on a mate-in-one position", request=reqs[i][:300], observed=r[:80])
            continue
        if not (sm[i] == "-" and sc[i].split()[0] == "1"):
            res.fail("a mate in one exists but the returned move does not checkmate", request=reqs[i][:400], observed=pr["best_uci"])
        if pr["infos"][-1]["score"] != MATE - 1:
            res.fail("last reported score is not the mate-in-one score", request=reqs[i][:400], observed=pr["infos"][-1]["score"])


# ------------------------------------------------------------------ C11
def reversible(P, m):
    return not ((P.c1 >> m[1]) & 1 or (P.c0 >> m[1]) & 1 or (P.piece(0) >> m[0]) & 1 or m[2] != 6)


def build_repetition_roots(res, cands, rnd):
    """R' with exactly one (reversible) legal move m; X = R'.m ; game X -a-> Y -m^-1-> Z -a^-1-> R' ;
    the root R' then has its only successor X already in the history (at clock 0 when X starts the game)."""
    out = []
    legal = run_hx_par(["moves " + p for p in cands])
    sel = []
    for p, ml in zip(cands, legal):
        ms = parse_moves(ml)
        if len(ms) == 1 and reversible(Pos(p), ms[0]):
            sel.append((p, ms[0]))
    xs = successors(sel)
    for (r, m), x in zip(sel, xs):
        if x in ("PANIC", "DIED"):
            continue
        X = Pos(x)
        amoves = [a for a in parse_moves(run_hx([f"moves {x}"])[0]) if reversible(X, a)]
        rnd.shuffle(amoves)
        for a in amoves[:6]:
            y = run_hx([f"make {x} {a[0]} {a[1]} {a[2]} 1"])[0]
            minv = (m[1], m[0], 6)
            if minv not in parse_moves(run_hx([f"moves {y}"])[0]):
                continue
            z = run_hx([f"make {y} {minv[0]} {minv[1]} 6 1"])[0]
            ainv = (a[1], a[0], 6)
            if ainv not in parse_moves(run_hx([f"moves {z}"])[0]):
                continue
            r2 = run_hx([f"make {z} {ainv[0]} {ainv[1]} 6 1"])[0]
            if Pos(r2).hash != Pos(r).hash or Pos(r2).t[:8] != Pos(r).t[:8]:
                continue
            for start_clock in (0, rnd.choice([1, 3, 10])):
                hm = start_clock
                keys = [X.hash, Pos(y).hash, Pos(z).hash, Pos(r2).hash]
                root = str(Pos(r2).with_(halfmoves=hm + 3))
                out.append((root, keys, f"repetition(start clock {start_clock})"))
            break
    return out


def run_C11(res):
    rnd = random.Random(res.seed)
    n = 4000 if res.tier == "quick" else 80000
    sparse = [l for l in run_driver([f"gsparse {res.seed} {n} 0"]) if l and l != "bad-op"]
    gs = games(res, 10 if res.tier == "quick" else 100, 100, 0, 0)
    pool = list(dict.fromkeys(sparse + [p for g in gs for p in g]))
    res.coverage["rule"] = ("(a) roots without legal captures or pawn moves and no mating move, clock set to 99; (b) roots whose only move returns to a position already in a legally "
                            "played history (earlier occurrence at clock 0 and at clock >= 1); empty 1 MB table; depth 2..4; oracle: every info from depth 2 (depth 1 if in check) "
                            "scores -DRAW_SCORE = the same constant, best move legal")
    # (a) fifty-move roots
    legal = run_hx_par(["moves " + p for p in pool])
    fifty = []
    for p, ml in zip(pool, legal):
        ms = parse_moves(ml)
        if ms and all(reversible(Pos(p), m) or (Pos(p).c0 >> m[1]) & 1 for m in ms) and not any((Pos(p).piece(0) >> m[0]) & 1 for m in ms) \
                and not any((Pos(p).c1 >> m[1]) & 1 for m in ms):
            fifty.append((p, ms))
    rnd.shuffle(fifty)
    fifty = fifty[: (120 if res.tier == "quick" else 2500)]
    # exclude roots with a mating move
    sm = successors([(p, m) for p, ms in fifty for m in ms])
    smoves = run_driver_par(["moves " + s for s in sm])
    schk = run_hx_par(["check " + s for s in sm])
    k = 0
    cases = []
    for p, ms in fifty:
        mate = False
        for m in ms:
            if smoves[k] == "-" and schk[k].split()[0] == "1":
                mate = True
            k += 1
        if not mate:
            P = Pos(p).with_(halfmoves=99)
            cases.append((str(P), [P.hash], "fifty-move"))
    reps = build_repetition_roots(res, pool[: (2500 if res.tier == "quick" else 40000)], rnd)
    cases += reps
    ok = in_domain([c[0] for c in cases])
    cases = [c for c, o in zip(cases, ok) if o]
    chk = run_hx_par(["check " + c[0] for c in cases])
    reqs = [f"root {p} {hist_str(h)} 1 depth {rnd.choice([2, 3] if res.tier == 'quick' else [2, 3, 4, 5])}" for p, h, tag in cases]
    impl = run_hx_par(reqs)
    model = run_driver_par(reqs)
    compare(res, "search::root::root", reqs, impl, model)
    legal = legal_oracle([c[0] for c in cases])
    consts = set()
    for i, r in enumerate(impl):
        p, h, tag = cases[i]
        res.case(reqs[i], True, {"root": p, "history": h, "kind": tag, "result": r[:120]})
        res.count("roots_" + tag.split("(")[0])
        pr = parse_root(r)
        if pr["panic"] or pr["best"] is None or pr["best"] not in legal[i]:
            res.fail("search did not return a legal move on an all-successors-drawn root", root=p, history=h, kind=tag, observed=r[:80])
            continue
        first = 1 if chk[i].split()[0] == "1" else 2
        for x in pr["infos"]:
            if x["depth"] >= first:
                consts.add(x["score"])
                if x["score"] != 50:
                    res.fail("an iteration from depth 2 on does not report the draw score although every move leads to a rule draw", root=p, history=h,
                             kind=tag, depth=x["depth"], observed=x["score"], expected=50)
    res.coverage["draw_score_constants_seen"] = sorted(consts)
    uci_level_C11(res, rnd)


SQN = lambda f, r: "abcdefgh"[f] + str(r + 1)


def flip_fen_colour(fen):
    b, side, ca, ep, h, fm = fen.split()
    rows = b.split("/")[::-1]
    return " ".join(["/".join(r.swapcase() for r in rows), "b" if side == "w" else "w", ca, ep, h, fm])


def flip_move(m):
    return m[0] + str(9 - int(m[1])) + m[2] + str(9 - int(m[3])) + m[4:]


def long_tour_scripts(rnd, tier):
    """UCI-level histories for C11's `any length` clause: a king tours a closed path of odd length n while the other king, caged,
    shuttles between two squares with exactly one legal move each time. After 4n-1 plies (59 … 75) the mover's only move recreates the
    position of ply 0, whose single earlier occurrence is 4n-1 plies old and still inside the fifty-move window."""
    tours = [["a1", "b1", "c1", "d1", "e1", "f1", "g1", "h1", "h2", "g2", "f2", "e2", "d2", "c2", "b2"],
             ["a1", "b1", "c1", "d1", "e1", "f1", "g1", "h1", "h2", "g2", "f2", "e2", "d2", "d3", "c3", "c2", "b2"],
             ["a1", "b1", "c1", "d1", "e1", "f1", "g1", "h1", "h2", "h3", "g3", "g2", "f2", "e2", "d2", "d3", "c3", "c2", "b2"]]
    out = []
    for tour in tours:
        n = len(tour)
        for h0 in ((0, 13) if tier == "quick" else (0, 1, 13, 98 - (4 * n - 1))):
            if h0 + 4 * n - 1 > 98:
                continue
            fen = f"7k/8/5PP1/8/8/B7/8/K7 w - - {h0} 40"
            moves = []
            for k in range(2 * n):
                moves.append(tour[k % n] + tour[(k + 1) % n])
                moves.append("h8g8" if k % 2 == 0 else "g8h8")
            # two laps (4n plies; n is odd) return to the start; the root is one ply earlier (the caged king to move, exactly one legal move)
            moves = moves[:-1]
            only = "g8h8"
            for flipped in (False, True):
                f2, m2, o2 = (flip_fen_colour(fen), [flip_move(m) for m in moves], flip_move(only)) if flipped else (fen, moves, only)
                for prefix in ((False, True) if tier != "quick" or h0 == 0 else (False,)):
                    if prefix:
                        # an irreversible pawn move in front of the tour: the history reaches back beyond the last pawn move
                        pf = "6k1/8/6P1/5P2/8/B7/8/K7 w - - 7 39"
                        pm = ["f5f6", "g8h8"]
                        if flipped:
                            pf, pm = flip_fen_colour(pf), [flip_move(m) for m in pm]
                        fen3, mv3 = pf, pm + m2
                    else:
                        fen3, mv3 = f2, m2
                    d = rnd.choice([2, 3, 4])
                    out.append((["isready", f"position fen {fen3} moves " + " ".join(mv3), f"go depth {d}", "quit"], o2, 4 * n - 1))
    # short cycles played several times: the root itself is a 2nd / 3rd / 4th occurrence and its only move recreates a position that
    # has occurred as often
    for reps in (1, 2, 3, 4):
        for flipped in (False, True):
            fen = "7k/8/5PP1/8/8/B7/8/K7 w - - 3 40"
            cyc = ["a1b1", "h8g8", "b1a1", "g8h8"]
            moves = (cyc * reps)[:-1]
            only = "g8h8"
            if flipped:
                fen, moves, only = flip_fen_colour(fen), [flip_move(m) for m in moves], flip_move(only)
            out.append((["isready", f"position fen {fen} moves " + " ".join(moves), f"go depth {rnd.choice([2, 3, 4])}", "quit"], only, 4 * reps - 1))
    return out


def uci_level_C11(res, rnd):
    from props_uci import process_compare
    scripts = long_tour_scripts(rnd, res.tier)
    vlib.cargo_build_bins()
    process_compare(res, [sc for sc, _, _ in scripts], "UCI transcript of a long reversible tour")
    for sc, only, plies in scripts:
        for b in ("release", "checked"):
            rc, out, err, to, secs = vlib.run_engine(sc, b, timeout=30)
            res.evaluations += 1
            res.count("uci_long_tour_runs")
            res.case(" | ".join(sc)[:200] + b, True, {"script": sc, "build": b, "plies_since_the_repeated_position": plies})
            if to or rc != 0:
                continue                      # reported by process_compare
            scores = [(int(m.group(1)), int(m.group(2))) for m in re.finditer(r"info depth (\d+) .*?score cp (-?\d+)", out)]
            best = re.search(r"bestmove (\S+)", out)
            if not best or best.group(1) != only:
                res.fail("search did not return the (only) legal move after a long reversible tour", script=sc, build=b,
                         observed=best.group(1) if best else None, expected=only)
            for d, sc_ in scores:
                if d >= 2 and sc_ != 50:
                    res.fail("an iteration from depth 2 on does not report the draw score although the only move recreates a position of the game "
                             "(UCI level; plies since that position: see the case)", script=sc, build=b, depth=d, observed=sc_, expected=50)
            if not any(d >= 2 for d, _ in scores):
                res.fail("no iteration of depth >= 2 reported", script=sc, build=b)


def match_F6(f):
    return f.get("what", "").startswith("an iteration from depth 2 on does not report the draw score") and f.get("kind") == "repetition(start clock 0)"


# ------------------------------------------------------------------ C19
def underpromo_check_fens(rnd, n):
    """a promotion-capture whose KNIGHT promotion gives check while another piece of the mover hangs: the under-promotion is then the
    best capture (the checked side may only stand pat or answer the check), so a capture tree that leaves non-queen promotions out has
    a different value. Pawn on the seventh, a capturable piece diagonally in front of it, the enemy king a knight's move from that
    square, the mover's queen attacked by an enemy knight. Both colours. (Fourteenth round, k1.)"""
    out = []
    kn = [(1, 2), (2, 1), (-1, 2), (-2, 1), (1, -2), (2, -1), (-1, -2), (-2, -1)]
    tries = 0
    while len(out) < 2 * n and tries < 200 * n:
        tries += 1
        board = {}
        f = rnd.randrange(8)
        tf = f + rnd.choice([-1, 1])
        if not 0 <= tf < 8:
            continue
        board[(6, f)] = "P"
        board[(7, tf)] = rnd.choice("rrnbq")
        ks = [(7 + dr, tf + df) for dr, df in kn if 0 <= 7 + dr < 8 and 0 <= tf + df < 8 and (7 + dr, tf + df) not in board]
        if not ks:
            continue
        bk = rnd.choice(ks)
        board[bk] = "k"
        free = [(r, c) for r in range(0, 6) for c in range(8) if (r, c) not in board and max(abs(r - bk[0]), abs(c - bk[1])) > 1]
        q = rnd.choice(free)
        ns = [(q[0] + dr, q[1] + df) for dr, df in kn if 0 <= q[0] + dr < 8 and 0 <= q[1] + df < 8 and (q[0] + dr, q[1] + df) not in board]
        if not ns:
            continue
        board[q] = rnd.choice("QQR")
        board[rnd.choice(ns)] = "n"
        free = [x for x in free if x not in board and max(abs(x[0] - bk[0]), abs(x[1] - bk[1])) > 1]
        if not free:
            continue
        board[rnd.choice(free)] = "K"
        for _ in range(rnd.randrange(0, 3)):            # a little noise that cannot move into the picture much: pawns
            x = (rnd.randrange(1, 6), rnd.randrange(8))
            if x not in board:
                board[x] = rnd.choice("Pp")
        for flip in (False, True):
            rows = []
            for r in range(7, -1, -1):
                row, gap = "", 0
                for c in range(8):
                    ch = board.get((7 - r, c) if flip else (r, c))
                    if ch is None:
                        gap += 1
                    else:
                        row += (str(gap) if gap else "") + (ch.swapcase() if flip else ch)
                        gap = 0
                rows.append(row + (str(gap) if gap else ""))
            out.append("/".join(rows) + (" b" if flip else " w") + " - - 0 1")
    return out


def capture_rich_fens(rnd, n):
    """positions with very many legal captures: pawns on the seventh between pieces on the eighth (every capture counts four times, once
    per promotion piece), plus a few attackers and targets elsewhere; both colours"""
    out = []
    for _ in range(n):
        board = [[None] * 8 for _ in range(8)]          # board[rank][file], rank 0 = first rank
        calm = rnd.random() < 0.6       # only knights as targets and no extra officers: the other side has (almost) no recapture, the tree stays tiny
        if rnd.random() < 0.6:
            par = rnd.randrange(2)
            files7 = [f for f in range(8) if f % 2 == par]              # alternating: every pawn between two targets
            dens = 0.95
        else:
            files7 = [f for f in range(8) if rnd.random() < 0.6]
            dens = 0.75
        heavy = rnd.randrange(8) if rnd.random() < 0.7 else -1       # one target on the eighth worth more than the others
        for f in files7:
            board[6][f] = "P"
        for f in range(8):
            if f not in files7 and rnd.random() < dens:
                board[7][f] = (rnd.choice("rq") if f == heavy or f == heavy + 1 else "n") if calm else rnd.choice("nnnbrq")
        # one or two more rows of pawns facing minor pieces in mid-board (one capture each way)
        for _ in range(rnd.randrange(0, 3)):
            r = rnd.randrange(1, 5)
            par = rnd.randrange(2)
            for f in range(8):
                if board[r][f] is None and board[r + 1][f] is None:
                    if f % 2 == par:
                        board[r][f] = "P" if rnd.random() < 0.8 else None
                    else:
                        board[r + 1][f] = ("n" if calm else rnd.choice("nnb")) if rnd.random() < 0.8 else None
        free = [(r, f) for r in range(0, 6) for f in range(8) if board[r][f] is None]
        rnd.shuffle(free)
        if len(free) < 10:
            continue
        (wr, wf), (br, bf) = free.pop(), free.pop()
        board[wr][wf], board[br][bf] = "K", "k"
        for _ in range(rnd.randrange(0, 3 if calm else 7)):
            r, f = free.pop()
            board[r][f] = rnd.choice("BNn" if calm else ("QRBNnnbp" if 0 < r < 7 else "QRBNnnb"))
        rows = []
        for r in range(7, -1, -1):
            row, e = "", 0
            for f in range(8):
                if board[r][f] is None:
                    e += 1
                else:
                    row += (str(e) if e else "") + board[r][f]
                    e = 0
            rows.append(row + (str(e) if e else ""))
        fen = "/".join(rows) + " w - - 0 1"
        if rnd.random() < 0.5:
            fen = flip_fen_colour(fen)
        out.append(fen)
    return out


def run_C19(res):
    g, pl, sp, co = sizes(res, (12, 70, 1500, 300), (200, 120, 40000, 3000))
    rnd = random.Random(res.seed)
    ps = gen_positions(res, g, pl, sp, co)
    # promotion-captures are the largest single gains a capture tree contains (margin-based prunings are calibrated on a queen):
    # a dedicated batch of pawn-on-the-seventh patterns next to back-rank pieces, kept in front of the shuffle below
    npro = 150 * res.escalate if res.tier == "quick" else 1500
    promo = [l for l in run_driver([f"gpattern {res.seed + 31} 2 {npro} 0", f"gpattern {res.seed + 32} 2 {npro // 3} 1"]) if l and l != "bad-op"]
    promo = list(dict.fromkeys(promo))
    upc = [l for l in run_driver(["feninw " + f for f in underpromo_check_fens(rnd, 40 * res.escalate if res.tier == "quick" else 600)])
           if l not in ("PANIC", "bad-op") and len(l.split()) > 10]
    res.count("underpromotion_with_check_positions", len(upc))
    promo = upc + promo
    # capture-rich nodes (more than 20 / 32 / 40 legal captures): keep those the generator likes best
    rich = [l for l in run_driver(["feninw " + f for f in capture_rich_fens(rnd, 3000 * res.escalate if res.tier == "quick" else 40000)])
            if l not in ("PANIC", "bad-op")]
    ncap = [0 if c in ("PANIC", "DIED") else (0 if c.strip() == "-" else len(c.split())) for c in run_hx_par(["caps " + p for p in rich])]
    rich = [p for p, k in sorted(zip(rich, ncap), key=lambda x: -x[1]) if k >= 20][: (160 if res.tier == "quick" else 4000)]
    okr = in_domain(rich)
    rich = [p for p, o in zip(rich, okr) if o]
    # only those whose whole capture tree the budgeted specification minimax can enumerate (nothing unbounded is ever sent to the engine)
    small = run_driver_par([f"sqmin {p} 2500" for p in rich])
    rich = [p for p, v in zip(rich, small) if v != "BIG"][: (120 if res.tier == "quick" else 1500)]
    rich_set = set(rich)
    res.count("capture_rich_positions_20_plus_captures", len(rich))
    caps_of = dict(zip([l for l in rich], [0] * len(rich)))
    res.count("capture_rich_positions_33_plus_captures_generated", sum(1 for k in ncap if k >= 33))
    # simultaneous pins (a capture that leaves a pin line is an illegal capture: the tree searched is then not the capture tree)
    pins = [l for l in run_driver([f"gpattern {res.seed + 33} 3 {600 * res.escalate if res.tier == 'quick' else 8000} 0"]) if l and l != "bad-op"]
    pins = [p for p, c in zip(pins, run_hx_par(["caps " + p for p in pins])) if c not in ("PANIC", "DIED") and c.strip() != "-"]
    res.count("pin_pattern_positions_with_captures", len(pins))
    promo = rich + pins[: (250 if res.tier == "quick" else 3000)] + promo
    ps = promo + [p for p in ps if p not in set(promo)]
    ok = in_domain(ps)
    ps = [p for p, o in zip(ps, ok) if o]
    promo = set(promo)
    res.coverage["rule"] = ("positions whose capture tree has <= 3000 qsearch nodes; exact value by plain minimax over Spec captures/successors with the engine evaluation; "
                            "windows: full, around v, excluding v below and above (by 1 … 1600), width 1, and windows placed relative to the static evaluation "
                            "(eval + 100 … 2000); non-trivial = the position has at least one legal capture")
    # quiescence has no depth bound: a constructed position with many mutually attacking pieces has an astronomically large capture
    # tree. Keep positions with at most 16 men or at most 4 legal captures (the playout positions are kept by the second test mostly).
    feats = run_driver_par(["feat " + p for p in ps])
    ps = [p for p, f in zip(ps, feats)
          if p in rich_set or bin(Pos(p).c0 | Pos(p).c1).count("1") <= 16 or int(dict(kv.split("=") for kv in f.split())["caps"]) <= 4]
    full = run_hx_par([f"qs {p} -10000000 10000000" for p in ps])
    keep = [(p, f) for p, f in zip(ps, full) if f not in ("PANIC", "DIED") and int(f.split()[1]) <= 3000]
    rnd.shuffle(keep)
    keep.sort(key=lambda k: k[0] not in promo)            # the promotion patterns first (stable: the rest stays shuffled)
    npk = sum(1 for k in keep if k[0] in promo)
    keep = keep[: (400 if res.tier == "quick" else 3000) + min(npk, 450 if res.tier == "quick" else 4000)]
    res.count("promotion_pattern_positions", min(npk, len(keep)))
    exact = run_driver_par([f"sqmin {p} {1200 if res.tier == 'quick' else 2000}" for p, _ in keep])
    res.count("capture_trees_too_big_skipped", sum(1 for v in exact if v == "BIG"))
    pairs = [(k, v) for k, v in zip(keep, exact) if v != "BIG"]
    keep = [k for k, v in pairs]
    reqs, meta = [], []
    evs = run_hx_par(["eval " + p for (p, f), v in pairs])
    for ((p, f), v), ev in zip(pairs, evs):
        v = int(v)
        if int(f.split()[0]) != v:
            res.fail("full-window quiescence value differs from the minimax value of the capture tree", position=p, observed=f.split()[0], expected=v)
        d = rnd.choice([1, 5, 30, 200])
        d2 = rnd.choice([100, 400, 800, 1600])
        wins = [(v - d, v + d), (v + 1, v + 1 + d), (v - 1 - d, v - 1), (v - 1, v), (v, v + 1), (v - 1, v + 1),
                (v - 1 - d2, v - 1), (v + 1, v + 1 + d2)]
        try:
            sp = int(ev.split()[0])
            for mg in rnd.sample([100, 200, 300, 500, 700, 900, 1000, 1200, 1300, 1500, 2000], 3):
                wins.append((sp + mg, sp + mg + 1))
                wins.append((sp - mg - 1, sp - mg))
            wins.append((sp + rnd.choice([900, 1200, 1500]), 10000000))
        except ValueError:
            pass
        for a, b in dict.fromkeys(wins):
            reqs.append(f"qs {p} {a} {b}")
            meta.append((p, a, b, v))
        # the value does not depend on the ply the node sits at (only seldepth does): the same node entered deep in a line
        ply = rnd.choice([1, 7, 63, 100, 126, 127, 128, 129, 200, 1000])
        reqs.append(f"qs {p} -10000000 10000000 {ply}")
        meta.append((p, -10000000, 10000000, v))
    impl = run_hx_par(reqs)
    model = run_driver_par(reqs)
    compare(res, "qsearch", reqs, impl, model)
    ic = run_hx_par(reqs, "checked")
    for (p, a, b, v), r, rc in zip(meta, impl, ic):
        nontriv = True
        res.case(f"{p}|{a}|{b}", nontriv, {"position": p, "window": [a, b], "exact": v, "result": r})
        if r in ("PANIC", "DIED") or rc != r:
            res.fail("qsearch panicked / tripped a debug assertion", position=p, window=[a, b], observed=(r, rc))
            continue
        s = int(r.split()[0])
        if a < v < b and s != v:
            res.fail("exact value inside the window but qsearch returned something else", position=p, window=[a, b], exact=v, observed=s)
        if s <= a and not v <= s:
            res.fail("fail-low result is not an upper bound of the exact value", position=p, window=[a, b], exact=v, observed=s)
        if s >= b and not s <= v:
            res.fail("fail-high result is not a lower bound of the exact value", position=p, window=[a, b], exact=v, observed=s)
    res.count("positions", len(keep))


def adversarial_tables_C12(res, ps, rnd):
    """F12: a table entry stored under the key of a MATED successor (exact flag, deep, score 0). The engine never stores such an
    entry itself (a mated node returns before the store), so it can only arise from a 64-bit key collision; the property however
    quantifies over arbitrarily pre-filled tables."""
    sample = ps[: (12 if res.tier == "quick" else 200)]
    legal = run_hx_par(["moves " + p for p in sample])
    items = [(p, m) for p, ml in zip(sample, legal) for m in parse_moves(ml)]
    succ = successors(items)
    sm = run_driver_par(["moves " + s for s in succ])
    sc = run_hx_par(["check " + s for s in succ])
    mated = {}
    for (p, m), s, a, c in zip(items, succ, sm, sc):
        if a == "-" and c.split()[0] == "1":
            mated.setdefault(p, []).append((m, Pos(s).hash))
    reqs, meta = [], []
    for p, lst in mated.items():
        tt = "1;" + ";".join(f"{h},{h},0,0,0,0,100,0" for _, h in lst)
        reqs.append(f"root {p} {Pos(p).hash} {tt} depth {rnd.choice([1, 2])}")
        meta.append((p, {fmt_mv(m) for m, _ in lst}))
    impl = run_hx_par(reqs)
    model = run_driver_par(reqs)
    compare(res, "search::root::root (adversarial table)", reqs, impl, model)
    for (p, mates), r, rq in zip(meta, impl, reqs):
        res.case(rq, True)
        res.count("adversarial_table_runs")
        pr = parse_root(r)
        if pr["panic"] or pr["best"] is None:
            res.fail("search failed on a mate-in-one position", request=rq[:300], observed=r[:80])
        elif pr["best"] not in mates or pr["infos"][-1]["score"] != MATE - 1:
            res.fail("a mate in one exists but is not played / not scored as mate", request=rq[:400], observed=(pr["best_uci"], pr["infos"][-1]["score"]),
                     adversarial_entry_under_mated_child_key=True)


def match_F12(f):
    return f.get("adversarial_entry_under_mated_child_key") is True


PROPS = {
    "C03": {"run": run_C03, "matchers": {"F2": match_F2}},
    "C11": {"run": run_C11, "matchers": {"F6": match_F6}},
    "C12": {"run": run_C12, "matchers": {"F12": match_F12}},
    "C13": {"run": run_C13},
    "C14": {"run": run_C14, "matchers": {"F10": match_F10}},
    "C19": {"run": run_C19},
}
