#!/bin/bash
# confirm_mutant.sh <id> <worktree> : verify a seeded change independently in a scratch worktree:
#  - patch applies and builds; the existing suite (minus the 7 always-slow perft tests) passes with it;
#  - the demonstration fails with the patch and passes without it.
id=$1; wt=$2; src=/tmp/mut/$id
cd $wt || exit 2
git checkout -q -- . ; rm -f tests/seed_demo.rs
out=$src/confirm.log; : > $out
git apply $src/patch.diff || { echo "APPLY-FAIL" | tee -a $out; exit 1; }
cargo build --offline >> $out 2>&1 || { echo "BUILD-FAIL" | tee -a $out; git checkout -q -- .; exit 1; }
cargo build --release --offline >> $out 2>&1
if cargo test --workspace --no-fail-fast --offline -- --skip perft_4 --skip perft_5 --skip perft_6 --skip perft_960_3 --skip perft_960_4 --skip perft_960_5 --skip perft_960_6 >> $out 2>&1; then echo "SUITE-PASS-WITH-PATCH" | tee -a $out; else echo "SUITE-FAIL-WITH-PATCH" | tee -a $out; fi
demo_run() {
  if [ -f $src/demo/seed_demo.rs ]; then cp $src/demo/seed_demo.rs tests/seed_demo.rs; cargo test --offline --test seed_demo >> $out 2>&1; r=$?; rm -f tests/seed_demo.rs; return $r
  else sh=$(ls $src/demo/*.sh 2>/dev/null | head -1); [ -n "$sh" ] && (cd $wt && bash $sh >> $out 2>&1); return $?; fi
}
demo_run; a=$?
git checkout -q -- .
cargo build --offline >> $out 2>&1; cargo build --release --offline >> $out 2>&1
demo_run; b=$?
echo "DEMO with-patch rc=$a without-patch rc=$b" | tee -a $out
[ $a -ne 0 ] && [ $b -eq 0 ] && echo "CONFIRMED $id" | tee -a $out
