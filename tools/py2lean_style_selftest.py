#!/usr/bin/env python3
"""Mutation self-test of tools/py2lean_style.py + lean/Rawr/Proofs/PyStyleAgree*.lean   (property C20).

For each single-node mutation of a translated function of tools/style/style.py (comparison operator flips, off-by-one
constants, swapped operands, changed weights, removed guards, swapped fields / callees ...) applied to a scratch COPY
of the script (never /repo): re-run the translator (RAWR_REPO = the copy, output into a PRIVATE copy of the lake
project) and rebuild the agreement theorems.  A mutant is DETECTED when the translator reports TRANSLATE-ERROR or an
agreement file no longer compiles.  Every behaviour-changing mutant ("B") must be detected; behaviour-neutral ones
("N": message texts, labels, reordering that cannot be observed, algebraically equal rewrites) may or may not be flagged.

usage: py2lean_style_selftest.py [--repo /repo] [--lean /tmp/agents/t4/lean] [--translator tools/py2lean_style.py]
                                 [--work /tmp/py2lean_style_selftest] [--only N,M,..] [--timeout 600] [--jobs 4]
The lake project given by --lean is modified (Rawr/Generated/PyStyle.lean) and restored at the end; with --jobs > 1
further private copies of it are made under --work.  Never point --lean at the shared /verif/lean.
"""
import argparse
import os
import shutil
import subprocess
import sys
import threading
import time

HERE = os.path.dirname(os.path.abspath(__file__))
TARGETS = ["Rawr.Proofs.PyStyleAgree", "Rawr.Proofs.PyStyleAgree_Game"]
STYLE = "tools/style/style.py"

# (old text, new text, kind[, occurrence])   kind: "B" behaviour-changing (must be detected), "N" behaviour-neutral
M = [
    # ---- class Stats: fields and defaults
    ("    num_wins: int = 0", "    num_wins: int = 1", "B"),
    ("    capture_distance: list[int] = field(default_factory=[0 for _ in range(0, 8)].copy)",
     "    capture_distance: list[int] = field(default_factory=[0 for _ in range(0, 7)].copy)", "B"),
    ("[0 for _ in range(1024)].copy)", "[0 for _ in range(1023)].copy)", "B"),
    ("[0 for _ in range(207)].copy)", "[0 for _ in range(206)].copy)", "B"),
    ("    noncapture_distance: list[int] = field(default_factory=[0 for _ in range(0, 8)].copy)",
     "    noncapture_distance: list[int] = field(default_factory=[1 for _ in range(0, 8)].copy)", "B"),
    ("    castle_never: int = 0\n", "", "B"),
    ("    castle_never: int = 0\n", "    castle_never: int = 0\n    castle_extra: int = 0\n", "B"),
    ("    num_wins: int = 0\n    num_draws: int = 0\n", "    num_draws: int = 0\n    num_wins: int = 0\n", "N"),
    ("    late_pawn_pushes: list[int] = field(default_factory=[0 for _ in range(0, 8)].copy)",
     "    late_pawn_pushes: list[int] = field(default_factory=list)", "B"),
    ("    mid_pawn_pushes: list[int] = field(default_factory=[0 for _ in range(0, 8)].copy)",
     "    mid_pawn_pushes: list[int] = field(default_factory=lambda: SHARED)", "B"),
    # ---- Stats.add_capture / add_noncapture
    ("        self.total_captures += 1\n        self.total_moves += 1\n        if ply < 30:",
     "        self.total_captures += 2\n        self.total_moves += 1\n        if ply < 30:", "B"),
    ("        if ply < 30:", "        if ply <= 30:", "B"),
    ("        elif ply < 50:", "        elif ply < 51:", "B"),
    ("        elif ply < 70:", "        elif ply > 70:", "B"),
    ("            self.early_captures += 1", "            self.mid_captures += 1", "B"),
    ("        self.total_captures += 1\n        self.total_moves += 1\n", "        self.total_captures += 1\n", "B"),
    ("        self.total_noncaptures += 1", "        self.total_captures += 1", "B"),
    # ---- Stats.add_pawn_push
    ("else 7 - to_rank", "else 8 - to_rank", "B"),
    ("rank = to_rank if side == chess.WHITE else", "rank = to_rank if side == chess.BLACK else", "B"),
    ("else 7 - to_rank", "else to_rank - 7", "B"),
    ("        if ply < 40:\n            self.early_pawn_pushes[rank] += 1", "        if ply < 41:\n            self.early_pawn_pushes[rank] += 1", "B"),
    ("        elif ply < 60:\n            self.mid_pawn_pushes[rank] += 1", "        elif ply <= 60:\n            self.mid_pawn_pushes[rank] += 1", "B"),
    ("            self.late_pawn_pushes[rank] += 1", "            self.mid_pawn_pushes[rank] += 1", "B"),
    ("dx: int = chess.square_file(to) - chess.square_file(enemy_ksq)", "dx: int = chess.square_file(enemy_ksq) - chess.square_file(to)", "N"),
    ("        if abs(dx) <= 1:\n            self.total_pawn_pushes_towards_king += 1", "        if abs(dx) < 1:\n            self.total_pawn_pushes_towards_king += 1", "B"),
    ("        if abs(dx) <= 1:\n            self.total_pawn_pushes_towards_king += 1", "        if dx <= 1:\n            self.total_pawn_pushes_towards_king += 1", "B"),
    ("dx: int = chess.square_file(to) - chess.square_file(enemy_ksq)", "dx: int = chess.square_rank(to) - chess.square_file(enemy_ksq)", "B"),
    ("        self.total_pawn_pushes += 1\n", "", "B"),
    # ---- Stats.finish_game / queens_off
    ("        if ply < 80:", "        if ply < 79:", "B"),
    ("        elif ply < 100:", "        elif ply <= 100:", "B"),
    ("        elif ply < 140:", "        elif ply < 141:", "B"),
    ("        self.game_length[ply] += 1", "        self.game_length[ply] += 2", "B"),
    ("        self.game_length[ply] += 1", "        self.game_length[ply + 1] += 1", "B"),
    ("            self.long_games += 1", "            self.extreme_games += 1", "B"),
    ("        self.no_queens[ply] += 1\n", "", "B"),
    ("        if ply < 40:\n            self.early_trades += 1", "        if ply < 39:\n            self.early_trades += 1", "B"),
    ("        elif ply < 60:\n            self.mid_trades += 1", "        elif ply < 61:\n            self.mid_trades += 1", "B"),
    ("        self.total_trades += 1\n", "", "B"),
    # ---- is_valid
    ("    if stats.num_games != stats.num_wins + stats.num_draws + stats.num_losses:", "    if stats.num_games == stats.num_wins + stats.num_draws + stats.num_losses:", "B"),
    ("    if stats.total_moves != stats.total_captures + stats.total_noncaptures:", "    if stats.total_moves != stats.total_captures - stats.total_noncaptures:", "B"),
    ("    if stats.total_moves != stats.checks + stats.nonchecks:", "    if stats.total_moves != stats.checks + stats.checks:", "B"),
    ("    if stats.num_games != stats.num_wins + stats.num_draws + stats.num_losses:\n        return False\n\n    if stats.num_wins",
     "    if stats.num_wins", "N"),
    ("stats.early_pawn_pushes[0] > 0 or stats.early_pawn_pushes[1] > 0", "stats.early_pawn_pushes[0] > 0 and stats.early_pawn_pushes[1] > 0", "B"),
    ("stats.mid_pawn_pushes[1] > 0", "stats.mid_pawn_pushes[2] > 0", "B"),
    ("stats.late_pawn_pushes[0] > 0", "stats.late_pawn_pushes[0] >= 0", "B"),
    ("    if stats.total_pawn_pushes_towards_king > stats.total_pawn_pushes:", "    if stats.total_pawn_pushes_towards_king >= stats.total_pawn_pushes:", "B"),
    ("        return False\n\n    return True", "        return False\n\n    return False", "B"),
    ("    if stats.total_pawn_pushes_towards_king > stats.total_pawn_pushes:", "    if stats.total_pawn_pushes > stats.total_pawn_pushes_towards_king:", "B"),
    ("    if stats.num_wins != stats.num_win_ahead + stats.num_win_equal + stats.num_win_behind:\n        return False\n\n", "", "B"),
    # ---- get_aggression_score: features
    ("return (0.6 * stats.short_games + 0.25", "return (0.7 * stats.short_games + 0.25", "B"),
    ("0.25 * stats.medium_games + 0.15 * stats.long_games)", "0.26 * stats.medium_games + 0.15 * stats.long_games)", "B"),
    ("0.15 * stats.long_games) / stats.num_games / 0.6", "0.15 * stats.long_games) / 0.6 / stats.num_games", "N"),
    ("0.15 * stats.long_games) / stats.num_games / 0.6", "0.15 * stats.long_games) / stats.num_games / 0.5", "B"),
    ("0.15 * stats.long_games) / stats.num_games / 0.6", "0.15 * stats.long_games) / stats.total_moves / 0.6", "B"),
    ("        if stats.total_captures == 0:\n            return 0.0\n\n        return (0.6 * stats.early_captures", "        return (0.6 * stats.early_captures", "B"),
    ("        if stats.total_captures == 0:\n            return 0.0\n\n        weights", "        if stats.total_captures != 0:\n            return 0.0\n\n        weights", "B"),
    ("        if stats.total_captures == 0:\n            return 0.0\n\n        weights", "        weights", "B"),
    ("weights: list[int] = [0, 8, 4, 2, 1, 0, 0, 0]", "weights: list[int] = [0, 8, 4, 2, 1, 1, 0, 0]", "B"),
    ("weights: list[int] = [0, 8, 4, 2, 1, 0, 0, 0]", "weights: list[int] = [0, 8, 4, 2, 1, 0, 0]", "B", 1),
    ("for dist, frequency in enumerate(stats.capture_distance))", "for dist, frequency in enumerate(stats.noncapture_distance))", "B"),
    ("sum(weights[dist] * frequency for dist, frequency in enumerate(stats.capture_distance))", "sum(weights[frequency] * dist for dist, frequency in enumerate(stats.capture_distance))", "B"),
    ("max_score: float = max(weights) * stats.total_captures", "max_score: float = sum(weights) * stats.total_captures", "B"),
    ("max_score: float = max(weights) * stats.total_noncaptures", "max_score: float = max(weights) * stats.total_moves", "B"),
    ("        return score / max_score", "        return max_score / score", "B"),
    ("        if stats.total_noncaptures == 0:", "        if stats.total_captures == 0:", "B"),
    ("        if stats.castle_opposite + stats.castle_same == 0:", "        if stats.castle_king + stats.castle_queen == 0:", "B"),
    ("        return stats.castle_opposite / (stats.castle_opposite + stats.castle_same)", "        return stats.castle_same / (stats.castle_opposite + stats.castle_same)", "B"),
    ("        return stats.castle_opposite / (stats.castle_opposite + stats.castle_same)", "        return stats.castle_opposite / (stats.castle_opposite + stats.castle_opposite)", "B"),
    ("weights: list[int] = [0, 0, 1, 1, 2, 4, 8, 16]", "weights: list[int] = [0, 0, 1, 1, 2, 4, 8, 15]", "B"),
    ("sum(min(idx, 40) * freq", "sum(min(idx, 41) * freq", "B"),
    ("sum(min(idx, 40) * freq for idx, freq in enumerate(stats.game_length))", "sum(min(idx, 40) * freq for idx, freq in enumerate(stats.no_queens))", "B"),
    ("stats.early_pawn_pushes[i] for i in range(2, 8))", "stats.early_pawn_pushes[i] for i in range(2, 7))", "B"),
    ("stats.early_pawn_pushes[i] for i in range(2, 8))", "stats.early_pawn_pushes[i] for i in range(2, 9))", "B"),
    ("stats.early_pawn_pushes[i] for i in range(2, 8))", "stats.mid_pawn_pushes[i] for i in range(2, 8))", "B"),
    ("sum(weights[3:]) / len(weights[3:])", "sum(weights[2:]) / len(weights[3:])", "B"),
    ("sum(weights[3:]) / len(weights[3:])", "sum(weights[3:]) / len(weights[2:])", "B"),
    ("len(weights[3:]) * total_early_moves", "len(weights[3:]) * stats.total_moves", "B"),
    ("        return total_score / max_total_score", "        return max_total_score / total_score", "B"),
    ("        if stats.total_pawn_pushes == 0:\n            return 0.0\n\n        weights", "        weights", "B"),
    ("        return stats.checks / stats.total_moves", "        return stats.nonchecks / stats.total_moves", "B"),
    ("        if stats.total_moves == 0:\n            return 0.0\n\n        return stats.checks / stats.total_moves", "        return stats.checks / stats.total_moves", "B"),
    ("        return stats.num_win_behind / stats.num_wins", "        return stats.num_win_ahead / stats.num_wins", "B"),
    ("        if stats.num_wins == 0:", "        if stats.num_games == 0:", "B"),
    ("        return stats.total_captures / stats.total_moves", "        return stats.total_noncaptures / stats.total_moves", "B"),
    ("        return stats.total_pawn_pushes_towards_king / stats.total_pawn_pushes", "        return stats.total_pawn_pushes_towards_king / stats.total_moves", "B"),
    ("        return stats.num_rook_threats / stats.total_moves", "        return stats.num_bishop_threats / stats.total_moves", "B"),
    ("        return stats.num_bishop_threats / stats.total_moves", "        return stats.total_moves / stats.num_bishop_threats", "B"),
    # ---- get_aggression_score: the features list and the scoring loop
    ('(4.0,  "Game length", feature_game_length)', '(3.0,  "Game length", feature_game_length)', "B"),
    ('(0.2,  "Castle opposite", feature_castle_opposite)', '(0.3,  "Castle opposite", feature_castle_opposite)', "B"),
    ('(5.0,  "Checks", feature_checks)', '(5.0,  "Checks", feature_wins_behind)', "B"),
    ('        (4.0,  "Bishop/Queen threats on king", feature_bishop_threats),\n', "", "B"),
    ('        # (0.0,  "Sacrifices", feature_sacrifices),', '        (1.0,  "Sacrifices", feature_sacrifices),', "B"),
    ('(5.0,  "Checks", feature_checks)', '(5.0,  "Check", feature_checks)', "N"),
    ('        (2.0,  "Capture early", feature_capture_early),\n        (4.0,  "Capture near king", feature_capture_near_king),\n',
     '        (4.0,  "Capture near king", feature_capture_near_king),\n        (2.0,  "Capture early", feature_capture_early),\n', "N"),
    ("    if stats.num_games == 0:\n        return None\n\n    features: list[float] = [\n        (4.0,", "    if stats.num_games != 0:\n        return None\n\n    features: list[float] = [\n        (4.0,", "B"),
    ("    if stats.num_games == 0:\n        return None\n\n    features: list[float] = [\n        (4.0,", "    features: list[float] = [\n        (4.0,", "B"),
    ("        assert(0.0 <= value and value <= 1.0)", "        assert(0.0 <= value and value <= 2.0)", "B"),
    ("        assert(0.0 <= value and value <= 1.0)", "        assert(0.0 <= value or value <= 1.0)", "B"),
    ("        assert(0.0 <= value and value <= 1.0)\n", "", "B"),
    ("        score += weight * value", "        score += value", "B"),
    ("        score += weight * value", "        score += value * weight", "N"),
    ("    scaled = min(1.0, 2.0 * scaled)", "    scaled = min(1.0, 3.0 * scaled)", "B"),
    ("    scaled = min(1.0, 2.0 * scaled)", "    scaled = max(1.0, 2.0 * scaled)", "B"),
    ("    scaled = min(1.0, 2.0 * scaled)\n", "", "B"),
    ("    scaled = min(1.0, 2.0 * scaled)\n\n    assert(0.0 <= scaled and scaled <= 1.0)\n", "    scaled = min(1.0, 2.0 * scaled)\n\n", "B"),
    ("    scaled = score / sum([weight for weight, _, _ in features])", "    scaled = score / sum([weight for _, weight, _ in features])", "B"),
    ("    scaled = score / sum([weight for weight, _, _ in features])", "    scaled = sum([weight for weight, _, _ in features]) / score", "B"),
    ("    score: float = 0.0\n", "    score: float = 1.0\n", "B"),
    ("contribution: float = 100 * weighted / score if score != 0.0 else 0.0", "contribution: float = 100 * weighted / score", "B"),
    ("contribution: float = 100 * weighted / score if score != 0.0 else 0.0", "contribution: float = 100 * weighted / score if score == 0.0 else 0.0", "B"),
    ("contribution: float = 100 * weighted / score if score != 0.0 else 0.0", "contribution: float = 100 * weighted / value if score != 0.0 else 0.0", "B"),
    # ---- get_positional_score / get_pawn_pusher_score
    ("return (0.6 * stats.long_games", "return (0.6 * stats.extreme_games", "B"),
    ("0.15 * stats.early_captures)", "0.15 * stats.extreme_captures)", "B"),
    ('(2.0, "Game length", feature_game_length)', '(1.0, "Game length", feature_game_length)', "B"),
    ("        if stats.total_captures == 0:\n            return 0.0\n\n        return (0.6 * stats.late_captures", "        return (0.6 * stats.late_captures", "B"),
    ('(1.0, "Capture early", feature_capture_early),\n    ]', '(1.0, "Capture early", feature_game_length),\n    ]', "B"),
    ('        Placeholder\n        """\n        return 0.0', '        Placeholder\n        """\n        return 2.0', "B"),
    ('(1.0, "Placeholder", feature_placeholder)', '(0.0, "Placeholder", feature_placeholder)', "B"),
    ("        score += weight * value\n    scaled = score / sum([weight for weight, _, _ in features])\n\n    assert(0.0 <= scaled and scaled <= 1.0)\n\n    if verbose:\n        for weight, name, func in features:\n            value: float = func(stats)\n            weighted: float = weight * value\n            contribution: float = 100 * weighted / score if score != 0.0 else 0.0\n            print(f\"Positional",
     "        score += weight * value\n    scaled = score / sum([weight for weight, _, _ in features])\n\n    assert(0.0 <= scaled and scaled < 1.0)\n\n    if verbose:\n        for weight, name, func in features:\n            value: float = func(stats)\n            weighted: float = weight * value\n            contribution: float = 100 * weighted / score if score != 0.0 else 0.0\n            print(f\"Positional", "B"),
    # ---- get_material_score
    ("3 * knights", "4 * knights", "B"),
    ("9 * queens", "9 * rooks", "B"),
    ("queens  = len(board.pieces(chess.QUEEN,  side))", "queens  = len(board.pieces(chess.ROOK,  side))", "B"),
    ("pawns   = len(board.pieces(chess.PAWN,   side))", "pawns   = len(board.pieces(chess.PAWN,   not side))", "B"),
    # ---- analyse_game
    ("num_queens_white == 0 and num_queens_black == 0", "num_queens_white == 0 or num_queens_black == 0", "B"),
    ("if queens_gone == False and", "if queens_gone == True and", "B"),
    ("            stats.queens_off(idx)", "            stats.queens_off(ply)", "N"),
    ("            stats.queens_off(idx)", "            stats.queens_off(idx + 1)", "B"),
    ("            stats.queens_off(idx)\n            queens_gone = True", "            stats.queens_off(idx)", "B"),
    ("num_queens_black = len(board.pieces(chess.QUEEN, chess.BLACK))", "num_queens_black = len(board.pieces(chess.QUEEN, chess.WHITE))", "B"),
    ("        if board.turn == side:", "        if board.turn != side:", "B"),
    ("num_queens_us = num_queens_white if side == chess.WHITE else num_queens_black", "num_queens_us = num_queens_black if side == chess.WHITE else num_queens_white", "B"),
    ("num_rooks_us == 0 and num_rooks_them == 2", "num_rooks_us == 0 and num_rooks_them == 1", "B"),
    ("                has_RRvQ = True", "                has_QvRR = True", "B"),
    ("num_minor_us == 3 and num_minor_them == 0", "num_minor_us == 2 and num_minor_them == 0", "B"),
    ("num_minor_us = len(board.pieces(chess.KNIGHT, side))", "num_minor_us = len(board.pieces(chess.ROOK, side))", "B"),
    ("num_rooks_them = len(board.pieces(chess.ROOK, not side))", "num_rooks_them = len(board.pieces(chess.ROOK, side))", "B"),
    ("                stats.castle_king += 1\n                us_castled = 1", "                stats.castle_king += 1\n                us_castled = 2", "B"),
    ("                stats.castle_queen += 1\n                us_castled = 2", "                stats.castle_king += 1\n                us_castled = 2", "B"),
    ("            if board.is_kingside_castling(move):\n                stats.castle_king += 1", "            if board.is_queenside_castling(move):\n                stats.castle_king += 1", "B"),
    ("dx: int = chess.square_file(enemy_ksq) - chess.square_file(move.to_square)", "dx: int = chess.square_rank(enemy_ksq) - chess.square_file(move.to_square)", "B"),
    ("dy: int = chess.square_rank(enemy_ksq) - chess.square_rank(move.to_square)", "dy: int = chess.square_rank(enemy_ksq) - chess.square_rank(move.from_square)", "B"),
    ("if piece in [chess.ROOK, chess.QUEEN]:", "if piece in [chess.ROOK, chess.KING]:", "B"),
    ("if piece in [chess.BISHOP, chess.QUEEN]:", "if piece not in [chess.BISHOP, chess.QUEEN]:", "B"),
    ("if abs(dx) <= 1 or abs(dy) <= 1:", "if abs(dx) <= 1 and abs(dy) <= 1:", "B"),
    ("if abs(abs(dx) - abs(dy)) <= 1:", "if abs(abs(dx) - abs(dy)) <= 0:", "B"),
    ("if abs(abs(dx) - abs(dy)) <= 1:", "if abs(abs(dx) + abs(dy)) <= 1:", "B"),
    ("                    stats.num_rook_threats += 1", "                    stats.num_bishop_threats += 1", "B"),
    ("            if board.is_capture(move):", "            if not board.is_capture(move):", "B"),
    ("                stats.capture_distance[dist_to_enemy_king] += 1", "                stats.noncapture_distance[dist_to_enemy_king] += 1", "B"),
    ("                stats.add_noncapture()\n", "", "B"),
    ("chess.square_distance(move.to_square, board.king(not side))", "chess.square_distance(move.from_square, board.king(not side))", "B"),
    ("chess.square_distance(move.to_square, board.king(not side))", "chess.square_distance(move.to_square, board.king(side))", "B"),
    ("if board.piece_type_at(move.from_square) == chess.PAWN:", "if board.piece_type_at(move.from_square) == chess.KNIGHT:", "B"),
    ("if board.piece_type_at(move.from_square) == chess.PAWN:", "if board.piece_type_at(move.to_square) == chess.PAWN:", "B"),
    ("stats.add_pawn_push(ply, move.to_square, board.turn, board.king(not board.turn))", "stats.add_pawn_push(ply, move.from_square, board.turn, board.king(not board.turn))", "B"),
    ("stats.add_pawn_push(ply, move.to_square, board.turn, board.king(not board.turn))", "stats.add_pawn_push(idx + 1, move.to_square, board.turn, board.king(not board.turn))", "B"),
    ("                them_castled = 1", "                them_castled = 2", "B"),
    ("        if board.turn != side:\n            if board.is_check():", "        if board.turn == side:\n            if board.is_check():", "B"),
    ("            if board.is_check():\n                stats.checks += 1", "            if board.is_check():\n                stats.nonchecks += 1", "B"),
    ("        ply += 1\n", "        ply += 2\n", "B"),
    ("        board.push(move)\n\n", "", "B"),
    ("    if has_QvRR:\n       stats.num_QvRR += 1", "    if has_QvRR:\n       stats.num_RRvQ += 1", "B"),
    ("    if has_3minorvQ:\n       stats.num_3minorvQ += 1", "    if has_Qv3minor:\n       stats.num_3minorvQ += 1", "B"),
    ("    elif us_castled == 1 and them_castled == 1:\n        stats.castle_same += 1", "    elif us_castled == 1 and them_castled == 1:\n        stats.castle_opposite += 1", "B"),
    ("    elif us_castled == 2 and them_castled == 1:", "    elif us_castled == 2 and them_castled == 2:", "B"),
    ("    elif us_castled != 0 and them_castled == 0:\n        pass\n", "", "B"),
    ("    stats.finish_game(ply)", "    stats.finish_game(ply + 1)", "B"),
    ("    stats.finish_game(ply)\n    stats.num_games += 1", "    stats.finish_game(ply)", "B"),
    ("is_material_ahead: bool = material_us > material_them", "is_material_ahead: bool = material_us >= material_them", "B"),
    ("is_material_behind: bool = material_us < material_them", "is_material_behind: bool = material_them < material_us", "B"),
    ('    if game.headers["Result"] == "1/2-1/2":\n        stats.num_draws += 1', '    if game.headers["Result"] == "1-0":\n        stats.num_draws += 1', "B"),
    ("        if side == chess.WHITE:\n            stats.num_wins += 1", "        if side == chess.BLACK:\n            stats.num_wins += 1", "B"),
    ("            stats.num_win_ahead += is_material_ahead", "            stats.num_win_ahead += is_material_behind", "B"),
    ("        else:\n            stats.num_losses += 1\n    elif", "        else:\n            stats.num_draws += 1\n    elif", "B"),
    ("    stats.final_material[material_us + material_them] += 1", "    stats.final_material[material_us] += 1", "B"),
    ("material_them: int = get_material_score(board, not side)", "material_them: int = get_material_score(board, side)", "B"),
    ('    if game.headers["Result"] not in ["1-0", "0-1", "1/2-1/2"]:\n        raise', '    if game.headers["Result"] not in ["1-0", "0-1"]:\n        raise', "B"),
    ("raise RuntimeError(f'Invalid game result", "raise RuntimeError(f'Bad game result", "N"),
    ("    us_castled = 0\n", "    us_castled = 1\n", "B"),
    ('else "rnbqkbnr/pppppppp/8/8/8/8/PPPPPPPP/RNBQKBNR w KQkq - 0 1"', 'else "rnbqkbnr/pppppppp/8/8/8/8/PPPPPPPP/RNBQKBNR b KQkq - 0 1"', "B"),
    ('fen = game.headers["FEN"] if "FEN" in game.headers else', 'fen = game.headers["FEN"] if "FEN" not in game.headers else', "B"),
    # ---- analyse_pgn (the per-job statements) and main (styles, report)
    ("                    assert(is_valid(stats))\n", "", "B"),
    ("                    analyse_game(game, side, stats)", "                    analyse_game(game, not side, stats)", "B"),
    ("                    count += 1", "                    count += 2", "B"),
    ('or game.headers["Result"] not in ["1-0", "0-1", "1/2-1/2"]:\n                continue',
     'or game.headers["Result"] not in ["1-0", "0-1", "1/2-1/2", "*"]:\n                continue', "B"),
    ('        ("Aggressive ", get_aggression_score),\n        ("Positional ", get_positional_score),',
     '        ("Aggressive ", get_positional_score),\n        ("Positional ", get_aggression_score),', "B"),
    ("        if stats.num_games <= 0:", "        if stats.num_games < 0:", "B"),
    ("            score: float = func(stats, args.verbose)", "            score: float = func(stats, False)", "N"),
    ('print(f"- wins   {stats.num_wins:>5} ({100*stats.num_wins/stats.num_games:.2f}%)")',
     'print(f"- wins   {stats.num_wins:>5} ({100*stats.num_games/stats.num_wins:.2f}%)")', "B"),
]


def run(cmd, cwd, env, timeout):
    try:
        p = subprocess.run(cmd, cwd=cwd, env=env, stdout=subprocess.PIPE, stderr=subprocess.STDOUT, timeout=timeout)
        return p.returncode, p.stdout.decode(errors="replace")
    except subprocess.TimeoutExpired as ex:
        out = ex.stdout or b""
        if isinstance(out, bytes):
            out = out.decode(errors="replace")
        return 124, out + "\nTIMEOUT"


def replace_nth(text, old, new, nth):
    pos = -1
    for _ in range(nth + 1):
        pos = text.find(old, pos + 1)
        if pos < 0:
            return None
    return text[:pos] + new + text[pos + len(old):]


class Worker:
    def __init__(self, a, lean, scratch, targets):
        self.a, self.lean, self.scratch, self.targets = a, lean, scratch, targets
        self.out_file = os.path.join(lean, "Rawr", "Generated", "PyStyle.lean")

    def translate_and_check(self, repo):
        env = dict(os.environ, RAWR_REPO=repo, RAWR_PYSTYLE_OUT=self.out_file, RAWR_VERIF=os.path.dirname(self.lean))
        rc, out = run([sys.executable, self.a.translator], self.lean, env, 120)
        if rc == 3:
            lines = [l for l in out.strip().splitlines() if l.startswith("TRANSLATE-ERROR")]
            return "TRANSLATE-ERROR", (lines[-1] if lines else out.strip()[-150:])[:150]
        if rc != 0:
            return "TRANSLATOR-CRASH", out.strip()[-300:]
        rc, out = run(["lake", "build"] + self.targets, self.lean, dict(os.environ), self.a.timeout)
        if rc != 0:
            errs = [l for l in out.splitlines() if "error" in l]
            return "PROOF-FAILS", (errs[0] if errs else out[-200:])[:150]
        return "OK", ""

    def mutant(self, i, old, new, kind, nth, baseline):
        orig = open(os.path.join(self.a.repo, STYLE)).read()
        mutated = replace_nth(orig, old, new, nth)
        if mutated is None:
            return (i, kind, "PATTERN-NOT-FOUND", 0.0, f"{old[:60]!r}", "")
        open(os.path.join(self.scratch, STYLE), "w").write(mutated)
        t1 = time.time()
        st, msg = self.translate_and_check(self.scratch)
        if st == "OK" and open(self.out_file).read() == baseline:
            st = "OK(same Lean text)"
        open(os.path.join(self.scratch, STYLE), "w").write(orig)
        o = [l for l in old.strip().splitlines() if l.strip()]
        n = [l for l in new.strip().splitlines() if l.strip()]
        k = next((j for j in range(min(len(o), len(n))) if o[j] != n[j]), 0)
        desc = ((o[k].strip() if k < len(o) else o[0].strip())[:52] + " -> " +
                ((n[k].strip()[:48] if k < len(n) else "<deleted>") if n else "<deleted>"))
        return (i, kind, st, time.time() - t1, desc, msg)


def main():
    ap = argparse.ArgumentParser()
    ap.add_argument("--repo", default=os.environ.get("RAWR_REPO", "/repo"))
    ap.add_argument("--lean", default="/tmp/agents/t4/lean")
    ap.add_argument("--translator", default=os.path.join(HERE, "py2lean_style.py"))
    ap.add_argument("--work", default="/tmp/py2lean_style_selftest")
    ap.add_argument("--only", default="")
    ap.add_argument("--timeout", type=int, default=600)
    ap.add_argument("--jobs", type=int, default=1)
    a = ap.parse_args()
    if os.path.realpath(a.lean) == os.path.realpath("/verif/lean"):
        sys.exit("refusing to run in the shared /verif/lean: give a private copy with --lean")
    if os.path.realpath(a.work).startswith(os.path.realpath(a.repo) + os.sep) or os.path.realpath(a.work) == os.path.realpath(a.repo):
        sys.exit("refusing to work inside the repository")
    targets = [t for t in TARGETS if os.path.exists(os.path.join(a.lean, t.replace(".", "/") + ".lean"))]
    shutil.rmtree(a.work, ignore_errors=True)
    os.makedirs(a.work)
    workers = []
    for k in range(max(1, a.jobs)):
        scratch = os.path.join(a.work, f"repo{k}")
        os.makedirs(os.path.join(scratch, os.path.dirname(STYLE)))
        shutil.copy(os.path.join(a.repo, STYLE), os.path.join(scratch, STYLE))
        lean = a.lean
        if k > 0:
            lean = os.path.join(a.work, f"v{k}", "lean")
            shutil.copytree(a.lean, lean, symlinks=True)
        workers.append(Worker(a, lean, scratch, targets))
    t0 = time.time()
    st, msg = workers[0].translate_and_check(a.repo)
    baseline = open(workers[0].out_file).read()
    print(f"baseline: {st} {msg} ({time.time() - t0:.0f}s)", flush=True)
    if st != "OK":
        sys.exit(1)
    for w in workers[1:]:
        st, msg = w.translate_and_check(a.repo)
        if st != "OK":
            sys.exit(f"baseline fails in {w.lean}: {msg}")
    only = {int(x) for x in a.only.split(",") if x}
    todo = [(i, m[0], m[1], m[2], (m[3] if len(m) > 3 else 0)) for i, m in enumerate(M, 1) if not only or i in only]
    results, lock = [], threading.Lock()

    def loop(w):
        while True:
            with lock:
                if not todo:
                    return
                job = todo.pop(0)
            r = w.mutant(*job, baseline)
            with lock:
                results.append(r)
                i, kind, st, dt, desc, msg = r
                print(f"{i:3d} [{kind}] {st:18s} {dt:4.0f}s  {desc}   {msg}", flush=True)
    threads = [threading.Thread(target=loop, args=(w,)) for w in workers]
    for t in threads:
        t.start()
    for t in threads:
        t.join()
    st, msg = workers[0].translate_and_check(a.repo)
    print(f"restored: {st} {msg}", flush=True)
    results.sort()
    b = [r for r in results if r[1] == "B"]
    n = [r for r in results if r[1] == "N"]

    def det(r):
        return not r[2].startswith("OK")
    print(f"behaviour-changing mutants: {sum(map(det, b))}/{len(b)} detected "
          f"(TRANSLATE-ERROR {sum(r[2] == 'TRANSLATE-ERROR' for r in b)}, PROOF-FAILS {sum(r[2] == 'PROOF-FAILS' for r in b)})")
    print(f"behaviour-neutral mutants:  {sum(map(det, n))}/{len(n)} flagged "
          f"(same Lean text {sum(r[2] == 'OK(same Lean text)' for r in n)})")
    bad = [r[0] for r in results if r[2] in ("PATTERN-NOT-FOUND", "TRANSLATOR-CRASH")]
    if bad:
        print("PATTERN-NOT-FOUND / TRANSLATOR-CRASH:", bad)
    missed = [r[0] for r in b if not det(r)]
    if missed:
        print("MISSED:", missed)
    if missed or bad:
        sys.exit(1)


if __name__ == "__main__":
    main()
