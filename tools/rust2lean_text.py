#!/usr/bin/env python3
"""Rust -> Lean translator for the TEXT side (FEN / UCI) of kz04px/rawr.

Regenerates lean/Rawr/Generated/RustText.lean from the CURRENT sources on every run.  It uses tools/rust2lean_imp.py
as a library (lexer conventions, expression parser with the Rust precedences, the expression translator for the
chess-core vocabulary: Position fields, bitboard operators, getters, `R.*` callees) and adds a statement compiler that
emits Lean `do`-notation mirroring the Rust control flow one statement per line.  Every definition `Rawr.R.<fn>` is
obtained from the Rust token stream: operators, literals, string / char literals, match arms and their order,
conditions, statement order and callees all flow from the Rust text.  `lean/Rawr/Proofs/RustTextAgree*.lean` proves
`R.<fn> = <model function>` (Rawr/Model/Fen.lean, UciMove.lean, Uci.lean).

Unknown constructs raise TranslateError (exit status 3, one line `TRANSLATE-ERROR ...`).  Deliberately dropped:
`debug_assert*!` statements, `#[...]` attributes, comments, `&` / `*` (reference / dereference), `.0`.

Representation
  &str / String            List Char                       string literal "ab"  ->  ['a', 'b']
  char                     Char                            b'a' and `c as u8`   ->  Rawr.asU8 c
  u8                       Nat, arithmetic `+ - *` through the model's `u8add/u8sub/u8mul ar` (ar : Arith = wrap for the
                           optimised build, trap for the checked build; `none` = the checked build panics); the
                           function then takes `(ar : Arith)`;  `1u64 << sq` (Bitboard::from_square of a computed u8)
                           is the model's `bitAr ar`
  i32                      Int (no overflow, as in the model)      u64 counters: Nat;  u64 hashes: BB
  Option<T>                Option T
  Result<T, E>  (T != ())  Option T   (Ok = some, Err(_) = none: the error payload is erased)
  Result<(), &str>         Option String (Err = some; this is rust2lean_imp's encoding of `validate`)
  iterators (split, split_ascii_whitespace, chars)     the List of the remaining items; `it.next()` is
                           `let nx := it.head?; it := it.tail` emitted just before the statement that contains it
  Vec<T>                   List T, push = `++ [x]`
  panic!(..) / failed unwrap / array index out of range / overflow in the checked build      `none` (Option monad)
  println!(fmt, args)      `out := out ++ [s!"fmt"]`, the function returns `out : List String` as its last component
  &mut parameters          the function returns the tuple (result, updated &mut parameters in order[, out])

Statement -> do-notation
  let [mut] x = e;                 let [mut] x : T := e                (`let x <- doElem` when e is an if/match/block with effects)
  x = e; x op= e; self.f op= e;    x := ..; s := { s with f := .. }
  if / else if / else, if let      if .. then .. else ..  /  match e with | some x => .. | none => ..
  match e { p => .., }             match e with | p => ..   (char / enum / tuple / Option patterns);  an if-chain of
                                   `==` tests in arm order when a pattern is a string literal or a char range
  for x in it { .. }               the WHOLE loop is hoisted into `R.<fn>_loopK (captured..) (it : List _) (mutated..)`,
                                   whose body is `for x in it do ..` returning the tuple of the mutated variables
                                   (loops containing `return` stay inline); `break` / `continue` are Lean's
  loop { .. }                      `for _ in List.range fuel do ..` followed by `none` (fuel exhausted), `fuel : Nat` becomes
                                   the first parameter of the function
  recursion (f calls f)            structural recursion on an added `fuel : Nat` (`none` when exhausted); callers pass `fuel`
  closures bound by `let`          hoisted into `R.<fn>_<name> (captured..) (params..)`, the local name is its partial application
  `obj.method(|a, b, c, d| {..})`  for a callback-taking chess-core method: a loop over the list of its invocations
  callback parameter `func(a, b)`  the invocations are collected, in order, into a list that the function returns
  return e; / tail e               return e / pure e
Loops: every `for` / `loop` becomes two definitions, `R.<fn>_loopK_step` (ONE iteration: the loop-carried variables in, a
`ForInStep` of them out; `break` = `.done`, `continue` = `.yield`) and `R.<fn>_loopK` = `forIn list init step`.  A loop that
contains `return` carries a first component `early : Option <function result>` (`return e` = `.done (some e, ..)`, tested
right after the loop); a `loop` carries `exited : Bool`.  A loop whose body calls the enclosing function stays inline.
Long bodies: `cuts=(i, j, ..)` in the driver cut the top-level statement list; the statements from a cut on become
`R.<fn>_partK (live variables..)`, called in tail position by the part before (same result type, `return` unchanged).
Lean names are chosen in the driver (`pos_perft` for chess/perft.rs: `R.perft` is the search-side translation).
"""
import os
import re
import sys

HERE = os.path.dirname(os.path.abspath(__file__))
sys.path.insert(0, HERE)
import rust2lean_imp as imp  # noqa: E402
from rust2lean_imp import TranslateError, NeedMonad, Ex, is_opt  # noqa: E402

REPO = os.environ.get("RAWR_REPO", "/repo")
VERIF = os.environ.get("RAWR_VERIF", os.path.dirname(HERE))
OUT = os.environ.get("RAWR_TEXT_OUT", os.path.join(VERIF, "lean", "Rawr", "Generated", "RustText.lean"))


class NotInline(Exception):
    """an expression that cannot be written as a pure Lean term (needs a do-element)."""


# --------------------------------------------------------------------------------------------- lexer
TOK = re.compile(r"""\s*(?:
   (?P<str>"(?:[^"\\]|\\.)*")
  |(?P<chr>b?'(?:[^'\\]|\\.)')
  |(?P<num>0x[0-9a-fA-F_]+(?:u64|u32|u8|i32|usize)?|\d[\d_]*(?:u64|u32|u8|i32|usize)?)
  |(?P<life>'[A-Za-z_][A-Za-z0-9_]*(?!'))
  |(?P<id>[A-Za-z_][A-Za-z0-9_]*)
  |(?P<op><<=|>>=|\.\.=|::|->|=>|<<|>>|<=|>=|==|!=|&&|\|\||\+=|-=|\*=|/=|%=|\^=|\|=|&=|\.\.|[-+*/%&|^!<>=.,;:(){}\[\]\#?@])
)""", re.X)


def strip_comments(src):
    """remove `// ...` comments (not inside string / char literals)."""
    out, i, n = [], 0, len(src)
    while i < n:
        ch = src[i]
        if ch == '"':
            j = i + 1
            while j < n and src[j] != '"':
                j += 2 if src[j] == "\\" else 1
            out.append(src[i:j + 1])
            i = j + 1
        elif ch == "'" and re.match(r"'(?:[^'\\]|\\.)'", src[i:i + 4]):
            m = re.match(r"'(?:[^'\\]|\\.)'", src[i:i + 4])
            out.append(m.group(0))
            i += len(m.group(0))
        elif src.startswith("//", i):
            while i < n and src[i] != "\n":
                i += 1
        else:
            out.append(ch)
            i += 1
    return "".join(out)


def tokenize(src):
    pos, out, n = 0, [], len(src)
    while pos < n:
        if src[pos:].strip() == "":
            break
        m = TOK.match(src, pos)
        if not m:
            raise TranslateError("cannot tokenize near: " + src[pos:pos + 40].strip())
        kind = m.lastgroup
        out.append((kind, m.group(kind)))
        pos = m.end()
    return out


def find_fn(src, name, what, nth=0):
    """tokens of `fn name ... { body }` (nth occurrence outside `#[cfg(test)]`), brace matching on TOKENS."""
    cut = src.find("#[cfg(test)]")
    if cut >= 0:
        src = src[:cut]
    ms = list(re.finditer(r"\bfn\s+" + re.escape(name) + r"\b", src))
    if len(ms) <= nth:
        raise TranslateError(f"{what}: fn {name} not found")
    toks = tokenize(src[ms[nth].start():])
    depth, started = 0, False
    for k, (_, v) in enumerate(toks):
        if v == "{":
            depth += 1
            started = True
        elif v == "}":
            depth -= 1
            if started and depth == 0:
                return toks[:k + 1]
    raise TranslateError(f"{what}: unbalanced braces in fn {name}")


def impl_self_type(src, name, nth=0):
    """the `impl [Trait for] Type` that encloses the nth `fn name`."""
    ms = list(re.finditer(r"\bfn\s+" + re.escape(name) + r"\b", src))
    if len(ms) <= nth:
        return None
    best = None
    for m in re.finditer(r"\bimpl\s+(?:[A-Za-z_:]+\s+for\s+)?([A-Za-z_]+)\s*\{", src[:ms[nth].start()]):
        best = m.group(1)
    return best


def unescape(body):
    """Rust string / char literal body -> python string."""
    out, i = [], 0
    while i < len(body):
        ch = body[i]
        if ch == "\\":
            nx = body[i + 1]
            table = {"n": "\n", "t": "\t", "r": "\r", "0": "\0", "\\": "\\", "'": "'", '"': '"'}
            if nx in table:
                out.append(table[nx])
                i += 2
            elif nx == "x":
                out.append(chr(int(body[i + 2:i + 4], 16)))
                i += 4
            else:
                raise TranslateError("escape sequence not supported: \\" + nx)
        else:
            out.append(ch)
            i += 1
    return "".join(out)


def lean_char(ch):
    o = ord(ch)
    if ch == "'":
        return "'\\''"
    if ch == "\\":
        return "'\\\\'"
    if 32 <= o < 127:
        return f"'{ch}'"
    if o < 256:
        return f"'\\x{o:02x}'"
    return f"(Char.ofNat {o})"


def lean_chars(s):
    return "[" + ", ".join(lean_char(ch) for ch in s) + "]" if s else "([] : List Char)"


def lean_string(s):
    out = []
    for ch in s:
        if ch in '"\\':
            out.append("\\" + ch)
        elif ch == "\n":
            out.append("\\n")
        elif 32 <= ord(ch) < 127:
            out.append(ch)
        else:
            raise TranslateError("non-ASCII character in a format string")
    return '"' + "".join(out) + '"'


# --------------------------------------------------------------------------------------------- parser
class Parser(imp.Parser):
    """adds: char literals, match, loop, while [let], break, continue, general patterns, macros, arrays, typed closures,
    `?`, inclusive ranges."""

    MACROS = ("panic", "println", "print", "write", "format", "vec", "unreachable", "option_env")

    def type_(self):
        if self.peek() == "&":
            self.eat()
            if self.peekkind() == "life":
                self.eat()
            if self.peek() == "mut":
                self.eat()
                return ("mutref", self.type_())
            return self.type_()
        if self.peekkind() == "life" and self.peek(1) in (">", ","):
            self.eat()
            return ("life",)
        return super().type_()

    # ---- patterns (match arms, if let, while let)
    def mpattern(self):
        alts = [self.mpattern1()]
        while self.peek() == "|":
            self.eat("|")
            alts.append(self.mpattern1())
        return alts[0] if len(alts) == 1 else ("por", alts)

    def mpattern1(self):
        t, k = self.peek(), self.peekkind()
        if t == "&":
            self.eat()
            return self.mpattern1()
        if t == "(":
            self.eat("(")
            items = []
            while self.peek() != ")":
                items.append(self.mpattern())
                if self.peek() == ",":
                    self.eat(",")
            self.eat(")")
            if not items:
                return ("plit", ("unit",))
            return ("ptup", items)
        if k in ("chr", "str", "num") or t == "-":
            neg = False
            if t == "-":
                self.eat()
                neg = True
            kind = self.peekkind()
            lit = ({"chr": "chr", "str": "str", "num": "num"}[kind], self.eat())
            if neg:
                lit = ("unary", "-", lit)
            if self.peek() == "..=":
                self.eat("..=")
                kind2 = self.peekkind()
                if kind2 not in ("chr", "num"):
                    self.err("range pattern bound")
                hi = (kind2, self.eat())
                return ("prange", lit, hi)
            return ("plit", lit)
        if k == "id":
            if t == "_":
                self.eat()
                return ("pwild",)
            if t in ("mut", "ref"):
                self.eat()
                return ("pbind", self.ident())
            if t in ("true", "false"):
                self.eat()
                return ("plit", ("path", [t], []))
            segs = [self.eat()]
            while self.peek() == "::":
                self.eat("::")
                segs.append(self.ident())
            if self.peek() == "(":
                self.eat("(")
                items = []
                while self.peek() != ")":
                    items.append(self.mpattern())
                    if self.peek() == ",":
                        self.eat(",")
                self.eat(")")
                return ("pctor", segs, items)
            if len(segs) == 1 and (segs[0][0].islower() or segs[0][0] == "_"):
                return ("pbind", segs[0])
            return ("pctor", segs, None)
        self.err(f"pattern not supported at {t!r}")

    # ---- statements
    def macro(self):
        name = self.eat()
        self.eat("!")
        if name in imp.DROPPED_MACROS:
            self.skip_macro_args()
            return None
        if name not in self.MACROS:
            self.err(f"macro {name}! is not supported")
        close = {"(": ")", "[": "]"}.get(self.peek())
        if close is None:
            self.err("macro arguments")
        self.eat()
        old = self.nostruct if hasattr(self, "nostruct") else False
        self.nostruct = False
        args = []
        while self.peek() != close:
            args.append(self.expr())
            if self.peek() == ",":
                self.eat(",")
        self.eat(close)
        self.nostruct = old
        return ("macro", name, args)

    def is_macro(self):
        return self.peekkind() == "id" and self.peek(1) == "!" and self.peek(2) in ("(", "[")

    def arm_body(self):
        """the right-hand side of `pat =>`: a block or a single statement without `;`  -> statement list."""
        if self.peek() == "{":
            blk = self.block()
            return blk
        s = self.simple_statement(arm=True)
        return [] if s is None else [s]

    def match_(self):
        self.eat("match")
        scrut = self.expr(nostruct=True)
        self.eat("{")
        arms = []
        while self.peek() != "}":
            pat = self.mpattern()
            guard = None
            if self.peek() == "if":
                self.eat("if")
                guard = self.expr(nostruct=True)
            self.eat("=>")
            body = self.arm_body()
            arms.append((pat, guard, body))
            if self.peek() == ",":
                self.eat(",")
        self.eat("}")
        return ("match", scrut, arms)

    def simple_statement(self, arm=False):
        """break / continue / return / expression [assignment]; in an arm: no terminating `;`."""
        t = self.peek()

        def end(kind_if_semicolon, kind_if_tail, *payload):
            if arm:
                return (kind_if_tail,) + payload
            if self.peek() == ";":
                self.eat(";")
                return (kind_if_semicolon,) + payload
            if self.peek() == "}":
                return (kind_if_tail,) + payload
            self.err("statement not recognised")
        if t == "break":
            self.eat()
            return end("break", "break")
        if t == "continue":
            self.eat()
            return end("continue", "continue")
        if t == "return":
            self.eat("return")
            e = None
            if self.peek() not in (";", ",", "}"):
                e = self.expr()
            return end("return", "return", e)
        e = self.expr()
        if self.peek() in imp.ASSIGN_OPS:
            op = self.eat()
            rhs = self.expr()
            if not arm and self.peek() != "}":
                self.eat(";")
            return ("assign", op, e, rhs)
        return end("expr", "tail", e)

    def block(self):
        self.eat("{")
        stmts = []
        while self.peek() != "}":
            s = self.statement()
            if s is not None:
                stmts.append(s)
        self.eat("}")
        for s in stmts[:-1]:
            if s[0] == "tail" and s[1][0] not in ("match", "ifexpr", "loop", "blockexpr", "macro"):
                self.err("expression without `;` in the middle of a block")
        # block-like expressions in the middle of a block are statements
        return [("expr", s[1]) if (s[0] == "tail" and k < len(stmts) - 1) else s for k, s in enumerate(stmts)]

    def statement(self):
        t = self.peek()
        if t == "#":
            self.skip_attribute()
            return None
        if t == ";":
            self.eat()
            return None
        if self.is_macro() and self.peek() in imp.DROPPED_MACROS:
            self.macro()
            if self.peek() == ";":
                self.eat(";")
            return None
        if t == "let":
            self.eat("let")
            mutable = self.peek() == "mut"
            pat = self.pattern()
            ty = None
            if self.peek() == ":":
                self.eat(":")
                ty = self.type_()
            self.eat("=")
            e = self.expr()
            self.eat(";")
            return ("let", pat, mutable, ty, e)
        if t == "for":
            self.eat("for")
            pat = self.pattern()
            self.eat("in")
            it = self.expr(nostruct=True)
            body = self.block()
            return ("for", pat, it, body)
        if t == "loop":
            self.eat("loop")
            body = self.block()
            return ("loop", body)
        if t == "while":
            self.eat("while")
            if self.peek() == "let":
                self.eat("let")
                pat = self.mpattern()
                self.eat("=")
                e = self.expr(nostruct=True)
                return ("whilelet", pat, e, self.block())
            cond = self.expr(nostruct=True)
            return ("while", cond, self.block())
        if t in ("if", "match"):
            e = ("ifexpr", self.if_()) if t == "if" else self.match_()
            # a block-like expression statement; `.method()` / operators may not follow
            if self.peek() == ";":
                self.eat(";")
                return ("expr", e)
            if self.peek() == "}":
                return ("tail", e)
            return ("expr", e)
        return self.simple_statement()

    def if_(self):
        branches = []
        els = None
        while True:
            self.eat("if")
            if self.peek() == "let":
                self.eat("let")
                pat = self.mpattern()
                self.eat("=")
                e = self.expr(nostruct=True)
                cond = ("iflet", pat, e)
            else:
                cond = ("cond", self.expr(nostruct=True))
            blk = self.block()
            branches.append((cond, blk))
            if self.peek() == "else":
                self.eat("else")
                if self.peek() == "if":
                    continue
                els = self.block()
            break
        return ("if", branches, els)

    # ---- expressions
    def expr(self, nostruct=False):
        old = getattr(self, "nostruct", False)
        self.nostruct = nostruct
        try:
            e = self.binary(0)
            if self.peek() in ("..", "..="):
                incl = self.eat() == "..="
                hi = self.binary(0)
                e = ("rangei" if incl else "range", e, hi)
            return e
        finally:
            self.nostruct = old

    def postfix(self):
        e = self.primary()
        while True:
            t = self.peek()
            if t == ".":
                self.eat(".")
                if self.peekkind() == "num":
                    e = ("field", e, self.eat())
                    continue
                name = self.ident()
                g = self.turbofish()
                if self.peek() == "(":
                    e = ("mcall", e, name, g, self.args())
                else:
                    if g:
                        self.err("generic arguments on a field")
                    e = ("field", e, name)
            elif t == "(":
                e = ("call", e, self.args())
            elif t == "[":
                self.eat("[")
                old = self.nostruct
                self.nostruct = False
                idx = self.expr()
                self.nostruct = old
                self.eat("]")
                e = ("index", e, idx)
            elif t == "?":
                self.eat("?")
                e = ("try", e)
            else:
                return e

    def closure(self):
        self.eat("|")
        ps = []
        while self.peek() != "|":
            while self.peek() in ("&", "mut"):
                self.eat()
            p = self.ident()
            ty = None
            if self.peek() == ":":
                self.eat(":")
                ty = self.type_()
            ps.append((p, ty))
            if self.peek() == ",":
                self.eat(",")
        self.eat("|")
        ret = None
        if self.peek() == "->":
            self.eat("->")
            ret = self.type_()
        if self.peek() == "{":
            body = self.block()
        elif self.peek() == "match":
            body = [("tail", self.match_())]
        else:
            old = self.nostruct
            self.nostruct = False
            body = [("tail", self.expr())]
            self.nostruct = old
        return ("closure", ps, ret, body)

    def primary(self):
        kind, tok = self.peekkind(), self.peek()
        if kind == "chr":
            return ("chr", self.eat())
        if tok == "match":
            return self.match_()
        if tok == "|":
            return self.closure()
        if tok == "[":
            self.eat("[")
            old = self.nostruct
            self.nostruct = False
            items = []
            while self.peek() != "]":
                items.append(self.expr())
                if self.peek() == ",":
                    self.eat(",")
            self.eat("]")
            self.nostruct = old
            return ("array", items)
        if self.is_macro():
            m = self.macro()
            if m is None:
                self.err("dropped macro in expression position")
            return m
        if tok == "loop":
            self.err("`loop` in expression position")
        return super().primary()


# --------------------------------------------------------------------------------------------- types
LEAN_TY = dict(imp.LEAN_TY)
LEAN_TY.update({"Str": "List Char", "Chr": "Char", "U8": "Nat", "Unit": "Unit", "LStr": "String", "GoKind": "Rawr.T.GoType",
                "Arith": "Arith"})


def lean_ty(t):
    if isinstance(t, tuple):
        if t[0] in ("Opt", "Res"):
            return "Option " + lean_ty_atom(t[1])
        if t[0] == "Tup":
            return " × ".join(lean_ty_atom(x) for x in t[1])
        if t[0] in ("List", "Iter"):
            return "List " + lean_ty_atom(t[1])
        if t[0] == "Fun":
            return " → ".join([lean_ty_atom(x) for x in t[1]] + [("Option " + lean_ty_atom(t[2])) if t[3] else lean_ty_atom(t[2])])
    if t in LEAN_TY:
        return LEAN_TY[t]
    raise TranslateError(f"no Lean type for {t!r}")


def lean_ty_atom(t):
    s = lean_ty(t)
    return f"({s})" if " " in s else s


def known(t):
    """a fully determined type?"""
    if t in ("Lit", "?", None):
        return False
    if isinstance(t, tuple):
        if t[0] in ("Opt", "Res", "List", "Iter"):
            return known(t[1])
        if t[0] == "Tup":
            return all(known(x) for x in t[1])
    return True


class Fn:
    """a translated function: how to call it."""

    def __init__(self, lean, params, ret, monadic, hasself, selfty, mutparams, prints, needs_ar, needs_fuel):
        self.lean, self.params, self.ret, self.monadic, self.hasself, self.selfty = lean, params, ret, monadic, hasself, selfty
        self.mutparams, self.prints, self.needs_ar, self.needs_fuel = mutparams, prints, needs_ar, needs_fuel
        self.mutself = False


class Ctx(imp.Ctx):
    def __init__(self, tr, monadic, rettype):
        super().__init__(tr, monadic, rettype)
        self.fnstate = None      # shared per function: flags and hoisted definitions
        self.frames = []         # enclosing hoisting candidates
        self.locals = {}         # id(frame) -> names declared inside it
        self.loops = []          # enclosing loops: the `exited` flag of a `loop`, None for a `for`
        self.hoisting = False    # inside a loop that becomes its own definition (no `return`)
        self.pure_only = False   # inside a pure Lean term (no statements may be emitted)
        self.valtys = []

    def child(self):
        c = Ctx(self.tr, self.monadic, self.rettype)
        c.env = dict(self.env)
        c.unwrapped = dict(self.unwrapped)
        c.guards = set(self.guards)
        c.names = self.names
        c.in_closure = self.in_closure
        c.closure_fall = self.closure_fall
        c.fnstate = self.fnstate
        c.frames = self.frames
        c.locals = dict(self.locals)
        c.loops = self.loops
        c.hoisting = self.hoisting
        c.pure_only = self.pure_only
        c.valtys = self.valtys
        c.pending = []
        return c


class FnState:
    def __init__(self, name, u64):
        self.name = name
        self.u64 = u64               # "Nat" (counters) or "BB" (hashes)
        self.uses_ar = False
        self.uses_fuel = False
        self.prints = False
        self.hoisted = []            # Lean text of hoisted loop definitions
        self.nloops = 0
        self.uses_ar_known = False   # from the first pass
        self.uses_fuel_known = False
        self.selfty = None           # model type of `self`
        self.selfrust = None         # Rust name of the impl type
        self.ret = "Unit"
        self.mutparams = []          # rust names of &mut parameters (self first), in order
        self.selfinfo = None         # Fn of the function itself (recursion)


# --------------------------------------------------------------------------------------------- translator
U8OPS = {"+": "Rawr.u8add", "-": "Rawr.u8sub", "*": "Rawr.u8mul"}
PARSE = {"i32": ("Rawr.parseI32", "Int"), "u8": ("(Rawr.parseUnsigned 256)", "U8"),
         "u32": ("(Rawr.parseUnsigned (2^32))", "Nat"), "u64": ("(Rawr.parseUnsigned (2^64))", "Nat"),
         "usize": ("(Rawr.parseUnsigned (2^64))", "Nat")}
NATLIKE = ("Nat", "Sq", "U8", "Pc")
# search::settings::Type  (Rawr.T.GoType in RustTextPrelude.lean)
GOTYPE = {"Time": ["Nat", "Nat", ("Opt", "Nat"), ("Opt", "Nat"), ("Opt", "Nat")], "Movetime": ["Nat"], "Depth": ["Int"],
          "Nodes": ["Nat"], "Infinite": [], "Perft": ["U8"], "SplitPerft": ["U8"]}


class Frame:
    """one hoisting candidate (a loop): which outer variables its body reads / writes."""

    def __init__(self):
        self.reads, self.writes = [], []
        self.recursive = False


class Translator(imp.Translator):
    def __init__(self, base):
        super().__init__()
        self.fns = dict(base.fns)     # the chess core, translated by rust2lean_imp (R.* in RustImp.lean)
        self.tfns = {}                # functions translated here: rust key -> Fn
        self.current = None           # rust key of the function being compiled

    # ------------------------------------------------------------------ bookkeeping: reads / writes / locals
    def declare(self, c, rust, lean, ty, mut):
        c.env[rust] = (lean, ty, mut)
        c.names.add(lean)
        for f in c.frames:
            c.locals[id(f)] = c.locals.get(id(f), frozenset()) | {rust}

    def note(self, c, rust, write):
        for f in c.frames:
            if rust not in c.locals.get(id(f), ()):
                lst = f.writes if write else f.reads
                if rust not in lst:
                    lst.append(rust)

    def bind(self, text, ty, base, c, what):
        """`text : Option ty` must be `some`: bind its content in the Option monad just before the statement."""
        if not c.monadic:
            raise NeedMonad(what)
        if c.shortcircuit:
            raise TranslateError(what + ": a possibly panicking sub-expression on the right of `&&`/`||` is not supported")
        if c.pure_only:
            raise NotInline(what)
        v = c.fresh(base)
        c.pending.append(f"let {v} ← {text}")
        return Ex(v, ty)

    def effect(self, c, line, what):
        """a side effect of an expression (iterator advance): emitted just before the statement."""
        if c.shortcircuit:
            raise TranslateError(what + ": a side effect on the right of `&&`/`||` is not supported")
        if c.pure_only:
            raise NotInline(what)
        c.pending.append(line)

    def use_ar(self, c):
        c.fnstate.uses_ar = True
        return "ar"

    # ------------------------------------------------------------------ expressions
    def ex_chr(self, e, c):
        tok = e[1]
        byte = tok.startswith("b")
        ch = unescape(tok[2:-1] if byte else tok[1:-1])
        if len(ch) != 1:
            raise TranslateError("char literal " + tok)
        if byte:
            return Ex(f"(Rawr.asU8 {lean_char(ch)})", "U8")
        return Ex(lean_char(ch), "Chr", ord(ch))

    def ex_str(self, e, c):
        s = unescape(e[1][1:-1])
        x = Ex(lean_chars(s), "Str")
        x.lit = s
        return x

    def ex_num(self, e, c):
        tok = e[1]
        m = re.fullmatch(r"(0x[0-9a-fA-F_]+|\d[\d_]*?)(u64|u32|u8|i32|usize)?", tok)
        body, suf = m.group(1).replace("_", ""), m.group(2)
        val = int(body, 16) if body.startswith("0x") else int(body)
        if suf == "u8":
            return Ex(body, "U8", val)
        if suf == "u64" and c.fnstate.u64 == "Nat":
            return Ex(body, "Nat", val)
        return super().ex_num(e, c)

    def ex_path(self, e, c):
        segs, gen = e[1], e[2]
        if len(segs) >= 2 and segs[-2] == "Type" and segs[-1] in GOTYPE and not GOTYPE[segs[-1]] and not gen:
            return Ex("Rawr.T.GoType." + segs[-1][0].lower() + segs[-1][1:], "GoKind")
        if len(segs) == 1 and not gen and segs[0] in c.env:
            ln, ty, _ = c.env[segs[0]]
            self.note(c, segs[0], False)
            return Ex(ln, ty)
        return super().ex_path(e, c)

    def coerce(self, x, ty, what):
        if x.ty == ty:
            return x
        if x.ty == "Lit" and ty in NATLIKE + ("Int",):
            return Ex(x.text, ty, x.const)
        if x.ty in NATLIKE and ty in NATLIKE:
            return Ex(x.text, ty, x.const)
        if x.ty == "SqIdx" and ty in NATLIKE:
            return Ex(x.text, ty, x.const)
        if isinstance(ty, tuple) and isinstance(x.ty, tuple) and ty[0] == x.ty[0] and ty[0] in ("Opt", "Res", "List", "Iter") \
                and (not known(x.ty[1]) or x.ty[1] == ty[1] or (x.ty[1] in NATLIKE and ty[1] in NATLIKE)):
            return Ex(x.text, ty)
        if isinstance(ty, tuple) and isinstance(x.ty, tuple) and {ty[0], x.ty[0]} == {"List", "Iter"} and x.ty[1] == ty[1]:
            return Ex(x.text, ty)
        if isinstance(ty, tuple) and isinstance(x.ty, tuple) and ty[0] == "Tup" and x.ty[0] == "Tup" and len(ty[1]) == len(x.ty[1]):
            try:
                for a, b in zip(x.ty[1], ty[1]):
                    self.coerce(Ex("_", a), b, what)
                return Ex(x.text, ty)
            except TranslateError:
                pass
        return super().coerce(x, ty, what)

    def ex_field(self, e, c):
        base, f = e[1], e[2]
        if f in ("0", "1", "2", "3"):
            b = self.ex(base, c)
            if f == "0" and b.ty in ("U8", "Nat"):
                return b
            if isinstance(b.ty, tuple) and b.ty[0] == "Tup":
                k, n = int(f), len(b.ty[1])
                proj = ".2" * k + (".1" if k < n - 1 else "")
                return Ex(f"{b.text}{proj}", b.ty[1][k])
        return super().ex_field(e, c)

    def ex_index(self, e, c):
        base = e[1]
        if base[0] == "path" and len(base[1]) == 1 and base[1][0] in c.env:
            b = self.ex(base, c)
            if isinstance(b.ty, tuple) and b.ty[0] == "List":
                i = self.coerce(self.ex(e[2], c), "Nat", "index")
                return self.bind(f"{b.text}[{i.text}]?", b.ty[1], "ix", c, "array index")
        x = super().ex_index(e, c)
        # castle files are u8
        if e[1][0] == "field" and e[1][2] == "castle_files":
            return Ex(x.text, "U8", x.const)
        return x

    def ex_cast(self, e, c):
        tname = e[2][1] if e[2][0] == "ty" else None
        x = self.ex(e[1], c)
        if tname == "u8":
            if x.ty == "Chr":
                return Ex(f"(Rawr.asU8 {x.text})", "U8")
            if x.ty in NATLIKE or x.ty == "Lit":
                return Ex(f"(Rawr.T.toU8 {x.text})", "U8")
            raise TranslateError(f"cast of {x.ty} to u8")
        if tname == "char":
            if x.ty in ("U8",):
                return Ex(f"(Char.ofNat {x.text})", "Chr")
            raise TranslateError(f"cast of {x.ty} to char")
        if tname in ("usize", "u32", "u64") and x.ty in NATLIKE:
            return Ex(x.text, "Nat", x.const)
        if tname == "u64" and x.ty == "Int" and c.fnstate.u64 == "Nat":
            return Ex(f"(Int.toNat {x.text})", "Nat")
        if tname == "i32" and x.ty in NATLIKE:
            return Ex(f"({x.text} : Int)", "Int")
        return super().ex_cast(e, c)

    def ex_unary(self, e, c):
        return super().ex_unary(e, c)

    def ex_array(self, e, c):
        xs = [self.ex(x, c) for x in e[1]]
        tys = {repr(x.ty) for x in xs if x.ty != "Lit"}
        if len(tys) > 1:
            raise TranslateError("array literal of mixed types")
        ty = next((x.ty for x in xs if x.ty != "Lit"), "Lit")
        return Ex("[" + ", ".join(x.text for x in xs) + "]", ("List", ty))

    def ex_range(self, e, c, incl=False):
        lo, hi = self.ex(e[1], c), self.ex(e[2], c)
        ty = next((x.ty for x in (lo, hi) if x.ty != "Lit"), "Nat")
        if ty not in NATLIKE:
            raise TranslateError(f"range over {ty}")
        lo, hi = self.coerce(lo, ty, "range"), self.coerce(hi, ty, "range")
        hit = f"({hi.text} + 1)" if incl else hi.text
        if lo.const == 0:
            return Ex(f"(List.range {hit})", ("List", ty))
        return Ex(f"(Rawr.T.range {lo.text} {hit})", ("List", ty))

    def ex_rangei(self, e, c):
        return self.ex_range(e, c, incl=True)

    def ex_binary(self, e, c):
        op, l, r = e[1], e[2], e[3]
        if op in ("&&", "||"):
            return super().ex_binary(e, c)
        save = (list(c.pending), set(c.names))
        a, b = self.ex(l, c), self.ex(r, c)
        tys = (a.ty, b.ty)
        if op in ("==", "!=") and "Str" in tys:
            a, b = self.coerce(a, "Str", op), self.coerce(b, "Str", op)
            return Ex(f"({a.text} {op} {b.text})", "Bool")
        if op in ("==", "!=", "<", ">", "<=", ">=") and ("Chr" in tys or "U8" in tys):
            t = "Chr" if "Chr" in tys else "U8"
            a, b = self.coerce(a, t, op), self.coerce(b, t, op)
            return Ex(f"({a.text} {op} {b.text})", "Bool")
        if op in ("==", "!=") and is_opt(a.ty) and is_opt(b.ty):
            b = self.coerce(b, a.ty, op) if known(a.ty) else b
            return Ex(f"({a.text} {op} {b.text})", "Bool")
        if op in ("==", "!=") and a.ty == "Bool" and b.ty == "Bool":
            return Ex(f"({a.text} {op} {b.text})", "Bool")
        if op == "+" and a.ty == "Str":
            b = self.coerce(b, "Str", op)
            return Ex(f"({a.text} ++ {b.text})", "Str")
        if op in U8OPS and "U8" in tys:
            a, b = self.coerce(a, "U8", op), self.coerce(b, "U8", op)
            return self.bind(f"({U8OPS[op]} {self.use_ar(c)} {a.text} {b.text})", "U8", "u", c, "u8 " + op)
        if op in ("/", "%") and "U8" in tys:
            a, b = self.coerce(a, "U8", op), self.coerce(b, "U8", op)
            return Ex(f"({a.text} {op} {b.text})", "U8")
        c.pending[:] = save[0]
        return super().ex_binary(e, c)

    # ---- struct literals
    def ex_struct(self, e, c):
        segs, fields = e[1], e[2]
        if segs[-1] in ("Position", "Self") and (segs[-1] == "Position" or c.fnstate.selfty == "Pos"):
            ups = []
            seen = set()
            for f, v in fields:
                if f in imp.POS_FIELDS:
                    lf, ty = imp.POS_FIELDS[f]
                    ups.append((lf, self.coerce(self.ex(v, c), ty, "field " + f).text))
                elif f in imp.POS_ARRAYS:
                    pre, n, ty = imp.POS_ARRAYS[f]
                    if v[0] != "array" or len(v[1]) != n:
                        raise TranslateError(f"Position literal: {f} must be an array of {n}")
                    for k, item in enumerate(v[1]):
                        ups.append((f"{pre}{k}", self.coerce(self.ex(item, c), ty, "field " + f).text))
                else:
                    raise TranslateError("Position literal: unknown field " + f)
                seen.add(f)
            missing = (set(imp.POS_FIELDS) | set(imp.POS_ARRAYS)) - seen
            if missing:
                raise TranslateError("Position literal: missing fields " + ", ".join(sorted(missing)))
            return Ex("({ " + ", ".join(f"{f} := {v}" for f, v in ups) + " } : Position)", "Pos")
        if segs == ["Self"] and c.fnstate.selfty == "Mv":
            e = ("struct", ["Mv"], fields)
        return super().ex_struct(e, c)

    # ---- calls
    def closure_pure(self, clo, argtys, c, what):
        """`|x, ..| expr` as a pure Lean lambda: (text, result type)."""
        ps, ret, body = clo[1], clo[2], clo[3]
        if len(ps) != len(argtys):
            raise TranslateError(what + ": closure arity")
        sub = c.child()
        sub.pure_only = True
        names = []
        for (p, t), aty in zip(ps, argtys):
            lp = imp.lname(p)
            self.declare(sub, p, lp, self.conv(t, c) if t is not None else aty, False)
            names.append(lp)
        if len(body) != 1 or body[0][0] != "tail":
            raise TranslateError(what + ": only expression closures are supported here")
        try:
            v = self.ex(body[0][1], sub)
        except NotInline as ex:
            raise TranslateError(what + ": the closure body must be a pure expression (" + str(ex) + ")")
        return f"(fun {' '.join(names)} => {v.text})", v.ty

    def closure_monadic(self, clo, argtys, c, what):
        """`|x| expr` whose body can panic, as `fun x => do ..; pure expr` in the Option monad."""
        ps, ret, body = clo[1], clo[2], clo[3]
        if len(ps) != len(argtys) or len(body) != 1 or body[0][0] != "tail":
            raise TranslateError(what + ": closure form")
        self.need_monad(c, what)
        sub = c.child()
        sub.pure_only = False
        sub.shortcircuit = 0
        names = []
        for (p, t), aty in zip(ps, argtys):
            lp = imp.lname(p)
            self.declare(sub, p, lp, self.conv(t, c) if t is not None else aty, False)
            names.append(lp)
        v = self.coerce(self.ex(body[0][1], sub), "Bool", what)
        binds = "; ".join(sub.pending)
        sub.pending = []
        return f"(fun {' '.join(names)} => do {binds}; pure {v.text})"

    def conv(self, t, c=None):
        """Rust type -> model type (text side)."""
        if t is None:
            return "Unit"
        if t[0] == "tuple":
            return "Unit" if not t[1] else ("Tup", [self.conv(x, c) for x in t[1]])
        if t[0] == "fn":
            return ("Fn", [self.conv(x, c) for x in t[2]])
        _, name, args = t
        u64 = c.fnstate.u64 if c is not None else "Nat"
        simple = {"u8": "U8", "char": "Chr", "str": "Str", "String": "Str", "u64": u64, "u32": "Nat", "usize": "Nat",
                  "SplitAsciiWhitespace": ("Iter", "Str"), "Formatter": "Str", "Result": "Unit" if not args else None,
                  "Type": "GoKind"}
        if name in simple and simple[name] is not None and (not args or name == "SplitAsciiWhitespace"):
            return simple[name]
        if name == "Self" and c is not None:
            return c.fnstate.selfty
        if name == "Option" and len(args) == 1:
            return ("Opt", self.conv(args[0], c))
        if name == "Vec" and len(args) == 1:
            return ("List", self.conv(args[0], c))
        if name == "Result" and len(args) == 2:
            a = self.conv(args[0], c)
            if a == "Unit":
                return imp.conv_type(t)
            return ("Res", a)
        return imp.conv_type(t)

    def ex_call(self, e, c):
        f, args = e[1], e[2]
        if f[0] != "path":
            raise TranslateError("call of a non-path")
        segs, gen = f[1], f[2]
        key = "::".join(segs)
        res = isinstance(c.rettype, tuple) and c.rettype[0] == "Res"
        if key == "Ok" and len(args) == 1 and (res or args[0][0] != "unit"):
            a = self.ex(args[0], c)
            return Ex(f"(some {a.text})", ("Res", a.ty))
        if key == "Err" and len(args) == 1 and res:
            self.ex(args[0], c)                      # must be translatable; the payload is erased
            return Ex("none", ("Res", "?"))
        if len(segs) >= 2 and segs[-2] == "Type" and segs[-1] in GOTYPE:
            tys = GOTYPE[segs[-1]]
            if len(tys) != len(args):
                raise TranslateError(key + ": wrong number of arguments")
            as_ = [self.coerce(self.ex(a, c), t, key) for a, t in zip(args, tys)]
            return Ex(self.app("Rawr.T.GoType." + segs[-1][0].lower() + segs[-1][1:], as_), "GoKind")
        if key in ("String::from",) and len(args) == 1:
            return self.coerce(self.ex(args[0], c), "Str", key)
        if key in ("String::new", "String::default") and not args:
            return Ex("([] : List Char)", "Str")
        if key in ("Vec::new",) and not args:
            return Ex("[]", ("List", "?"))
        if key == "Square" and len(args) == 1:
            a = self.ex(args[0], c)
            return self.coerce(a, "Sq", "Square(..)")
        if key == "Bitboard::from_square" and len(args) == 1:
            a = self.coerce(self.ex(args[0], c), "Sq", key)
            return self.bind(f"(Rawr.bitAr {self.use_ar(c)} {a.text})", "BB", "bb", c, key)
        if key in ("Bitboard::ray_east", "Bitboard::ray_west") and len(args) == 1:
            a = self.coerce(self.ex(args[0], c), "Sq", key)
            return Ex(f"(Rawr.{'rayEastBB' if key.endswith('east') else 'rayWestBB'} {a.text})", "BB")
        # a local closure
        if len(segs) == 1 and segs[0] in c.env and isinstance(c.env[segs[0]][1], tuple) and c.env[segs[0]][1][0] == "Fun":
            ln, (_, atys, rty, mon), _ = c.env[segs[0]]
            self.note(c, segs[0], False)
            if len(atys) != len(args):
                raise TranslateError(key + ": wrong number of arguments")
            as_ = [self.coerce(self.ex(a, c), t, key) for a, t in zip(args, atys)]
            text = self.app(ln, as_)
            return self.bind(text, rty, segs[0] + "_r", c, key) if mon else Ex(text, rty)
        # functions translated here
        for cand in (key, segs[-1] if len(segs) == 2 else None, c.fnstate.selfrust + "::" + segs[-1] if segs[0] == "Self" else None):
            if cand and (cand in self.tfns or cand == self.current):
                return self.call_t(cand, None, args, gen, c)
        return super().ex_call(e, c)

    def call_t(self, key, recv, args, gen, c, stmt=False):
        """call of a function translated in this file (expression position: no &mut parameters, no output)."""
        rec = key == self.current
        if rec:
            c.fnstate.uses_fuel = True
            for f in c.frames:
                f.recursive = True
            info = c.fnstate.selfinfo
        else:
            info = self.tfns[key]
        if (info.mutparams or info.prints) and not stmt:
            raise TranslateError(key + ": a function with &mut parameters / output in expression position")
        n_in = len(info.params)
        if len(args) + len(gen) != n_in:
            raise TranslateError(key + ": wrong number of arguments")
        as_ = []
        for a, (_, t) in zip(list(args) + [("path", [g], []) for g in gen], info.params):
            as_.append(self.coerce(self.ex(a, c), t, key))
        pre = []
        if info.needs_fuel or rec:
            c.fnstate.uses_fuel = True
            pre.append(Ex("fuel", "Nat"))
        if info.needs_ar:
            pre.append(Ex(self.use_ar(c), "Arith"))
        text = self.app("R." + info.lean, pre + ([recv] if recv is not None else []) + as_)
        if stmt:
            return text, info
        if info.monadic:
            return self.bind(text, info.ret, info.lean + "_r", c, key)
        return Ex(text, info.ret)

    def ex_mcall(self, e, c):
        recv_ast, name, gen, args = e[1], e[2], e[3], e[4]
        # ---- iterator adaptors that need the syntax of the receiver
        if name == "any" and len(args) == 1 and args[0][0] == "closure":
            r = self.ex(recv_ast, c)
            if isinstance(r.ty, tuple) and r.ty[0] in ("List", "Iter"):
                f, fty = self.closure_pure(args[0], [r.ty[1]], c, "any")
                return Ex(f"({r.text}.any {f})", "Bool")
        if name == "find" and len(args) == 1 and args[0][0] == "closure":
            r = self.ex(recv_ast, c)
            if isinstance(r.ty, tuple) and r.ty[0] == "List":
                try:
                    f, fty = self.closure_pure(args[0], [r.ty[1]], c, "find")
                    return Ex(f"({r.text}.find? {f})", ("Opt", r.ty[1]))
                except TranslateError:
                    # a predicate that can panic: `List.findM?` in the Option monad (the items are tested in order)
                    f = self.closure_monadic(args[0], [r.ty[1]], c, "find")
                    return self.bind(f"({r.text}.findM? {f})", ("Opt", r.ty[1]), "found", c, "find")
        if name == "fold" and len(args) == 2 and args[1][0] == "closure":
            r = self.ex(recv_ast, c)
            init = self.ex(args[0], c)
            if isinstance(r.ty, tuple) and r.ty[0] in ("List", "Iter"):
                f, fty = self.closure_pure(args[1], [init.ty, r.ty[1]], c, "fold")
                return Ex(f"({r.text}.foldl {f} {init.text})", init.ty)
        if name == "take_while" and len(args) == 1 and args[0][0] == "closure" and recv_ast[0] == "path" and len(recv_ast[1]) == 1:
            r = self.ex(recv_ast, c)
            if isinstance(r.ty, tuple) and r.ty[0] == "Iter" and c.env[recv_ast[1][0]][2]:
                f, fty = self.closure_pure(args[0], [r.ty[1]], c, "take_while")
                tw = c.fresh("tw")
                self.effect(c, f"let {tw} : {lean_ty(('List', r.ty[1]))} := {r.text}.takeWhile {f}", "take_while")
                # the first element that fails the test is consumed as well
                self.effect(c, f"{r.text} := ({r.text}.dropWhile {f}).drop 1", "take_while")
                self.note(c, recv_ast[1][0], True)
                return Ex(tw, ("List", r.ty[1]))
        if name == "next" and not args and recv_ast[0] == "path" and len(recv_ast[1]) == 1:
            r = self.ex(recv_ast, c)
            if isinstance(r.ty, tuple) and r.ty[0] == "Iter":
                if not c.env[recv_ast[1][0]][2]:
                    raise TranslateError("next() on an immutable iterator")
                nx = c.fresh("nx")
                self.effect(c, f"let {nx} : {lean_ty(('Opt', r.ty[1]))} := {r.text}.head?", "next()")
                self.effect(c, f"{r.text} := {r.text}.tail", "next()")
                self.note(c, recv_ast[1][0], True)
                return Ex(nx, ("Opt", r.ty[1]))
        if name == "parse" and not args and len(gen) == 1:
            r = self.coerce(self.ex(recv_ast, c), "Str", "parse")
            if gen[0] not in PARSE:
                raise TranslateError("parse::<" + gen[0] + ">")
            fn, ty = PARSE[gen[0]]
            if gen[0] in ("u64", "usize") and c.fnstate.u64 != "Nat":
                raise TranslateError("parse::<u64> in a function whose u64 are hashes")
            return Ex(f"({fn} {r.text})", ("Res", ty))
        if name == "to_uci" and len(args) == 1:
            r = self.ex(recv_ast, c)
            if r.ty == "Mv" and "Mv::to_uci" in self.tfns:
                return self.call_t("Mv::to_uci", r, args, gen, c)
        r = self.ex(recv_ast, c)
        t = r.ty
        ctor = t[0] if isinstance(t, tuple) else None
        if name == "unwrap" and not args and ctor in ("Opt", "Res"):
            return self.bind(r.text, t[1], "u", c, "unwrap of " + r.text)
        if name in ("is_some", "is_ok") and not args and ctor in ("Opt", "Res"):
            return Ex(f"(Option.isSome {r.text})", "Bool")
        if name in ("is_none", "is_err") and not args and ctor in ("Opt", "Res"):
            return Ex(f"(Option.isNone {r.text})", "Bool")
        if name == "ok" and not args and ctor == "Res":
            return Ex(r.text, ("Opt", t[1]))
        if name == "as_ref" and not args:
            return r
        if name == "unwrap_or_default" and not args and ctor == "Opt" and t[1] == "Str":
            return Ex(f"({r.text}.getD [])", "Str")
        if name == "unwrap_or" and len(args) == 1 and ctor == "Opt":
            d = self.coerce(self.ex(args[0], c), t[1], name)
            return Ex(f"({r.text}.getD {d.text})", t[1])
        if t == "Str":
            if name in ("chars", "to_string", "as_str", "to_owned") and not args:
                return r
            if name == "len" and not args:
                return Ex(f"(Rawr.strLen {r.text})", "Nat")
            if name == "is_empty" and not args:
                return Ex(f"({r.text}.isEmpty)", "Bool")
            if name == "split" and len(args) == 1:
                a = self.ex(args[0], c)
                if a.ty == "Chr" and a.const == 32:
                    return Ex(f"(Rawr.splitSpace {r.text})", ("Iter", "Str"))
                raise TranslateError("split: only split(' ') is mapped")
            if name == "split_ascii_whitespace" and not args:
                return Ex(f"(Rawr.splitWs {r.text})", ("Iter", "Str"))
            if name == "trim" and not args:
                return Ex(f"(Rawr.rustTrim {r.text})", "Str")
        if ctor in ("List", "Iter") and t[1] == "Chr" or t == "Str":
            if name == "nth" and len(args) == 1:
                i = self.coerce(self.ex(args[0], c), "Nat", "nth")
                return Ex(f"{r.text}[{i.text}]?", ("Opt", "Chr"))
        if ctor in ("List", "Iter"):
            if name in ("iter", "by_ref", "into_iter") and not args:
                return r
            if name == "rev" and not args:
                return Ex(f"({r.text}.reverse)", t)
            if name == "contains" and len(args) == 1:
                a = self.coerce(self.ex(args[0], c), t[1], name)
                return Ex(f"({r.text}.contains {a.text})", "Bool")
            if name == "is_empty" and not args:
                return Ex(f"({r.text}.isEmpty)", "Bool")
            if name == "len" and not args:
                return Ex(f"({r.text}.length)", "Nat")
        if t == "Chr":
            if name == "to_ascii_uppercase" and not args:
                return Ex(f"(Char.toUpper {r.text})", "Chr")
            if name == "to_ascii_lowercase" and not args:
                return Ex(f"(Char.toLower {r.text})", "Chr")
        if t == "Int" and name == "to_string" and not args:
            return Ex(f"(Rawr.intToChars {r.text})", "Str")
        if t == "Sq" and name == "to_string" and not args and "Square::fmt" in self.tfns:
            info = self.tfns["Square::fmt"]
            return self.bind(f"(R.{info.lean} {r.text} [])", "Str", "sq_s", c, "Square::to_string")
        if t == "U8" and name == "saturating_sub" and len(args) == 1:
            a = self.coerce(self.ex(args[0], c), "U8", name)
            return Ex(f"({r.text} - {a.text})", "U8")          # Nat subtraction truncates at 0
        if t in NATLIKE and name in ("max", "min") and len(args) == 1:
            a = self.coerce(self.ex(args[0], c), t, name)
            return Ex(f"({name} {r.text} {a.text})", t)
        if t in NATLIKE and name == "clamp" and len(args) == 2:
            a, b = (self.coerce(self.ex(x, c), t, name) for x in args)
            return Ex(f"(max {a.text} (min {r.text} {b.text}))", t)
        # methods translated here (no &mut self)
        selfkey = {"Pos": "Position", "Mv": "Mv", "Sq": "Square"}.get(t)
        if selfkey:
            key = selfkey + "::" + name
            if key in self.tfns or key == self.current:
                return self.call_t(key, r, args, gen, c)
        if t == "Pos":
            key = "Position::" + name
            if key in self.fns:
                info = self.fns[key]
                if info.mutself:
                    raise TranslateError(name + ": mutating method in expression position")
                # rust2lean_imp's call (its own unwrap cache is not used here)
                if len(args) + len(gen) != len(info.params):
                    raise TranslateError(key + ": wrong number of arguments")
                as_ = [self.coerce(self.ex(a, c), ty, key) for a, (_, ty) in zip(args, info.params)]
                for g, (_, ty) in zip(gen, info.params[len(args):]):
                    as_.append(self.coerce(self.ex(("path", [g], []), c), ty, key))
                text = self.app("R." + info.lean, [r] + as_)
                ret = "Nat" if key == "Position::count_moves" else info.ret
                if info.monadic:
                    return self.bind(text, ret, info.lean + "_r", c, key)
                return Ex(text, ret)
        if (t, name) in imp.PRIM_METHODS and not gen:
            fn, tys, rt = imp.PRIM_METHODS[(t, name)]
            if len(tys) != len(args):
                raise TranslateError(name + ": wrong number of arguments")
            as_ = [self.coerce(self.ex(a, c), ty, name) for a, ty in zip(args, tys)]
            return Ex(self.app(fn, [r] + as_), rt)
        raise TranslateError(f"method not in the translated set: {t}.{name}")

    # ---- format strings
    def display(self, x, spec):
        if spec == "":
            if x.ty == "Str":
                return f"String.ofList {x.text}"
            if x.ty == "LStr":
                return x.text
            if x.ty == "Chr":
                return f"String.singleton {x.text}"
            if x.ty in NATLIKE or x.ty in ("Int", "Bool"):
                return f"toString {x.text}"
        if spec == ":#x" and x.ty == "BB":
            return f"Rawr.hexLine {x.text}"
        raise TranslateError(f"format hole `{{{spec}}}` of type {x.ty}")

    def format_pieces(self, args, c, what):
        """format string + arguments -> list of Lean String terms."""
        if not args or args[0][0] != "str":
            raise TranslateError(what + ": the format must be a string literal")
        fmt = unescape(args[0][1][1:-1])
        rest = list(args[1:])
        pieces, pos = [], 0
        for m in re.finditer(r"\{\{|\}\}|\{([A-Za-z_][A-Za-z0-9_]*)?(:[^}]*)?\}", fmt):
            if m.group(0) in ("{{", "}}"):
                raise TranslateError(what + ": escaped braces")
            if m.start() > pos:
                pieces.append(lean_string(fmt[pos:m.start()]))
            pos = m.end()
            if m.group(1):
                x = self.ex(("path", [m.group(1)], []), c)
            else:
                if not rest:
                    raise TranslateError(what + ": too few arguments")
                x = self.ex(rest.pop(0), c)
            pieces.append("(" + self.display(x, m.group(2) or "") + ")")
        if pos < len(fmt):
            pieces.append(lean_string(fmt[pos:]))
        if rest:
            raise TranslateError(what + ": too many arguments")
        return pieces or ['""']

    def ex_macro(self, e, c):
        name, args = e[1], e[2]
        if name == "format":
            ps = self.format_pieces(args, c, "format!")
            return Ex("(" + " ++ ".join(ps) + ").toList", "Str")
        if name in ("panic", "unreachable"):
            raise NotInline("panic!")
        raise TranslateError(f"macro {name}! in expression position")

    # ---- pure inline forms of if / match / block expressions
    def ex_ifexpr(self, e, c):
        _, branches, els = e[1]
        if els is None:
            raise NotInline("if without else")
        sub = c.child()
        sub.pure_only = True
        out, tys = "", []
        for cond, blk in branches:
            if cond[0] != "cond":
                raise NotInline("if let")
            ct = self.coerce(self.ex(cond[1], sub), "Bool", "if condition")
            v = self.block_pure(blk, sub)
            tys.append(v)
            out += f"if {ct.text} then {v.text} else "
        v = self.block_pure(els, sub)
        tys.append(v)
        ty = self.join_types([x.ty for x in tys])
        return Ex("(" + out + v.text + ")", ty)

    def join_types(self, tys):
        ks = [t for t in tys if t != "Lit" and known(t)]
        if not ks:
            return tys[0]
        t0 = ks[0]
        for t in ks[1:]:
            if t != t0 and not (t in NATLIKE and t0 in NATLIKE):
                raise TranslateError(f"branches of different types: {t0} / {t}")
        return t0

    def block_pure(self, blk, c):
        """`{ let a = ..; let b = ..; value }` as a pure Lean term."""
        sub = c.child()
        sub.pure_only = True
        lets = []
        for s in blk[:-1]:
            if s[0] != "let" or s[1][0] != "pvar" or s[2]:
                raise NotInline("statement in a value block")
            v = self.ex(s[4], sub)
            ty = self.conv(s[3], c) if s[3] is not None else v.ty
            v = self.coerce(v, ty, "let") if s[3] is not None else v
            ln = imp.lname(s[1][1])
            self.declare(sub, s[1][1], ln, ty, False)
            lets.append(f"let {ln} : {lean_ty(ty)} := {v.text}; " if known(ty) else f"let {ln} := {v.text}; ")
        if not blk or blk[-1][0] != "tail":
            raise NotInline("block without a value")
        v = self.ex(blk[-1][1], sub)
        if sub.pending:
            raise NotInline("effects in a value block")
        if lets:
            return Ex("(" + "".join(lets) + v.text + ")", v.ty, v.const)
        return v

    def ex_blockexpr(self, e, c):
        return self.block_pure(e[1], c)

    def ex_match(self, e, c):
        scrut, arms = e[1], e[2]
        sub = c.child()
        sub.pure_only = True
        s = self.ex(scrut, sub)
        if self.needs_chain(arms):
            raise NotInline("match with string / range patterns")
        out, vals = [], []
        for pat, guard, body in arms:
            if guard is not None:
                raise NotInline("match guard")
            arm = sub.child()
            arm.pure_only = True
            ptxt = self.lean_pattern(pat, s.ty, arm)
            v = self.block_pure(body, arm)
            vals.append(v)
            out.append(f"| {ptxt} => {v.text}")
        ty = self.join_types([v.ty for v in vals])
        return Ex(f"(match {s.text} with " + " ".join(out) + ")", ty)

    # ------------------------------------------------------------------ patterns
    def needs_chain(self, arms):
        def bad(p):
            k = p[0]
            if k == "prange":
                return True
            if k == "plit":
                return p[1][0] == "str"
            if k in ("ptup", "por"):
                return any(bad(x) for x in p[1])
            if k == "pctor":
                return any(bad(x) for x in (p[2] or []))
            return False
        return any(bad(p) for p, _, _ in arms)

    def pat_lit(self, lit, c):
        x = self.ex(lit, c)
        if x.ty == "Lit" or x.ty in NATLIKE or x.ty in ("Chr", "Str", "Int", "Unit", "Bool"):
            return x
        raise TranslateError("literal pattern of type " + str(x.ty))

    def lean_pattern(self, p, ty, c):
        """a Rust pattern as a Lean pattern; declares the bound variables in `c`."""
        k = p[0]
        if k == "pwild":
            return "_"
        if k == "pbind":
            ln = imp.lname(p[1])
            self.declare(c, p[1], ln, ty, False)
            return ln
        if k == "plit":
            return self.pat_lit(p[1], c).text
        if k == "por":
            return " | ".join(self.lean_pattern(x, ty, c) for x in p[1])
        if k == "ptup":
            tys = ty[1] if isinstance(ty, tuple) and ty[0] == "Tup" and len(ty[1]) == len(p[1]) else ["?"] * len(p[1])
            return "(" + ", ".join(self.lean_pattern(x, t, c) for x, t in zip(p[1], tys)) + ")"
        if k == "pctor":
            segs, items = p[1], p[2]
            key = "::".join(segs)
            inner = ty[1] if isinstance(ty, tuple) and ty[0] in ("Opt", "Res") else "?"
            if key == "Some" and items is not None and len(items) == 1:
                return "(some " + self.lean_pattern(items[0], inner, c) + ")"
            if key == "None" and items is None:
                return "none"
            if key == "Ok" and items is not None and len(items) == 1:
                if isinstance(ty, tuple) and ty[0] == "Res":
                    return "(some " + self.lean_pattern(items[0], inner, c) + ")"
                if ty == ("Opt", "Str") and items[0] == ("plit", ("unit",)):
                    return "none"                      # rust2lean_imp's Result<(), &str>
            if key == "Err" and items is not None and len(items) == 1:
                if isinstance(ty, tuple) and ty[0] == "Res":
                    if items[0][0] not in ("pwild", "pbind"):
                        raise TranslateError("Err(..) pattern with structure (the error payload is erased)")
                    if items[0][0] == "pbind":
                        self.declare(c, items[0][1], imp.lname(items[0][1]), "Erased", False)
                    return "none"
                if ty == ("Opt", "Str"):
                    return "(some " + self.lean_pattern(items[0], "LStr", c) + ")"
            if items is None and len(segs) == 2 and (segs[0], segs[1]) in imp.ENUMS:
                return imp.ENUMS[(segs[0], segs[1])][0]
            if segs[-2:-1] == ["Type"] or (len(segs) >= 2 and segs[-2] == "Type"):
                name = "Rawr.T.GoType." + segs[-1][0].lower() + segs[-1][1:]
                if items is None:
                    return name
                return "(" + name + " " + " ".join(self.lean_pattern(x, "?", c) for x in items) + ")"
        raise TranslateError("pattern not supported: " + repr(p)[:80])

    def chain_cond(self, p, acc, ty, c):
        """a Rust pattern as a Boolean test on the Lean term `acc` (None = always matches) + let-bindings."""
        k = p[0]
        if k == "pwild":
            return None, []
        if k == "pbind":
            ln = imp.lname(p[1])
            self.declare(c, p[1], ln, ty, False)
            return None, [f"let {ln}" + (f" : {lean_ty(ty)}" if known(ty) else "") + f" := {acc}"]
        if k == "plit":
            x = self.pat_lit(p[1], c)
            return f"({acc} == {x.text})", []
        if k == "prange":
            lo, hi = self.pat_lit(p[1], c), self.pat_lit(p[2], c)
            return f"({lo.text} ≤ {acc} && {acc} ≤ {hi.text})", []
        if k == "por":
            cs = []
            for x in p[1]:
                cnd, b = self.chain_cond(x, acc, ty, c)
                if b or cnd is None:
                    raise TranslateError("or-pattern with bindings / wildcards")
                cs.append(cnd)
            return "(" + " || ".join(cs) + ")", []
        if k == "pctor" and "::".join(p[1]) == "Some" and p[2] is not None and len(p[2]) == 1 and p[2][0][0] == "plit":
            x = self.pat_lit(p[2][0][1], c)
            return f"({acc} == some {x.text})", []
        if k == "pctor" and "::".join(p[1]) == "None" and p[2] is None:
            return f"({acc} == none)", []
        raise TranslateError("pattern not supported in a match with string / range patterns: " + repr(p)[:60])

    # ------------------------------------------------------------------ statements
    def flush(self, c, ind, lines):
        for p in c.pending:
            lines.append(" " * ind + p)
        c.pending = []

    def pure_kw(self, c):
        return "pure"

    def finish(self, c, val):
        """the function result: [value] + updated &mut parameters + [out]."""
        st = c.fnstate
        parts = []
        if st.ret != "Unit":
            if val is None:
                raise TranslateError("missing return value")
            parts.append(val)
        elif val is not None and val != "()":
            raise TranslateError("value returned from a function without result")
        for rust in st.mutparams:
            parts.append(c.env[rust][0])
        if st.prints:
            parts.append("out")
        if not parts:
            return "()"
        return parts[0] if len(parts) == 1 else "(" + ", ".join(parts) + ")"

    def value_form(self, e):
        while e[0] == "paren":
            e = e[1]
        return e[0] in ("ifexpr", "match", "blockexpr")

    def block(self, stmts, c, ind, mode):
        """mode: 'fn' (function body), 'value' (yields the block's value with `pure`), 'unit' (statements)."""
        lines = []
        n = len(stmts)
        for i, s in enumerate(stmts):
            rest = stmts[i + 1:]
            last = i == n - 1
            k = s[0]
            if k == "let":
                self.do_let(s, rest, c, ind, lines)
            elif k == "assign":
                self.do_assign(s, c, ind, lines)
            elif k == "expr":
                self.do_expr_stmt(s[1], c, ind, lines)
            elif k == "for":
                self.do_for(s, c, ind, lines)
            elif k == "loop":
                self.do_loop(s, c, ind, lines)
            elif k in ("while", "whilelet"):
                raise TranslateError("`while` loops are not supported")
            elif k == "break":
                self.do_break(c, ind, lines)
            elif k == "continue":
                self.do_continue(c, ind, lines)
            elif k == "return":
                if s[1] is None:
                    lines.append(" " * ind + self.return_text(c, self.finish(c, None)))
                else:
                    self.do_value(s[1], c, ind, lines,
                                  lambda v: self.return_text(c, self.finish(c, self.coerce(v, c.fnstate.ret, "return value").text)),
                                  c.fnstate.ret)
            elif k == "tail":
                if not last:
                    raise TranslateError("internal: tail in the middle")
                self.do_tail(s[1], c, ind, lines, mode)
                return lines
            else:
                raise TranslateError("statement kind " + k)
        if mode == "fn":
            lines.append(" " * ind + "return " + self.finish(c, None))
        elif mode == "value":
            if not (stmts and self.diverges(stmts[-1])):
                raise TranslateError("control reaches the end of a block that must produce a value")
        elif not lines:
            lines.append(" " * ind + "pure ()")
        return lines

    def diverges(self, s):
        if s[0] in ("return", "break", "continue"):
            return True
        if s[0] in ("expr", "tail"):
            e = s[1]
            if e[0] == "macro" and e[1] in ("panic", "unreachable"):
                return True
            if e[0] == "ifexpr":
                _, br, els = e[1]
                return els is not None and all(b and self.diverges(b[-1]) for _, b in br) and bool(els) and self.diverges(els[-1])
            if e[0] == "match":
                return all(b and self.diverges(b[-1]) for _, _, b in e[2])
        return False

    def do_tail(self, e, c, ind, lines, mode):
        if mode == "fn":
            if c.fnstate.ret == "Unit":
                self.do_expr_stmt(e, c, ind, lines)
                lines.append(" " * ind + "return " + self.finish(c, None))
            else:
                self.do_value(e, c, ind, lines, lambda v: "return " + self.finish(c, self.coerce(v, c.fnstate.ret, "result").text), c.fnstate.ret)
        elif mode == "value":
            self.do_value(e, c, ind, lines, lambda v: self.record_ty(c, v) or f"pure {v.text}", None)
        else:
            self.do_expr_stmt(e, c, ind, lines)

    def record_ty(self, c, v):
        c.valtys.append(v.ty)
        return None

    def do_value(self, e, c, ind, lines, wrap, want):
        """emit the do-element that finishes with `wrap(value)`; control flow inside the value is kept."""
        while e[0] == "paren":
            e = e[1]
        if e[0] == "macro" and e[1] in ("panic", "unreachable"):
            self.check_panic_args(e, c)
            self.need_monad(c, "panic!")
            lines.append(" " * ind + "none")
            return
        if self.value_form(e):
            snap = (list(c.pending), set(c.names))
            try:
                v = self.ex(e, c)
                if c.pending != snap[0]:
                    raise NotInline("effects")
                lines.append(" " * ind + wrap(v))
                return
            except NotInline:
                c.pending = snap[0]
            if e[0] == "ifexpr":
                self.do_if(e[1], c, ind, lines, lambda blk, sub, ind2: self.value_block(blk, sub, ind2, wrap))
            elif e[0] == "match":
                self.do_match(e, c, ind, lines, lambda blk, sub, ind2: self.value_block(blk, sub, ind2, wrap))
            else:
                lines.extend(self.value_block(e[1], c.child(), ind, wrap))
            return
        v = self.ex(e, c)
        self.flush(c, ind, lines)
        lines.append(" " * ind + wrap(v))

    def value_block(self, blk, c, ind, wrap):
        lines = []
        if not blk:
            raise TranslateError("empty block where a value is needed")
        for i, s in enumerate(blk[:-1]):
            lines.extend(self.block([s], c, ind, "unit")) if s[0] != "let" else self.do_let(s, blk[i + 1:], c, ind, lines)
        s = blk[-1]
        if s[0] == "tail":
            self.do_value(s[1], c, ind, lines, wrap, None)
        elif self.diverges(s):
            lines.extend(self.block([s], c, ind, "unit"))
        else:
            raise TranslateError("block without a value")
        return lines

    def need_monad(self, c, what):
        if not c.monadic:
            raise NeedMonad(what)

    def check_panic_args(self, e, c):
        """the message is not modelled, but its arguments must exist"""
        if e[2] and e[2][0][0] != "str":
            raise TranslateError("panic! message must be a literal")

    # ---- let
    def later_type(self, name, rest, c):
        """type of the first value assigned to `name` later in the block (for `let mut x = None;`)."""
        found = []

        def walk(node):
            if found:
                return
            if isinstance(node, tuple):
                if len(node) == 4 and node[0] == "assign" and node[1] == "=" and node[2] == ("path", [name], []):
                    found.append(node[3])
                    return
                for x in node:
                    walk(x)
            elif isinstance(node, list):
                for x in node:
                    walk(x)
        walk(rest)
        if not found:
            return None
        sub = c.child()
        sub.frames = []
        sub.pending = []
        try:
            t = self.ex(found[0], sub).ty
        except (TranslateError, NeedMonad, NotInline):
            # `x = <unbound>.parse::<T>().ok()` / `x = Some(literal)`: the type is visible in the syntax
            e = found[0]
            if e[0] == "mcall" and e[2] == "ok" and e[1][0] == "mcall" and e[1][2] == "parse" and len(e[1][3]) == 1 and e[1][3][0] in PARSE:
                return ("Opt", PARSE[e[1][3][0]][1])
            return None
        return t if known(t) else None

    def do_let(self, s, rest, c, ind, lines):
        _, pat, mutable, ty, e = s
        want = self.conv(ty, c) if ty is not None else None
        mut = "mut " if mutable else ""
        if e[0] == "closure":
            if pat[0] != "pvar":
                raise TranslateError("closure bound to a tuple pattern")
            self.do_closure(pat[1], e, c, ind, lines)
            return
        names = [pat[1]] if pat[0] == "pvar" else pat[1]
        lns = [imp.lname(n) for n in names]
        lhs = lns[0] if pat[0] == "pvar" else "(" + ", ".join(lns) + ")"

        def bindnames(t):
            if pat[0] == "pvar":
                self.declare(c, names[0], lns[0], t, mutable)
            else:
                if not (isinstance(t, tuple) and t[0] == "Tup" and len(t[1]) == len(names)):
                    raise TranslateError("tuple pattern bound to a non-tuple")
                for n, ln, tt in zip(names, lns, t[1]):
                    self.declare(c, n, ln, tt, mutable)
        if self.value_form(e):
            snap = (list(c.pending), set(c.names))
            try:
                v = self.ex(e, c)
                if c.pending != snap[0]:
                    raise NotInline("effects")
            except NotInline:
                c.pending = snap[0]
                sub = c.child()
                sub.valtys = []
                body = []
                self.do_value(e, sub, ind + 4, body, lambda v: self.record_ty(sub, v) or f"pure {v.text}", want)
                vt = want or self.join_types(sub.valtys)
                ann = f" : {lean_ty(vt)}" if known(vt) and pat[0] == "pvar" else ""
                lines.append(" " * ind + f"let {mut}{lhs}{ann} ← do")
                lines.extend(body)
                bindnames(vt)
                return
        else:
            v = self.ex(e, c)
        vt = v.ty
        if want is not None:
            v = self.coerce(v, want, "let")
            vt = want
        if not known(vt) and pat[0] == "pvar":
            t2 = self.later_type(names[0], rest, c)
            if vt == "Lit":
                vt = t2 if t2 in ("Int", "Nat", "U8") else "Int" if t2 is None else vt
            elif t2 is not None:
                vt = t2
        if vt == "SqIdx":
            vt = "Sq"
        self.flush(c, ind, lines)
        ann = f" : {lean_ty(vt)}" if known(vt) and pat[0] == "pvar" else ""
        lines.append(" " * ind + f"let {mut}{lhs}{ann} := {v.text}")
        bindnames(vt)

    def do_closure(self, name, clo, c, ind, lines):
        """`let f = |a: A, ..| -> R { .. };` becomes the definition `R.<fn>_<f> (captured..) (a : A) ..`; the local name
        is bound to its partial application to the captured variables."""
        ps, ret, body = clo[1], clo[2], clo[3]
        st = c.fnstate
        names, tys = [], []
        for p, t in ps:
            if t is None:
                raise TranslateError("let-bound closure with untyped parameters")
            names.append(imp.lname(p))
            tys.append(self.conv(t, c))
        want = self.conv(ret, c) if ret is not None else None

        def setup():
            frame = Frame()
            sub = c.child()
            sub.frames = c.frames + [frame]
            sub.locals = dict(c.locals)
            sub.locals[id(frame)] = frozenset()
            sub.loops = []
            sub.hoisting = True            # no `return` out of the enclosing function
            for (p, _), lp, ty in zip(ps, names, tys):
                self.declare(sub, p, lp, ty, False)
            return frame, sub
        snap = (set(c.names), st.nloops, len(st.hoisted))
        mon = False
        try:
            frame, sub = setup()
            v = self.block_pure(body, sub)
            rty = want or v.ty
            v = self.coerce(v, rty, "closure result") if want else v
            blines = ["  " + v.text]
        except NotInline:
            c.names.clear()
            c.names.update(snap[0])
            st.nloops = snap[1]
            del st.hoisted[snap[2]:]
            self.need_monad(c, "closure " + name)
            mon = True
            frame, sub = setup()
            sub.valtys = []
            blines = self.value_block(body, sub, 2, lambda v: self.record_ty(sub, v) or f"pure {v.text}")
            rty = want or self.join_types(sub.valtys)
        if frame.writes:
            raise TranslateError("closure " + name + " updates captured variables: " + ", ".join(frame.writes))
        if frame.recursive:
            raise TranslateError("closure " + name + " calls the enclosing function")
        binders, call = [], []
        body_text = "\n".join(blines)
        if re.search(r"\bfuel\b", body_text):
            binders.append("(fuel : Nat)")
            call.append("fuel")
        if re.search(r"\bar\b", body_text):
            binders.append("(ar : Arith)")
            call.append("ar")
        for r in frame.reads:
            ln, ty, _ = c.env[r]
            if not known(ty):
                raise TranslateError(f"closure captures `{r}` whose type is not known")
            binders.append(f"({ln} : {lean_ty(ty)})")
            call.append(ln)
            self.note(c, r, False)
        binders += [f"({n} : {lean_ty(t)})" for n, t in zip(names, tys)]
        dname = f"{st.name}_{name}"
        rl = lean_ty(rty)
        head = f"def {dname} {' '.join(binders)} : " + (f"Option {'(' + rl + ')' if ' ' in rl else rl}" if mon else rl) + " :=" + (" do" if mon else "")
        st.hoisted.append(head + "\n" + "\n".join(blines) + "\n")
        ln = imp.lname(name)
        self.flush(c, ind, lines)
        lines.append(" " * ind + f"let {ln} : {lean_ty(('Fun', tys, rty, mon))} := " + " ".join(["R." + dname] + call))
        self.declare(c, name, ln, ("Fun", tys, rty, mon), False)

    # ---- assignment
    def set_var(self, c, rust, text, ind, lines):
        ln, ty, mut = c.env[rust]
        if not mut:
            raise TranslateError("assignment to immutable variable " + rust)
        self.note(c, rust, True)
        self.flush(c, ind, lines)
        lines.append(" " * ind + f"{ln} := {text}")

    def combine(self, cur, op, rhs, c):
        if op == "=":
            if not known(cur.ty):
                return rhs
            return self.coerce(rhs, cur.ty, "assignment")
        b = op[:-1]
        if cur.ty == "Str" and b == "+":
            r = self.coerce(rhs, "Str", op)
            return Ex(f"({cur.text} ++ {r.text})", "Str")
        if cur.ty == "U8" and b in U8OPS:
            r = self.coerce(rhs, "U8", op)
            return self.bind(f"({U8OPS[b]} {self.use_ar(c)} {cur.text} {r.text})", "U8", "u", c, "u8 " + op)
        if cur.ty == "Bool" and b in ("&", "|"):
            r = self.coerce(rhs, "Bool", op)
            return Ex(f"({cur.text} {b * 2} {r.text})", "Bool")
        if cur.ty == "BB" and b in ("|", "&", "^"):
            r = self.coerce(rhs, "BB", op)
            return Ex(f"({cur.text} {self.BITOPS[b]} {r.text})", "BB")
        if cur.ty in ("Int", "Nat") and b in ("+", "-", "*"):
            r = self.coerce(rhs, cur.ty, op)
            return Ex(f"({cur.text} {b} {r.text})", cur.ty)
        raise TranslateError(f"{op} on {cur.ty}")

    def do_assign(self, s, c, ind, lines, rhs_ex=None):
        op, lhs, rhs = s[1], s[2], s[3]
        if rhs_ex is None and self.value_form(rhs):
            # x op= match/if/block with effects: evaluate it into a temporary first
            snap = list(c.pending)
            try:
                rhs_ex = self.ex(rhs, c)
                if c.pending != snap:
                    raise NotInline("effects")
            except NotInline:
                c.pending = snap
                tmp = c.fresh("v")
                self.do_let(("let", ("pvar", tmp), False, None, rhs), [], c, ind, lines)
                rhs_ex = self.ex(("path", [tmp], []), c)
        r = rhs_ex if rhs_ex is not None else self.ex(rhs, c)
        if lhs[0] == "path" and len(lhs[1]) == 1:
            n = lhs[1][0]
            if n not in c.env:
                raise TranslateError("assignment to unknown variable " + n)
            ln, ty, mut = c.env[n]
            v = self.combine(Ex(ln, ty), op, r, c)
            if not known(ty) and known(v.ty):
                c.env[n] = (ln, v.ty, mut)
            self.set_var(c, n, v.text, ind, lines)
            return
        root = self.root_var(lhs, c)
        if root not in c.env or not c.env[root][2]:
            raise TranslateError("assignment through an immutable binding: " + root)
        if lhs[0] == "field":
            obj = self.ex(lhs[1], c)
            if obj.ty != "Pos" or lhs[2] not in imp.POS_FIELDS or lhs[1][0] != "path":
                raise TranslateError("assignment to field " + lhs[2])
            lf, ty = imp.POS_FIELDS[lhs[2]]
            v = self.combine(Ex(f"{obj.text}.{lf}", ty), op, r, c)
            self.set_var(c, root, f"{{ {obj.text} with {lf} := {v.text} }}", ind, lines)
            return
        if lhs[0] == "index":
            ar = self.array_ref(lhs, c)
            if ar is None or lhs[1][1][0] != "path":
                raise TranslateError("assignment to this indexed place is not supported")
            objx, arr, i = ar
            pre, n, ty = imp.POS_ARRAYS[arr]
            if isinstance(i, tuple) or i.const is None or not 0 <= i.const < n:
                raise TranslateError(f"assignment to {arr}[non-constant]")
            lf = f"{pre}{i.const}"
            ty = "U8" if arr == "castle_files" else ty
            v = self.combine(Ex(f"{objx.text}.{lf}", ty), op, r, c)
            self.set_var(c, root, f"{{ {objx.text} with {lf} := {v.text} }}", ind, lines)
            return
        raise TranslateError("assignment target not supported")

    # ---- if / match
    def unit_block(self, blk, sub, ind):
        return self.block(blk, sub, ind, "unit")

    def do_if(self, ifnode, c, ind, lines, body, prefix=""):
        _, branches, els = ifnode
        (cond, blk), more = branches[0], branches[1:]
        sub = c.child()

        def else_part():
            if more:
                # `else if`: flat when its condition needs no statements of its own
                trial = c.child()
                trial.names = set(c.names)
                nxt = more[0][0]
                flat = False
                if nxt[0] == "cond":
                    try:
                        self.ex(nxt[1], trial)
                        flat = not trial.pending
                    except (TranslateError, NeedMonad, NotInline):
                        flat = False
                if flat:
                    self.do_if(("if", more, els), c, ind, lines, body, prefix="else ")
                else:
                    lines.append(" " * ind + "else")
                    self.do_if(("if", more, els), c, ind + 4, lines, body)
            elif els is not None:
                lines.append(" " * ind + "else")
                lines.extend(body(els, c.child(), ind + 4))
            else:
                tail = body([], c.child(), ind + 4)
                if [l.strip() for l in tail] != ["pure ()"]:
                    lines.append(" " * ind + "else")
                    lines.extend(tail)
        if cond[0] == "iflet":
            _, pat, e = cond
            x = self.ex(e, c)
            self.flush(c, ind, lines)
            if prefix:
                raise TranslateError("internal: if let in a flat else-if")
            ptxt = self.lean_pattern(pat, x.ty, sub)
            lines.append(" " * ind + f"match {x.text} with")
            lines.append(" " * ind + f"| {ptxt} =>")
            lines.extend(body(blk, sub, ind + 4))
            lines.append(" " * ind + "| _ =>")
            if more:
                self.do_if(("if", more, els), c, ind + 4, lines, body)
            elif els is not None:
                lines.extend(body(els, c.child(), ind + 4))
            else:
                lines.extend(body([], c.child(), ind + 4))
            return
        ct = self.coerce(self.ex(cond[1], c), "Bool", "if condition")
        if prefix and c.pending:
            raise TranslateError("internal: pending statements in a flat else-if")
        self.flush(c, ind, lines)
        lines.append(" " * ind + f"{prefix}if {ct.text} then")
        lines.extend(body(blk, sub, ind + 4))
        else_part()

    def do_match(self, e, c, ind, lines, body):
        scrut, arms = e[1], e[2]
        if any(g is not None for _, g, _ in arms):
            raise TranslateError("match guards are not supported")
        if not self.needs_chain(arms):
            s = self.ex(scrut, c)
            self.flush(c, ind, lines)
            # a tuple scrutinee is matched component-wise (`match a, b with`)
            text, tuple_n = s.text, None
            if scrut[0] == "tuple":
                comps = [self.ex(x, c.child()) for x in scrut[1]]
                text = ", ".join(x.text for x in comps)
                tuple_n = len(comps)
            lines.append(" " * ind + f"match {text} with")
            for pat, _, blk in arms:
                sub = c.child()
                if tuple_n and pat[0] == "ptup" and len(pat[1]) == tuple_n:
                    ptxt = ", ".join(self.lean_pattern(x, t, sub) for x, t in zip(pat[1], s.ty[1]))
                elif tuple_n and pat[0] == "pwild":
                    ptxt = ", ".join(["_"] * tuple_n)
                elif tuple_n:
                    raise TranslateError("pattern for a tuple scrutinee")
                else:
                    ptxt = self.lean_pattern(pat, s.ty, sub)
                lines.append(" " * ind + f"| {ptxt} =>")
                lines.extend(body(blk, sub, ind + 4))
            return
        # string / range patterns: tests in arm order
        if scrut[0] == "tuple":
            comps = []
            for x in scrut[1]:
                v = self.ex(x, c)
                comps.append(v)
            self.flush(c, ind, lines)
            accs = []
            for v in comps:
                m = c.fresh("m")
                lines.append(" " * ind + f"let {m}" + (f" : {lean_ty(v.ty)}" if known(v.ty) else "") + f" := {v.text}")
                accs.append((m, v.ty))
        else:
            v = self.ex(scrut, c)
            self.flush(c, ind, lines)
            if re.fullmatch(r"[A-Za-z_][A-Za-z0-9_']*", v.text):
                accs = [(v.text, v.ty)]
            else:
                m = c.fresh("m")
                lines.append(" " * ind + f"let {m}" + (f" : {lean_ty(v.ty)}" if known(v.ty) else "") + f" := {v.text}")
                accs = [(m, v.ty)]
        first = True
        closed = False
        for pat, _, blk in arms:
            sub = c.child()
            if scrut[0] == "tuple":
                if pat[0] == "pwild":
                    pats = [("pwild",)] * len(accs)
                elif pat[0] == "ptup" and len(pat[1]) == len(accs):
                    pats = pat[1]
                else:
                    raise TranslateError("pattern for a tuple scrutinee")
            else:
                pats = [pat]
            conds, binds = [], []
            for p, (acc, ty) in zip(pats, accs):
                cnd, b = self.chain_cond(p, acc, ty, sub)
                if cnd is not None:
                    conds.append(cnd)
                binds += b
            if closed:
                raise TranslateError("unreachable match arm after an irrefutable one")
            inner = ind + 4
            if conds:
                lines.append(" " * ind + ("if " if first else "else if ") + " && ".join(conds) + " then")
            else:
                closed = True
                if first:
                    inner = ind
                else:
                    lines.append(" " * ind + "else")
            for b in binds:
                lines.append(" " * inner + b)
            lines.extend(body(blk, sub, inner))
            first = False
        if not closed:
            raise TranslateError("match with string / range patterns needs a final catch-all arm")

    # ---- expression statements
    def do_expr_stmt(self, e, c, ind, lines):
        while e[0] == "paren":
            e = e[1]
        k = e[0]
        if k == "unit":
            return
        if k == "ifexpr":
            self.do_if(e[1], c, ind, lines, self.unit_block)
            return
        if k == "match":
            self.do_match(e, c, ind, lines, self.unit_block)
            return
        if k == "blockexpr":
            lines.extend(self.block(e[1], c.child(), ind, "unit"))
            return
        if k == "try":
            if e[1][0] != "macro" or e[1][1] != "write":
                raise TranslateError("`?` is only supported on `write!(..)` (writing to a String cannot fail)")
            return self.do_expr_stmt(e[1], c, ind, lines)
        if k == "macro":
            return self.do_macro_stmt(e, c, ind, lines)
        if k == "mcall":
            return self.do_mcall_stmt(e, c, ind, lines)
        if k == "call":
            if e[1] == ("path", ["Ok"], []) and len(e[2]) == 1 and e[2][0][0] == "unit" and c.fnstate.ret == "Unit":
                return                                          # `Ok(())` of a fmt::Result
            return self.do_call_stmt(e, c, ind, lines)
        raise TranslateError("expression statement not supported: " + k)

    def do_macro_stmt(self, e, c, ind, lines):
        name, args = e[1], e[2]
        if name in ("panic", "unreachable"):
            self.check_panic_args(e, c)
            self.need_monad(c, "panic!")
            lines.append(" " * ind + "none")
            return
        if name == "println":
            ps = self.format_pieces(args, c, "println!") if args else ['""']
            c.fnstate.prints = True
            self.note(c, "%out", True)
            self.flush(c, ind, lines)
            lines.append(" " * ind + "out := out ++ [" + " ++ ".join(ps) + "]")
            return
        if name == "write":
            if len(args) < 2 or args[0][0] != "path" or len(args[0][1]) != 1:
                raise TranslateError("write!: the first argument must be a variable")
            tgt = args[0][1][0]
            if tgt not in c.env or c.env[tgt][1] != "Str":
                raise TranslateError("write!: the target must be a string accumulator")
            ps = self.format_pieces(args[1:], c, "write!")
            # a single `{}` hole of a char / string appends it directly
            if len(ps) == 1 and ps[0].startswith("(String.singleton "):
                add = "[" + ps[0][len("(String.singleton "):-1] + "]"
            elif len(ps) == 1 and ps[0].startswith("(String.ofList "):
                add = ps[0][len("(String.ofList "):-1]
            else:
                add = "(" + " ++ ".join(ps) + ").toList"
            self.set_var(c, tgt, f"({c.env[tgt][0]} ++ {add})", ind, lines)
            return
        raise TranslateError(f"macro {name}! as a statement")

    def local_of(self, ast, c, what):
        if ast[0] != "path" or len(ast[1]) != 1 or ast[1][0] not in c.env:
            raise TranslateError(what + ": the receiver must be a local variable")
        return ast[1][0]

    def do_mcall_stmt(self, e, c, ind, lines):
        recv_ast, name, gen, args = e[1], e[2], e[3], e[4]
        # a callback-taking chess-core method with a closure: one iteration per invocation, in order
        if len(args) == 1 and args[0][0] == "closure":
            if name == "for_each":
                clo = args[0]
                if len(clo[1]) != 1:
                    raise TranslateError("for_each closure arity")
                return self.do_for(("for", ("pvar", clo[1][0][0]), recv_ast, clo[3]), c, ind, lines)
            r = self.ex(recv_ast, c)
            info = self.fns.get("Position::" + name) if r.ty == "Pos" else None
            if info is not None and getattr(info, "callback", False):
                clo = args[0]
                if len(clo[1]) != 4:
                    raise TranslateError("closure of an unexpected arity")
                return self.do_for(("for", ("pgmv", [p for p, _ in clo[1]]), ("leanlist", self.app("R." + info.lean, [r]), "GMv"), clo[3]),
                                   c, ind, lines)
        r = self.ex(recv_ast, c.child())
        t = r.ty
        if t == "Str" and name in ("push", "push_str") and len(args) == 1:
            n = self.local_of(recv_ast, c, name)
            a = self.ex(args[0], c)
            add = f"[{self.coerce(a, 'Chr', name).text}]" if name == "push" else self.coerce(a, "Str", name).text
            self.set_var(c, n, f"({c.env[n][0]} ++ {add})", ind, lines)
            return
        if isinstance(t, tuple) and t[0] == "List" and name == "push" and len(args) == 1:
            n = self.local_of(recv_ast, c, name)
            a = self.ex(args[0], c)
            if known(t[1]):
                a = self.coerce(a, t[1], "push")
            else:
                c.env[n] = (c.env[n][0], ("List", a.ty), c.env[n][2])
            self.set_var(c, n, f"({c.env[n][0]} ++ [{a.text}])", ind, lines)
            return
        if isinstance(t, tuple) and t[0] == "List" and name == "clear" and not args or t == "Str" and name == "clear" and not args:
            n = self.local_of(recv_ast, c, name)
            self.set_var(c, n, "[]", ind, lines)
            return
        if isinstance(t, tuple) and t[0] == "Iter" and name == "next" and not args:
            self.ex(e, c)                       # advance, the item is dropped
            self.flush(c, ind, lines)
            return
        # &mut self methods
        selfkey = {"Pos": "Position", "Mv": "Mv", "Sq": "Square"}.get(t)
        if selfkey:
            key = selfkey + "::" + name
            if key in self.tfns or key == self.current:
                return self.do_call_t(key, recv_ast, args, gen, c, ind, lines)
            if t == "Pos" and key in self.fns and self.fns[key].mutself:
                info = self.fns[key]
                n = self.local_of(recv_ast, c, name)
                if len(args) + len(gen) != len(info.params):
                    raise TranslateError(name + ": wrong number of arguments")
                as_ = [self.coerce(self.ex(a, c), ty, name) for a, (_, ty) in zip(args, info.params)]
                for g, (_, ty) in zip(gen, info.params[len(args):]):
                    as_.append(self.coerce(self.ex(("path", [g], []), c), ty, name))
                text = self.app("R." + info.lean, [Ex(c.env[n][0], "Pos")] + as_)
                if info.monadic:
                    v = self.bind(text, "Pos", name + "_r", c, name)
                    text = v.text
                self.set_var(c, n, text, ind, lines)
                return
        raise TranslateError(f"method call statement not supported: {t}.{name}")

    def do_call_stmt(self, e, c, ind, lines):
        f, args = e[1], e[2]
        if f[0] != "path":
            raise TranslateError("call of a non-path")
        segs, gen = f[1], f[2]
        key = "::".join(segs)
        for cand in (key, segs[-1] if len(segs) == 2 else None):
            if cand and (cand in self.tfns or cand == self.current):
                return self.do_call_t(cand, None, args, gen, c, ind, lines)
        # a callback parameter: `func(a, b);`  the invocations are collected in order
        if len(segs) == 1 and segs[0] in c.env and isinstance(c.env[segs[0]][1], tuple) and c.env[segs[0]][1][0] == "Fn":
            tys = c.env[segs[0]][1][1]
            if len(tys) != len(args):
                raise TranslateError("callback arity")
            as_ = [self.coerce(self.ex(a, c), t, "callback argument") for a, t in zip(args, tys)]
            acc = c.env[segs[0]][0]
            self.note(c, segs[0], True)
            self.flush(c, ind, lines)
            lines.append(" " * ind + f"{acc} := {acc} ++ [(" + ", ".join(a.text for a in as_) + ")]")
            return
        raise TranslateError("call statement not supported: " + key)

    def do_call_t(self, key, recv_ast, args, gen, c, ind, lines):
        """statement call of a function translated here: &mut arguments are updated from the result tuple."""
        rec = key == self.current
        info = c.fnstate.selfinfo if rec else self.tfns[key]
        # split the arguments into by-value and &mut ones
        all_params = info.all_params       # [(name, type, is_mut)] in Rust order, excluding self
        if len(args) + len(gen) != len(all_params):
            raise TranslateError(key + ": wrong number of arguments")
        invals, muts = [], []
        if info.hasself:
            if info.selfmut:
                n = self.local_of(recv_ast, c, key)
                muts.append(n)
                invals.append(Ex(c.env[n][0], info.selfty))
                self.note(c, n, False)
            else:
                invals.append(self.ex(recv_ast, c))
        for a, (pn, ty, ismut) in zip(list(args) + [("path", [g], []) for g in gen], all_params):
            if ismut:
                while a[0] == "paren":
                    a = a[1]
                n = self.local_of(a, c, key + " &mut argument")
                muts.append(n)
                self.note(c, n, False)
                invals.append(self.coerce(Ex(c.env[n][0], c.env[n][1]), ty, key))
            else:
                invals.append(self.coerce(self.ex(a, c), ty, key))
        pre = []
        if info.needs_fuel or rec:
            c.fnstate.uses_fuel = True
            pre.append(Ex("fuel", "Nat"))
            if rec:
                for f in c.frames:
                    f.recursive = True
        if info.needs_ar:
            pre.append(Ex(self.use_ar(c), "Arith"))
        text = self.app("R." + info.lean, pre + invals)
        comps = ([("%ret", info.ret)] if info.ret != "Unit" else []) + [(m, None) for m in muts] + ([("%out", None)] if info.prints else [])
        if info.ret != "Unit":
            raise TranslateError(key + ": result of a call statement is dropped")
        self.flush(c, ind, lines)
        if info.monadic:
            self.need_monad(c, key)
        arrow = "←" if info.monadic else ":="
        if not comps:
            if not info.monadic:
                raise TranslateError(key + ": call without effect")
            lines.append(" " * ind + text)
            return
        if len(comps) == 1 and comps[0][0] != "%out":
            r = c.fresh("r")
            lines.append(" " * ind + f"let {r} {arrow} {text}")
            self.set_var(c, comps[0][0], r, ind, lines)
            return
        r = c.fresh("r")
        lines.append(" " * ind + f"let {r} {arrow} {text}")
        for k, (m, _) in enumerate(comps):
            proj = r + ".2" * k + (".1" if k < len(comps) - 1 else "") if len(comps) > 1 else r
            if m == "%out":
                c.fnstate.prints = True
                self.note(c, "%out", True)
                lines.append(" " * ind + f"out := out ++ {proj}")
            else:
                self.set_var(c, m, proj, ind, lines)

    # ---- loops
    def state_tuple(self, c, entry, early="none"):
        """the tuple of the loop-carried variables of a hoisted loop (current values); the first component of a loop
        that contains `return` is the early result of the function (`none` = no return yet)."""
        names = ([early] if entry["early"] else []) + ([entry["brk"]] if entry["brk"] else []) \
            + [("out" if w == "%out" else c.env[w][0]) for w in entry["writes"]]
        return "()" if not names else names[0] if len(names) == 1 else "(" + ", ".join(names) + ")"

    def return_text(self, c, fin):
        """`return` of the finished function result `fin` from the current context."""
        if c.loops:
            entry = c.loops[-1]
            if entry["step"]:
                if not entry["early"]:
                    raise TranslateError("internal: `return` in a loop compiled without an early-result slot")
                return "return ForInStep.done " + self.state_tuple(c, entry, early=f"(some {fin})")
            if any(e["step"] for e in c.loops):
                raise TranslateError("`return` in an inline loop inside a hoisted loop")
            return "return " + fin
        if c.hoisting:
            raise TranslateError("`return` inside a closure")
        return "return " + fin

    def do_break(self, c, ind, lines):
        if not c.loops:
            raise TranslateError("break outside a loop")
        entry = c.loops[-1]
        if entry["brk"]:
            lines.append(" " * ind + f"{entry['brk']} := true")
        if entry["step"]:
            lines.append(" " * ind + f"return ForInStep.done {self.state_tuple(c, entry)}")
        else:
            lines.append(" " * ind + "break")

    def do_continue(self, c, ind, lines):
        if not c.loops:
            raise TranslateError("continue outside a loop")
        entry = c.loops[-1]
        if entry["step"]:
            lines.append(" " * ind + f"return ForInStep.yield {self.state_tuple(c, entry)}")
        else:
            lines.append(" " * ind + "continue")

    @staticmethod
    def has_return(node):
        if isinstance(node, tuple):
            if node and node[0] == "return":
                return True
            if node and node[0] == "closure":
                return False
            return any(Translator.has_return(x) for x in node)
        if isinstance(node, list):
            return any(Translator.has_return(x) for x in node)
        return False

    def iter_list(self, it, c):
        """the iterated Rust expression as (lean list, element type, reset: rust iterator variable consumed | None)."""
        if it[0] == "leanlist":
            return it[1], it[2], None
        core = it
        while core[0] == "paren":
            core = core[1]
        if core[0] == "mcall" and core[2] == "enumerate" and not core[4]:
            inner, ety, reset = self.iter_list(core[1], c)
            return f"(List.zipIdx {inner})", ("Enum", ety), reset
        core2 = core[1] if core[0] == "mcall" and core[2] in ("by_ref", "iter", "into_iter", "chars") and not core[4] else core
        x = self.ex(core, c)
        reset = None
        if core2[0] == "path" and len(core2[1]) == 1 and core2[1][0] in c.env and isinstance(x.ty, tuple) and x.ty[0] == "Iter":
            reset = core2[1][0]
        if x.ty == "BB":
            return f"(Rawr.toList {x.text})", "Sq", None
        if x.ty == "Str":
            return x.text, "Chr", None
        if isinstance(x.ty, tuple) and x.ty[0] in ("List", "Iter"):
            return x.text, x.ty[1], reset
        raise TranslateError(f"for-loop over {x.ty}")

    def do_for(self, s, c, ind, lines, loop_fuel=False):
        _, pat, it, body = s
        st = c.fnstate
        if loop_fuel:
            lst, ety, reset = "(List.range fuel)", "Nat", None
            st.uses_fuel = True
        else:
            lst, ety, reset = self.iter_list(it, c)
        self.flush(c, ind, lines)
        brk = c.fresh("exited") if loop_fuel else None
        early = c.fresh("early") if self.has_return(body) else None
        hoist = True

        def compile_body(writes, step, bind_ind):
            """-> (frame, binder text, lines of the body at indentation bind_ind)"""
            frame = Frame()
            sub = c.child()
            sub.frames = c.frames + [frame]
            sub.locals = dict(c.locals)
            sub.locals[id(frame)] = frozenset()
            pre = []
            if loop_fuel:
                binder, bty = "_", "Nat"
            elif pat[0] == "pgmv":
                binder, bty = c.fresh("g"), "GMv"
                for pn, (proj, ty) in zip(pat[1], ((".piece", "Pc"), (".mv.src", "Sq"), (".mv.dst", "Sq"), (".mv.promo", "Pc"))):
                    lp = imp.lname(pn)
                    self.declare(sub, pn, lp, ty, False)
                    pre.append(f"let {lp} : {lean_ty(ty)} := {binder}{proj}")
            elif isinstance(ety, tuple) and ety[0] == "Enum":
                if pat[0] != "ptuple" or len(pat[1]) != 2:
                    raise TranslateError("enumerate() needs a pair pattern")
                i, x = pat[1]
                self.declare(sub, i, imp.lname(i), "Nat", False)
                self.declare(sub, x, imp.lname(x), ety[1], False)
                if step:
                    binder, bty = c.fresh("item"), ("Tup", [ety[1], "Nat"])
                    pre.append(f"let {imp.lname(x)} : {lean_ty(ety[1])} := {binder}.1")      # List.zipIdx pairs are (item, index)
                    pre.append(f"let {imp.lname(i)} : Nat := {binder}.2")
                else:
                    binder, bty = f"({imp.lname(x)}, {imp.lname(i)})", None
            else:
                if pat[0] != "pvar":
                    raise TranslateError("tuple pattern in for")
                self.declare(sub, pat[1], imp.lname(pat[1]), ety, False)
                binder, bty = imp.lname(pat[1]), ety
            entry = {"brk": brk, "step": step, "writes": writes, "early": early if step else None}
            sub.loops = c.loops + [entry]
            sub.hoisting = c.hoisting or step
            inner = [" " * bind_ind + p for p in pre] + self.block(body, sub, bind_ind, "unit")
            return frame, binder, bty, inner, sub
        snap = (set(c.names), st.nloops, len(st.hoisted))

        def restore():
            c.names.clear()
            c.names.update(snap[0])
            st.nloops = snap[1]
            del st.hoisted[snap[2]:]
        if hoist:
            # first pass: which outer variables does the body update?  (`break` needs the state tuple)
            frame, _, _, _, _ = compile_body([], True, 2)
            hoist = not frame.recursive
            restore()
        if hoist:
            writes = list(frame.writes)
            frame, binder, bty, inner, sub = compile_body(writes, True, 2)
            if frame.writes != writes:
                raise TranslateError("internal: unstable set of loop-carried variables")
            self.emit_hoisted(c, frame, lst, bty, binder, inner, ind, lines, brk, sub, early)
        else:
            frame, binder, bty, inner, sub = compile_body([], False, ind + 4)
            if brk:
                lines.append(" " * ind + f"let mut {brk} := false")
            lines.append(" " * ind + f"for {binder} in {lst} do")
            lines.extend(inner)
            for w in frame.reads:
                self.note(c, w, False)
            for w in frame.writes:
                self.note(c, w, True)
        if brk:
            self.need_monad(c, "loop")
            lines.append(" " * ind + f"if !{brk} then")
            lines.append(" " * (ind + 4) + "none")
        if reset is not None:
            self.set_var(c, reset, "[]", ind, lines)

    def do_loop(self, s, c, ind, lines):
        self.need_monad(c, "loop")
        self.do_for(("for", None, None, s[1]), c, ind, lines, loop_fuel=True)

    def emit_hoisted(self, c, frame, lst, bty, binder, inner, ind, lines, brk, sub, early=None):
        """the loop becomes `R.<fn>_loopK_step` (one iteration: ForInStep of the loop-carried variables) and
        `R.<fn>_loopK` (`forIn` over the list)."""
        st = c.fnstate
        st.nloops += 1
        name = f"{st.name}_loop{st.nloops}"
        writes = list(frame.writes)
        reads = [r for r in frame.reads if r not in writes]
        binders, call = [], []
        body_text = "\n".join(inner)
        if re.search(r"\bfuel\b", body_text):
            binders.append("(fuel : Nat)")
            call.append("fuel")
        if re.search(r"\bar\b", body_text):
            binders.append("(ar : Arith)")
            call.append("ar")
        for r in reads:
            ln, ty, _ = c.env[r]
            if not known(ty):
                raise TranslateError(f"loop reads `{r}` whose type is not known")
            binders.append(f"({ln} : {lean_ty(ty)})")
            call.append(ln)
        wnames, wtys = [], []
        if early:
            wnames.append(early)
            wtys.append(f"Option ({st.rty_inner})")
        if brk:
            wnames.append(brk)
            wtys.append("Bool")
        for w in writes:
            ln, ty = ("out", "Out") if w == "%out" else c.env[w][:2]
            if ty != "Out" and not known(ty):
                raise TranslateError(f"loop updates `{w}` whose type is not known")
            wnames.append(ln)
            wtys.append("List String" if ty == "Out" else lean_ty(ty))
        mon = c.monadic
        if not wnames and not mon:
            raise TranslateError("for-loop without effect")
        sty = "Unit" if not wtys else " × ".join(f"({t})" if " " in t else t for t in wtys)
        tup = "()" if not wnames else wnames[0] if len(wnames) == 1 else "(" + ", ".join(wnames) + ")"
        wb = [f"({n} : {t})" for n, t in zip(wnames, wtys)]
        xb = "x_" if binder == "_" else binder
        bl = lean_ty(bty)
        d = [f"def {name}_step {' '.join(binders + [f'({xb} : {bl})'] + wb)} : "
             + (f"Option (ForInStep ({sty}))" if mon else f"ForInStep ({sty})") + " := " + ("do" if mon else "Id.run do")]
        for w in wnames:
            d.append(f"  let mut {w} := {w}")
        d.extend(inner)
        d.append(f"  return ForInStep.yield {tup}")
        st.hoisted.append("\n".join(d) + "\n")
        projs = [("st" + ".2" * k + (".1" if k < len(wnames) - 1 else "")) if len(wnames) > 1 else "st" for k in range(len(wnames))]
        stepcall = " ".join([f"{name}_step"] + call + [xb] + projs)
        internal = [n for n in (early, brk) if n]
        d2 = [f"def {name} {' '.join(binders + [f'(it : List {lean_ty_atom(bty)})'] + [b for b, n in zip(wb, wnames) if n not in internal])} : "
              + (f"Option ({sty})" if mon else sty) + " :="]
        inits = [("none" if n == early else "false" if n == brk else n) for n in wnames]
        init = "()" if not inits else inits[0] if len(inits) == 1 else "(" + ", ".join(inits) + ")"
        d2.append(f"  forIn it {init} (fun {xb} st => {stepcall})" if mon else f"  Id.run (forIn it {init} (fun {xb} st => pure ({stepcall})))")
        st.hoisted.append("\n".join(d2) + "\n")

        def atom(x):
            return x if re.fullmatch(r"[A-Za-z_][A-Za-z0-9_'.]*", x) or x.startswith("(") else f"({x})"
        text = "(" + " ".join(["R." + name] + [atom(x) for x in call] + [atom(lst)] + [n for n in wnames if n not in internal]) + ")"
        for r in reads:
            self.note(c, r, False)
        arrow = "←" if mon else ":="
        if not wnames:
            lines.append(" " * ind + text)
            return
        r = c.fresh("r")
        lines.append(" " * ind + f"let {r} {arrow} {text}")
        wi = 0
        for k, n in enumerate(wnames):
            proj = (r + ".2" * k + (".1" if k < len(wnames) - 1 else "")) if len(wnames) > 1 else r
            if n == early:
                # the loop body executed `return`: leave the enclosing context with that result
                lines.append(" " * ind + f"match {proj} with")
                lines.append(" " * ind + f"| some {early} => {self.return_text(c, early)}")
                lines.append(" " * ind + "| none => pure ()")
            elif n == brk:
                lines.append(" " * ind + f"let {brk} : Bool := {proj}")
            elif n == "out":
                self.note(c, "%out", True)
                lines.append(" " * ind + f"out := {proj}")
                wi += 1
            else:
                self.set_var(c, writes[wi], proj, ind, lines)
                wi += 1

    # ------------------------------------------------------------------ functions
    SELF_TYPES = {"Position": "Pos", "Mv": "Mv", "Square": "Sq"}

    def function(self, src, rust_name, what, key, lean_name, u64="Nat", nth=0, self_name="s", cuts=()):
        """`cuts`: indices of top-level statements of the body before which the function is cut: the statements from
        a cut on become the definition `R.<fn>_partK (live variables..)`, called in tail position by the part before."""
        self.cuts = tuple(cuts)
        toks = find_fn(src, rust_name, what, nth)
        fn = Parser(toks, f"{what}::{rust_name}").function()
        selfrust = impl_self_type(src, rust_name, nth)
        self.current = key
        try:
            flags = (False, False, False)
            for monadic in (False, True):
                try:
                    # first pass: discover which of `ar`, `fuel`, `out` are needed; second pass: final text
                    _, _, st = self.compile_fn(fn, lean_name, self_name, monadic, what, selfrust, u64, flags)
                    flags = (st.uses_ar, st.uses_fuel, st.prints)
                    text, info, st2 = self.compile_fn(fn, lean_name, self_name, monadic, what, selfrust, u64, flags)
                    if (st2.uses_ar, st2.uses_fuel, st2.prints) != flags:
                        raise TranslateError(f"{what}::{rust_name}: unstable signature")
                    break
                except NeedMonad:
                    if monadic:
                        raise TranslateError(f"{what}::{rust_name}: internal: NeedMonad in a monadic function")
                    flags = (False, False, False)
            self.tfns[key] = info
            self.out.append(text)
        except NotInline as ex:
            raise TranslateError(f"{what}::{rust_name}: expression needs statements in a pure context: {ex}")
        finally:
            self.current = None

    def compile_fn(self, fn, lean_name, self_name, monadic, what, selfrust, u64, flags):
        st = FnState(lean_name, u64)
        st.uses_ar_known, st.uses_fuel_known, st.prints_known = flags
        st.uses_ar, st.uses_fuel, st.prints = flags
        st.selfrust = selfrust or "?"
        st.selfty = self.SELF_TYPES.get(selfrust)
        c = Ctx(self, monadic, None)
        c.fnstate = st
        st.ret = self.conv(fn["ret"], c)
        if fn["ret"] is not None and fn["ret"][0] == "ty" and fn["ret"][1] == "Result" and fn["ret"][1] and not fn["ret"][2]:
            st.ret = "Unit"                           # fmt::Result: writing to a String cannot fail
        c.rettype = st.ret
        binders, params, all_params = [], [], []
        selfmut = fn["self"] == "mut"
        if fn["self"]:
            if st.selfty is None:
                raise TranslateError("method of an unsupported type " + str(selfrust))
            c.env["self"] = (self_name, st.selfty, selfmut)
            c.names.add(self_name)
            binders.append(f"({self_name} : {lean_ty(st.selfty)})")
            if selfmut:
                st.mutparams.append("self")
        callback = None
        for p, t in fn["params"]:
            ismut = t[0] == "mutref"
            if ismut:
                t = t[1]
            ty = self.conv(t, c)
            lp = imp.lname(p)
            if isinstance(ty, tuple) and ty[0] == "Fn":
                # a callback: the invocations are collected, in order, into a list that is returned
                if callback:
                    raise TranslateError("two callback parameters")
                callback = (p, ty)
                continue
            c.env[p] = (lp, ty, ismut)
            c.names.add(lp)
            params.append((lp, ty))
            all_params.append((p, ty, ismut))
            binders.append(f"({lp} : {lean_ty(ty)})")
            if ismut:
                st.mutparams.append(p)
        for g, t in fn["generics"]:
            ty = self.conv(t, c)
            c.env[g] = (g, ty, False)
            c.names.add(g)
            params.append((g, ty))
            all_params.append((g, ty, False))
            binders.append(f"({g} : {lean_ty(ty)})")
        if callback:
            p, ty = callback
            acc = c.fresh(imp.lname(p) + "_calls")
            c.env[p] = (acc, ty, True)
            st.mutparams.append(p)
        info = Fn(lean_name, params, st.ret, monadic, bool(fn["self"]), st.selfty, list(st.mutparams), flags[2], flags[0], flags[1])
        info.selfmut = selfmut
        info.all_params = all_params
        info.callback = callback
        st.selfinfo = info
        c.env["%out"] = ("out", "Out", True)
        try:
            lines = None
            body = fn["body"]
            if not monadic and len(body) == 1 and body[0][0] == "tail" and not st.mutparams:
                sub = c.child()
                sub.pure_only = True
                try:
                    v = self.coerce(self.ex(body[0][1], sub), st.ret, "result")
                    lines = ["  " + v.text]
                    simple = True
                except NotInline:
                    lines = None
            if lines is None:
                simple = False
                ind = 4 if flags[1] and self.is_recursive(fn, lean_name) else 2
                lines = []
                for m in st.mutparams:
                    ln = c.env[m][0]
                    if callback and m == callback[0]:
                        ety = lean_ty(("Tup", callback[1][1])) if len(callback[1][1]) > 1 else lean_ty(callback[1][1][0])
                        lines.append(" " * ind + f"let mut {ln} : List ({ety}) := []")
                    else:
                        lines.append(" " * ind + f"let mut {ln} := {ln}")
                if flags[2]:
                    lines.append(" " * ind + "let mut out : List String := []")
                st.rty = self.result_type(st, c, callback, monadic, flags)
                lines += self.fn_body(body, c, ind, [k for k in self.cuts if 0 < k < len(body)], 0, 1)
        except TranslateError as ex:
            raise TranslateError(f"{what}::{fn['name']}: {ex}")
        rty = self.result_type(st, c, callback, monadic, flags)
        pre = []
        if flags[1]:
            pre.append("(fuel : Nat)")
        if flags[0]:
            pre.append("(ar : Arith)")
        head = f"def {lean_name} {' '.join(pre + binders)} : {rty} :="
        rec = flags[1] and self.is_recursive(fn, lean_name)
        if simple:
            text = head + "\n" + "\n".join(lines) + "\n"
        elif rec:
            if not monadic:
                raise NeedMonad("recursion")
            text = head + "\n  match fuel with\n  | 0 => none\n  | fuel + 1 => do\n" + "\n".join(lines) + "\n"
        else:
            text = head + (" do" if monadic else " Id.run do") + "\n" + "\n".join(lines) + "\n"
        text = "".join(h + "\n" for h in st.hoisted) + text
        return text, info, st

    def result_type(self, st, c, callback, monadic, flags):
        comps = []
        if st.ret != "Unit":
            comps.append(lean_ty(st.ret))
        for m in st.mutparams:
            if callback and m == callback[0]:
                ety = lean_ty(("Tup", callback[1][1])) if len(callback[1][1]) > 1 else lean_ty(callback[1][1][0])
                comps.append(f"List ({ety})")
            else:
                comps.append(lean_ty(c.env[m][1]))
        if flags[2]:
            comps.append("List String")
        rty = " × ".join(f"({t})" if " " in t else t for t in comps) if comps else "Unit"
        st.rty_inner = rty
        if monadic:
            rty = "Option " + (f"({rty})" if " " in rty else rty)
        return rty

    def fn_body(self, stmts, c, ind, cuts, base, part):
        """the statements of a function body from index `base` on; at a cut the rest becomes its own definition."""
        cuts = [k for k in cuts if k > base]
        if not cuts:
            return self.block(stmts, c, ind, "fn")
        k = cuts[0] - base
        head, rest = stmts[:k], stmts[k:]
        lines = self.block(head, c, ind, "unit")
        st = c.fnstate
        frame = Frame()
        sub = c.child()
        sub.frames = c.frames + [frame]
        sub.locals = dict(c.locals)
        sub.locals[id(frame)] = frozenset()
        body = self.fn_body(rest, sub, 2, cuts, base + k, part + 1)
        if frame.recursive:
            raise TranslateError("recursive call after a cut")
        live = []
        for v in frame.reads + frame.writes:
            if v not in live:
                live.append(v)
        binders, call, muts = [], [], []
        text = "\n".join(body)
        if re.search(r"\bfuel\b", text):
            binders.append("(fuel : Nat)")
            call.append("fuel")
        if re.search(r"\bar\b", text):
            binders.append("(ar : Arith)")
            call.append("ar")
        for v in live:
            if v == "%out":
                binders.append("(out : List String)")
                call.append("out")
                muts.append("out")
                continue
            ln, ty, mut = c.env[v]
            if not known(ty):
                raise TranslateError(f"variable `{v}` of unknown type is live at a cut")
            binders.append(f"({ln} : {lean_ty(ty)})")
            call.append(ln)
            if mut:
                muts.append(ln)
            self.note(c, v, False)
        name = f"{st.name}_part{part + 1}"
        d = [f"def {name} {' '.join(binders)} : {st.rty} := " + ("do" if c.monadic else "Id.run do")]
        d += [f"  let mut {m} := {m}" for m in muts]
        st.hoisted.append("\n".join(d + body) + "\n")
        tail = " ".join(["R." + name] + call)
        lines.append(" " * ind + (tail if c.monadic else f"return ({tail})"))
        return lines

    def is_recursive(self, fn, lean_name):
        name = fn["name"]

        def walk(node):
            if isinstance(node, tuple):
                if node and node[0] == "mcall" and node[2] == name:
                    return True
                if node and node[0] == "call" and node[1][0] == "path" and node[1][1][-1] == name:
                    return True
                return any(walk(x) for x in node)
            if isinstance(node, list):
                return any(walk(x) for x in node)
            return False
        return walk(fn["body"])


# --------------------------------------------------------------------------------------------- driver
def read(rel):
    return strip_comments(open(os.path.join(REPO, rel)).read())


def base_translator():
    """run rust2lean_imp's own generation to obtain its registry of translated chess-core functions."""
    made = []
    orig = imp.Translator

    class Rec(orig):
        def __init__(self):
            super().__init__()
            made.append(self)
    imp.Translator = Rec
    imp.REPO = REPO
    try:
        imp.generate()
    finally:
        imp.Translator = orig
    return made[0]


HEADER = ["-- GENERATED by tools/rust2lean_text.py from /repo on every run. Do not edit.",
          "import Rawr.Generated.RustImp", "import Rawr.Generated.RustTextPrelude", "import Rawr.Model.Fen", "import Rawr.Model.Uci",
          "set_option linter.unusedVariables false", "namespace Rawr.R", "open Rawr", ""]


def generate():
    T = Translator(base_translator())
    T.out += HEADER
    sq = read("src/chess/square.rs")
    T.function(sq, "fmt", "square.rs", "Square::fmt", "square_fmt", self_name="self_")
    T.function(read("src/uci/mv.rs"), "to_uci", "uci/mv.rs", "Mv::to_uci", "to_uci", self_name="self_")
    T.function(read("src/chess/get_fen.rs"), "get_fen", "get_fen.rs", "Position::get_fen", "get_fen")
    T.function(read("src/chess/position.rs"), "default", "position.rs", "Position::default", "default_", u64="BB")
    T.function(read("src/chess/set_fen.rs"), "set_fen", "set_fen.rs", "Position::set_fen", "set_fen", u64="BB",
               cuts=(3, 6, 7, 8, 10))
    T.function(read("src/chess/from_fen.rs"), "from_fen", "from_fen.rs", "Position::from_fen", "from_fen", u64="BB")
    T.function(read("src/chess/mv.rs"), "flipped", "chess/mv.rs", "Mv::flipped", "mv_flipped", self_name="self_")
    T.function(read("src/uci/moves.rs"), "moves", "uci/moves.rs", "moves::moves", "moves", u64="BB")
    T.function(read("src/uci/position.rs"), "position", "uci/position.rs", "position::position", "position", u64="BB")
    T.function(read("src/chess/perft.rs"), "perft", "chess/perft.rs", "Position::perft", "pos_perft")
    T.function(read("src/uci/setoption.rs"), "setoption", "uci/setoption.rs", "setoption::setoption", "setoption")
    T.function(read("src/uci/go.rs"), "parse_go", "uci/go.rs", "parse_go", "parse_go")
    T.out.append("end Rawr.R\n")
    return "\n".join(T.out)


def main():
    try:
        txt = generate()
    except TranslateError as ex:
        print("TRANSLATE-ERROR " + str(ex))
        sys.exit(3)
    except NeedMonad as ex:
        print("TRANSLATE-ERROR unexpected panicking expression: " + str(ex))
        sys.exit(3)
    except NotInline as ex:
        print("TRANSLATE-ERROR expression needs statements in a pure context: " + str(ex))
        sys.exit(3)
    try:
        if open(OUT).read() == txt:
            print("rust2lean_text: unchanged")
            return
    except FileNotFoundError:
        pass
    os.makedirs(os.path.dirname(OUT), exist_ok=True)
    open(OUT, "w").write(txt)
    print("rust2lean_text: RustText.lean rewritten")


if __name__ == "__main__":
    main()
