#!/usr/bin/env python3
"""Mutation self-test of tools/rust2lean_text.py + lean/Rawr/Proofs/RustTextAgree*.lean.

For each single-token / single-statement mutation of a translated Rust function of the FEN / UCI text side (in a
scratch COPY of the repo sources, never /repo): re-run the translator (RAWR_REPO = the copy, output into a PRIVATE copy
of the lake project) and rebuild the agreement theorems.  A mutant is DETECTED when the translator reports
TRANSLATE-ERROR or an agreement file no longer compiles.  Every behaviour-changing mutant ("B") must be detected;
behaviour-neutral ones ("N": panic messages, the erased `Err` payload, reordering of independent statements) may or may
not be flagged.

usage: rust2lean_text_selftest.py [--repo /repo] [--lean /tmp/agents/t2/lean] [--translator tools/rust2lean_text.py]
                                  [--work /tmp/rust2lean_text_selftest] [--only N,M,..] [--timeout 600] [--jobs 4]
The lake project given by --lean is modified (Rawr/Generated/RustText.lean) and restored at the end; with --jobs > 1
further private copies of it are made under --work.  Never point --lean at the shared /verif/lean.
"""
import argparse
import os
import shutil
import subprocess
import sys
import threading
import time

HERE = os.path.dirname(os.path.abspath(__file__))
TARGETS = ["Rawr.Proofs.RustTextAgree", "Rawr.Proofs.RustTextAgree_GetFen", "Rawr.Proofs.RustTextAgree_SetFen",
           "Rawr.Proofs.RustTextAgree_Uci", "Rawr.Proofs.RustTextAgree_Go", "Rawr.Proofs.RustTextAgree_Rules"]
STARTFEN = "rnbqkbnr/pppppppp/8/8/8/8/PPPPPPPP/RNBQKBNR w KQkq - 0 1"

SQ, UMV, GF, SF, FF, POS, CMV, MOV, UPOS, PFT, SOPT, GO = (
    "src/chess/square.rs", "src/uci/mv.rs", "src/chess/get_fen.rs", "src/chess/set_fen.rs", "src/chess/from_fen.rs",
    "src/chess/position.rs", "src/chess/mv.rs", "src/uci/moves.rs", "src/uci/position.rs", "src/chess/perft.rs",
    "src/uci/setoption.rs", "src/uci/go.rs")

# (file, old text, new text, kind)   kind: "B" behaviour-changing (must be detected), "N" behaviour-neutral
M = [
    # ---- square.rs  impl Display for Square
    (SQ, "let rank = self.0 % 8;", "let rank = self.0 % 7;", "B"),
    (SQ, "let file = self.0 / 8;", "let file = self.0 / 4;", "B"),
    (SQ, "['a', 'b', 'c', 'd', 'e', 'f', 'g', 'h']", "['a', 'b', 'c', 'd', 'e', 'f', 'h', 'g']", "B"),
    (SQ, 'write!(f, "{}", ranks[rank as usize])?;\n        write!(f, "{}", files[file as usize])?;',
     'write!(f, "{}", files[file as usize])?;\n        write!(f, "{}", ranks[rank as usize])?;', "B"),
    (SQ, "files[file as usize]", "files[rank as usize]", "B"),
    # ---- uci/mv.rs  Mv::to_uci
    (UMV, "let from = if pos.turn == Colour::White {", "let from = if pos.turn == Colour::Black {", "B"),
    (UMV, "if !pos.is_frc && pos.get_us().is_set(self.to)", "if pos.is_frc && pos.get_us().is_set(self.to)", "B"),
    (UMV, "self.to.file() > self.from.file()", "self.to.file() < self.from.file()", "B"),
    (UMV, "Square::from_index(SquareIdx::G1)", "Square::from_index(SquareIdx::F1)", "B"),
    (UMV, "Square::from_index(SquareIdx::C1)", "Square::from_index(SquareIdx::B1)", "B"),
    (UMV, 'Piece::Knight => "n",', 'Piece::Knight => "N",', "B"),
    (UMV, 'Piece::Rook => "r",', 'Piece::Rook => "q",', "B"),
    (UMV, "movestr += &from.to_string();\n        movestr += &to.to_string();",
     "movestr += &to.to_string();\n        movestr += &from.to_string();", "B"),
    (UMV, "            } else {\n                sq.flip()\n            }", "            } else {\n                sq\n            }", "B"),
    (UMV, '_ => "",', '_ => "q",', "B"),
    (UMV, "pos.get_us().is_set(self.to)", "pos.get_them().is_set(self.to)", "B"),
    # ---- get_fen.rs
    (GF, "let npos = if self.turn == Colour::White {", "let npos = if self.turn == Colour::Black {", "B"),
    (GF, "for y in (0..8).rev() {", "for y in 0..8 {", "B"),
    (GF, "for x in 0..8 {", "for x in 0..7 {", "B"),
    (GF, "let sq = Square::from_coords(x, y);", "let sq = Square::from_coords(y, x);", "B"),
    (GF, "if is_occupied && num_spaces > 0 {", "if is_occupied || num_spaces > 0 {", "B"),
    (GF, "                    num_spaces = 0;\n", "", "B"),
    (GF, '(Some(Piece::Knight), Some(Colour::White)) => fen += "N",', '(Some(Piece::Knight), Some(Colour::White)) => fen += "n",', "B"),
    (GF, '(Some(Piece::Queen), Some(Colour::Black)) => fen += "q",', '(Some(Piece::Queen), Some(Colour::Black)) => fen += "Q",', "B"),
    (GF, "num_spaces += 1;", "num_spaces += 2;", "B"),
    (GF, "            if num_spaces > 0 {\n                fen += &num_spaces.to_string();\n            }",
     "            if num_spaces >= 0 {\n                fen += &num_spaces.to_string();\n            }", "B"),
    (GF, "if y > 0 {", "if y > 1 {", "B"),
    (GF, 'fen += "/";', 'fen += "-";', "B"),
    (GF, 'Colour::White => fen += " w",', 'Colour::White => fen += " W",', "B"),
    (GF, "if !npos.us_ksc && !npos.us_qsc && !npos.them_ksc && !npos.them_qsc {", "if npos.us_ksc && !npos.us_qsc && !npos.them_ksc && !npos.them_qsc {", "B"),
    (GF, "!(file + 1..8).any(", "!(file..8).any(", "B"),
    (GF, "!(0..file).any(", "!(0..file + 1).any(", "B"),
    (GF, "(b'a' + file) as char", "(b'b' + file) as char", "B"),
    (GF, "                } else if kingside {\n                    'k'\n                } else {\n                    'q'",
     "                } else if kingside {\n                    'q'\n                } else {\n                    'k'", "B"),
    (GF, "if rank == 0 {\n                    c.to_ascii_uppercase()", "if rank == 7 {\n                    c.to_ascii_uppercase()", "B"),
    (GF, "fen.push(letter(white_rooks, npos.castle_files[1], 0, false));", "fen.push(letter(white_rooks, npos.castle_files[0], 0, false));", "B"),
    (GF, "fen.push(letter(black_rooks, npos.castle_files[2], 7, true));", "fen.push(letter(white_rooks, npos.castle_files[2], 7, true));", "B"),
    (GF, "            if npos.us_ksc {\n                fen.push(letter(white_rooks, npos.castle_files[0], 0, true));\n            }\n            if npos.us_qsc {\n                fen.push(letter(white_rooks, npos.castle_files[1], 0, false));\n            }",
     "            if npos.us_qsc {\n                fen.push(letter(white_rooks, npos.castle_files[1], 0, false));\n            }\n            if npos.us_ksc {\n                fen.push(letter(white_rooks, npos.castle_files[0], 0, true));\n            }", "B"),
    (GF, 'None => fen += " -",', 'None => fen += " _",', "B"),
    (GF, "fen += &npos.halfmoves.to_string();", "fen += &npos.fullmoves.to_string();", "B"),
    (GF, "let white_rooks = npos.get_us() & npos.get_rooks();", "let white_rooks = npos.get_them() & npos.get_rooks();", "B"),
    (GF, "            let white_rooks = npos.get_us() & npos.get_rooks();\n            let black_rooks = npos.get_them() & npos.get_rooks();",
     "            let black_rooks = npos.get_them() & npos.get_rooks();\n            let white_rooks = npos.get_us() & npos.get_rooks();", "N"),
    (GF, 'panic!("Uh oh")', 'panic!("Oh no")', "N"),
    # ---- set_fen.rs
    (SF, 'if fen == "startpos" {', 'if fen == "startpo" {', "B"),
    (SF, f'self.set_fen("{STARTFEN}");', f'self.set_fen("{STARTFEN[:-1]}2");', "B"),
    (SF, "            return;\n        }\n\n        *self = Position {", "        }\n\n        *self = Position {", "B"),
    (SF, "castle_files: [7, 0, 7, 0],", "castle_files: [7, 0, 7, 1],", "B"),
    (SF, "is_frc: self.is_frc,", "is_frc: false,", "B"),
    (SF, "let mut parts = fen.split(' ');", "let mut parts = fen.split('/');", "B"),
    (SF, "let rank: u8 = idx / 8;", "let rank: u8 = idx / 4;", "B"),
    (SF, "let sq = Square(8 * (7 - rank) + file);", "let sq = Square(8 * (6 - rank) + file);", "B"),
    (SF, "'N' => {\n                        self.colours[Colour::White as usize] ^= bb;", "'N' => {\n                        self.colours[Colour::Black as usize] ^= bb;", "B"),
    (SF, "'R' => {\n                        self.colours[Colour::White as usize] ^= bb;\n                        self.pieces[Piece::Rook as usize] ^= bb;",
     "'R' => {\n                        self.colours[Colour::White as usize] ^= bb;\n                        self.pieces[Piece::Rook as usize] |= bb;", "B"),
    (SF, "'q' => {\n                        self.colours[Colour::Black as usize] ^= bb;\n                        self.pieces[Piece::Queen as usize] ^= bb;",
     "'q' => {\n                        self.colours[Colour::Black as usize] ^= bb;\n                        self.pieces[Piece::King as usize] ^= bb;", "B"),
    (SF, "'5' => idx += 5,", "'5' => idx += 6,", "B"),
    (SF, "'/' => {}", "'/' => idx += 1,", "B"),
    (SF, "if idx != 64 {", "if idx != 63 {", "B"),
    (SF, '"w" | "W" => false,', '"w" | "W" => true,', "B"),
    (SF, '"b" | "B" => true,', '"b" => true,', "B"),
    (SF, 'if (self.get_white() & self.get_kings()).is_empty() {\n            panic!("Invalid FEN: white king missing");',
     'if (self.get_white() & self.get_kings()).is_occupied() {\n            panic!("Invalid FEN: white king missing");', "B"),
    (SF, "let white_qs = Bitboard(0xFF) & Bitboard::ray_west(wksq);", "let white_qs = Bitboard(0xFF) & Bitboard::ray_east(wksq);", "B"),
    (SF, "let black_ks = Bitboard(0xFF00000000000000)", "let black_ks = Bitboard(0xFF000000000000)", "B"),
    (SF, "if part.chars().nth(i).unwrap() == c {", "if part.chars().nth(i).unwrap() != c {", "B"),
    (SF, "                for i in 0..idx {\n                    if part.chars().nth(i).unwrap() == c {\n                        panic!(\"Invalid FEN: duplicated castling permissions\");\n                    }\n                }\n", "", "B"),
    (SF, "(Colour::White, rooks.hsb().file() as u8, true)", "(Colour::White, rooks.lsb().file() as u8, true)", "B"),
    (SF, "(Colour::Black, rooks.lsb().file() as u8, false)", "(Colour::White, rooks.lsb().file() as u8, false)", "B"),
    (SF, "'A'..='H' => {", "'A'..='G' => {", "B"),
    (SF, "let file = c as u8 - 'A' as u8;", "let file = c as u8 - 'B' as u8;", "B"),
    (SF, "(Colour::Black, file, (file > ksq.file() as u8))", "(Colour::Black, file, (file >= ksq.file() as u8))", "B"),
    (SF, "'-' => break,", "'-' => continue,", "B"),
    (SF, "self.us_qsc = true;\n                        self.castle_files[1] = file;", "self.us_qsc = true;\n                        self.castle_files[0] = file;", "B"),
    (SF, "self.them_ksc = true;", "self.them_qsc = true;", "B"),
    (SF, 'if part == "-" {\n                self.ep = None;', 'if part == "_" {\n                self.ep = None;', "B"),
    (SF, "} else if part.len() == 2 {", "} else if part.len() == 3 {", "B"),
    (SF, "let c2 = part.chars().nth(1).unwrap();", "let c2 = part.chars().nth(0).unwrap();", "B"),
    (SF, "let file = c1 as u8 - b'a';", "let file = c1 as u8 - b'b';", "B"),
    (SF, "let idx = 8 * rank + file;", "let idx = 8 * file + rank;", "B"),
    (SF, 'if value < 0 {\n                        panic!("Invalid FEN: halfmove counter out of range");',
     'if value <= 0 {\n                        panic!("Invalid FEN: halfmove counter out of range");', "B"),
    (SF, "self.halfmoves = value", "self.fullmoves = value", "B"),
    (SF, "match part.parse::<i32>() {", "match part.parse::<u32>() {", "B"),
    (SF, 'if parts.next().is_some() {\n            panic!("Invalid FEN: extra parts");', 'if parts.next().is_none() {\n            panic!("Invalid FEN: extra parts");', "B"),
    (SF, "self.flip();\n            self.turn = Colour::Black", "self.flip();\n            self.turn = Colour::White", "B"),
    (SF, "if should_flip {\n            self.flip();\n", "if should_flip {\n", "B"),
    (SF, "        self.hash = self.calculate_hash();\n", "", "B"),
    (SF, 'Err(e) => panic!("Invalid FEN: {e}"),', "Err(_e) => {}", "B"),
    (SF, 'panic!("Invalid FEN: black king missing");', 'panic!("Invalid FEN: the black king is missing");', "N"),
    # ---- from_fen.rs, position.rs (Default), chess/mv.rs
    (FF, "pos.set_fen(fen);", 'pos.set_fen("startpos");', "B"),
    (POS, "castle_files: [7, 0, 7, 0],\n            hash: 0u64,\n            is_frc: false,", "castle_files: [7, 0, 7, 0],\n            hash: 0u64,\n            is_frc: true,", "B"),
    (POS, "halfmoves: 0,\n            fullmoves: 1,\n            turn: Colour::White,\n            ep: None,", "halfmoves: 0,\n            fullmoves: 0,\n            turn: Colour::White,\n            ep: None,", "B"),
    (CMV, "to: self.to.flip(),", "to: self.to,", "B"),
    # ---- uci/moves.rs
    (MOV, "from: Square::from_index(SquareIdx::E1),", "from: Square::from_index(SquareIdx::D1),", "B"),
    (MOV, "to: Square::from_coords(file, 0),", "to: Square::from_coords(file, 7),", "B"),
    (MOV, "if is_white_string == white_to_move", "if is_white_string != white_to_move", "B"),
    (MOV, "                && legal.contains(&mv)\n", "", "B"),
    (MOV, '} else if movestr == "e1c1" {\n            castling(true, pos.castle_files[1])', '} else if movestr == "e1c1" {\n            castling(true, pos.castle_files[0])', "B"),
    (MOV, '} else if movestr == "e8g8" {\n            castling(false,', '} else if movestr == "e8g8" {\n            castling(true,', "B"),
    (MOV, 'movestr == "e8c8"', 'movestr == "e8b8"', "B"),
    (MOV, "pos.makemove::<true>(&found);", "pos.makemove::<false>(&found);", "B"),
    (MOV, "            history.push(pos.hash);\n", "", "B"),
    (MOV, 'println!("info string unknown move {}", movestr);', 'println!("info string unknown mov {}", movestr);', "B"),
    (MOV, "x.to_uci(pos) == movestr", "x.to_uci(pos) != movestr", "B"),
    (MOV, "let white_to_move = pos.turn == Colour::White;", "let white_to_move = pos.turn == Colour::Black;", "B"),
    # ---- uci/position.rs
    (UPOS, 'Some("startpos") => {\n            stream.next();\n', 'Some("startpos") => {\n', "B"),
    (UPOS, 'part != "moves"', 'part != "move"', "B"),
    (UPOS, 'a + b + " "', 'a + b + "_"', "B"),
    (UPOS, "pos.set_fen(fen.trim());", "pos.set_fen(&fen);", "B"),
    (UPOS, "    history.clear();\n", "", "B"),
    (UPOS, "    history.push(pos.hash);\n", "", "B"),
    (UPOS, 'Some("fen") => {', 'Some("fenn") => {', "B"),
    (UPOS, '"startpos".to_string()', '"startpo".to_string()', "B"),
    # ---- chess/perft.rs
    (PFT, "if depth == 0 {\n            return 1;", "if depth == 0 {\n            return 0;", "B"),
    (PFT, "} else if depth == 1 {", "} else if depth == 2 {", "B"),
    (PFT, "self.after_move::<false>(", "self.after_move::<true>(", "B"),
    (PFT, "nodes += npos.perft(depth - 1)", "nodes += npos.perft(depth - 2)", "B"),
    (PFT, "let mut nodes = 0u64;", "let mut nodes = 1u64;", "B"),
    (PFT, "&Mv { from, to, promo }", "&Mv { from: to, to: from, promo }", "B"),
    # ---- uci/setoption.rs
    (SOPT, 'Some("name") => {}', 'Some("nam") => {}', "B"),
    (SOPT, 'Some("value") => {}', 'Some("valu") => {}', "B"),
    (SOPT, "func(name, value);", "func(value, name);", "B"),
    (SOPT, 'Some("name") => {}\n        _ => return,', 'Some("name") => {}\n        _ => {}', "B"),
    # ---- uci/go.rs  parse_go
    (GO, '("wtime", n) => wtime = n.parse::<u32>().ok(),', '("wtime", n) => btime = n.parse::<u32>().ok(),', "B"),
    (GO, '("depth", n) => depth = n.parse::<i32>().ok(),', '("depth", n) => depth = n.parse::<u32>().ok(),', "B"),
    (GO, '("nodes", n) => nodes = n.parse::<u64>().ok(),', '("nodes", n) => nodes = n.parse::<u32>().ok(),', "B"),
    (GO, '("infinite", _) => infinite = Some(true),', '("infinite", _) => infinite = Some(false),', "N"),
    (GO, '("", _) => break,', '("", _) => return Err("Uh oh"),', "B"),
    (GO, '(_, _) => return Err("Uh oh"),', "(_, _) => break,", "B"),
    (GO, "Ok(settings::Type::Time(wt, bt, winc, binc, movestogo))", "Ok(settings::Type::Time(bt, wt, winc, binc, movestogo))", "B"),
    (GO, "(None, None, None, None, None, None, Some(d), None) => Ok(settings::Type::Perft(d)),", "(None, None, None, None, None, None, Some(d), None) => Ok(settings::Type::SplitPerft(d)),", "B"),
    (GO, '("perft", n) => perft = n.parse::<u8>().ok(),', '("perf", n) => perft = n.parse::<u8>().ok(),', "B"),
    (GO, "(None, None, Some(d), None, None, None, None, None) => Ok(settings::Type::Depth(d)),", "(None, None, Some(d), None, None, None, None, Some(_)) => Ok(settings::Type::Depth(d)),", "B"),
    (GO, '        _ => Err("Uh oh"),\n    }\n}', '        _ => Err("Uh oh!"),\n    }\n}', "N"),
    # ---- constructs outside the translated subset: TRANSLATE-ERROR
    (GF, "c.to_ascii_uppercase()", "c.to_uppercase().next().unwrap()", "N"),
    (SF, "let wksq = (self.get_white() & self.get_kings()).lsb();", "let wksq = (self.get_white() & self.get_kings()).hsb();", "B"),
    (MOV, "for movestr in stream.by_ref() {", "while let Some(movestr) = stream.next() {", "N"),
]


def run(cmd, cwd, env, timeout):
    try:
        r = subprocess.run(cmd, cwd=cwd, env=env, stdout=subprocess.PIPE, stderr=subprocess.STDOUT, text=True, timeout=timeout)
        return r.returncode, r.stdout
    except subprocess.TimeoutExpired as ex:
        out = ex.stdout or ""
        if isinstance(out, bytes):
            out = out.decode(errors="replace")
        return 124, out + "\nTIMEOUT"


class Worker:
    def __init__(self, a, lean, scratch, targets):
        self.a, self.lean, self.scratch, self.targets = a, lean, scratch, targets
        self.out_file = os.path.join(lean, "Rawr", "Generated", "RustText.lean")

    def translate_and_check(self, repo):
        env = dict(os.environ, RAWR_REPO=repo, RAWR_TEXT_OUT=self.out_file, RAWR_VERIF=os.path.dirname(self.lean))
        rc, out = run([sys.executable, self.a.translator], self.lean, env, 120)
        if rc == 3:
            return "TRANSLATE-ERROR", out.strip().splitlines()[-1][:150]
        if rc != 0:
            return "TRANSLATOR-CRASH", out.strip()[-300:]
        rc, out = run(["lake", "build"] + self.targets, self.lean, dict(os.environ), self.a.timeout)
        if rc != 0:
            errs = [l for l in out.splitlines() if "error" in l]
            return "PROOF-FAILS", (errs[0] if errs else out[-200:])[:150]
        return "OK", ""

    def mutant(self, i, f, old, new, kind, baseline):
        orig = open(os.path.join(self.a.repo, f)).read()
        if orig.count(old) < 1:
            return (i, kind, "PATTERN-NOT-FOUND", 0.0, f"{f}: {old[:50]!r}", "")
        open(os.path.join(self.scratch, f), "w").write(orig.replace(old, new, 1))
        t1 = time.time()
        st, msg = self.translate_and_check(self.scratch)
        if st == "OK" and open(self.out_file).read() == baseline:
            st = "OK(same Lean text)"
        open(os.path.join(self.scratch, f), "w").write(orig)
        desc = (old.strip().splitlines()[0][:48] + " -> " + (new.strip().splitlines()[0][:40] if new.strip() else "<deleted>"))
        return (i, kind, st, time.time() - t1, f"{os.path.basename(os.path.dirname(f))}/{os.path.basename(f):14s} {desc}", msg)


def main():
    ap = argparse.ArgumentParser()
    ap.add_argument("--repo", default=os.environ.get("RAWR_REPO", "/repo"))
    ap.add_argument("--lean", default="/tmp/agents/t2/lean")
    ap.add_argument("--translator", default=os.path.join(HERE, "rust2lean_text.py"))
    ap.add_argument("--work", default="/tmp/rust2lean_text_selftest")
    ap.add_argument("--only", default="")
    ap.add_argument("--timeout", type=int, default=600)
    ap.add_argument("--jobs", type=int, default=1)
    a = ap.parse_args()
    if os.path.realpath(a.lean) == os.path.realpath("/verif/lean"):
        sys.exit("refusing to run in the shared /verif/lean: give a private copy with --lean")
    if os.path.realpath(a.work).startswith(os.path.realpath(a.repo) + os.sep) or os.path.realpath(a.work) == os.path.realpath(a.repo):
        sys.exit("refusing to work inside the repository")
    targets = [t for t in TARGETS if os.path.exists(os.path.join(a.lean, t.replace(".", "/") + ".lean"))]
    shutil.rmtree(a.work, ignore_errors=True)
    os.makedirs(a.work)
    workers = []
    for k in range(max(1, a.jobs)):
        scratch = os.path.join(a.work, f"repo{k}")
        os.makedirs(scratch)
        shutil.copytree(os.path.join(a.repo, "src"), os.path.join(scratch, "src"))
        lean = a.lean
        if k > 0:
            lean = os.path.join(a.work, f"v{k}", "lean")
            shutil.copytree(a.lean, lean, symlinks=True)
        workers.append(Worker(a, lean, scratch, targets))
    t0 = time.time()
    st, msg = workers[0].translate_and_check(a.repo)
    baseline = open(workers[0].out_file).read()
    print(f"baseline: {st} {msg} ({time.time() - t0:.0f}s)", flush=True)
    if st != "OK":
        sys.exit(1)
    for w in workers[1:]:
        st, msg = w.translate_and_check(a.repo)
        if st != "OK":
            sys.exit(f"baseline fails in {w.lean}: {msg}")
    only = {int(x) for x in a.only.split(",") if x}
    todo = [(i, *m) for i, m in enumerate(M, 1) if not only or i in only]
    results, lock = [], threading.Lock()

    def loop(w):
        while True:
            with lock:
                if not todo:
                    return
                job = todo.pop(0)
            r = w.mutant(*job, baseline)
            with lock:
                results.append(r)
                i, kind, st, dt, desc, msg = r
                print(f"{i:3d} [{kind}] {st:18s} {dt:4.0f}s  {desc}   {msg}", flush=True)
    threads = [threading.Thread(target=loop, args=(w,)) for w in workers]
    for t in threads:
        t.start()
    for t in threads:
        t.join()
    st, msg = workers[0].translate_and_check(a.repo)
    print(f"restored: {st} {msg}", flush=True)
    results.sort()
    b = [r for r in results if r[1] == "B"]
    n = [r for r in results if r[1] == "N"]

    def det(r):
        return not r[2].startswith("OK")
    print(f"behaviour-changing mutants: {sum(map(det, b))}/{len(b)} detected "
          f"(TRANSLATE-ERROR {sum(r[2] == 'TRANSLATE-ERROR' for r in b)}, PROOF-FAILS {sum(r[2] == 'PROOF-FAILS' for r in b)})")
    print(f"behaviour-neutral mutants:  {sum(map(det, n))}/{len(n)} flagged "
          f"(same Lean text {sum(r[2] == 'OK(same Lean text)' for r in n)})")
    bad = [r[0] for r in results if r[2] in ("PATTERN-NOT-FOUND", "TRANSLATOR-CRASH")]
    if bad:
        print("PATTERN-NOT-FOUND / TRANSLATOR-CRASH:", bad)
    missed = [r[0] for r in b if not det(r)]
    if missed:
        print("MISSED:", missed)
    if missed or bad:
        sys.exit(1)


if __name__ == "__main__":
    main()
