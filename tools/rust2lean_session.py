#!/usr/bin/env python3
"""Rust -> Lean translator for the UCI SESSION layer of kz04px/rawr.

Regenerates lean/Rawr/Generated/RustSession.lean from the CURRENT sources on every run: uci/listen.rs (`listen`: both
command loops, the session state, the two `setoption` callbacks), uci/go.rs (`info_printer`, `go`), uci/perft.rs,
uci/split.rs, `impl Display for Position` / `Colour`, `Position::startpos`.  (main.rs is not translated: the model starts
after the first line `uci`; `benchmark` is outside the model.)
It uses the three existing translators as libraries: tools/rust2lean_imp.py (expression translator, chess-core callee
table), tools/rust2lean_text.py (statement compiler emitting `do`-notation, hoisted loops, callee table of the text
side: `from_fen`, `moves`, `position`, `setoption`, `parse_go`, `to_uci`, `pos_perft`) and tools/rust2lean_search.py
(declaration parser for info.rs; the names `R.root`, `R.tt_new`, `R.tt_resize`, `R.tt_clear` of RustSearch.lean).
`lean/Rawr/Proofs/RustSessionAgree*.lean` prove the emitted definitions equal to the model (Rawr/Model/Uci.lean).

Every emitted definition is obtained from the Rust token stream (match arms and their order, string literals, conditions,
statement order, callees).  Unknown constructs raise TranslateError (exit 3, `TRANSLATE-ERROR ...`); dropped are only
`debug_assert*!`, attributes, comments, `&`/`*`.

Representation (in addition to tools/rust2lean_text.py)
  stdout                         `out : List Char`, the byte stream: `print!(f, a..)` appends the formatted text,
                                 `println!` the text and '\\n'; a callee translated by rust2lean_text.py returns its lines as
                                 `List String`, appended as `Rawr.T.unlines`
  `write!(f, ..)`, `writeln!`    on a `&mut fmt::Formatter` parameter `f : List Char` (as in rust2lean_text.py); a `{}` hole
                                 of a type with a translated `Display` (`Position`, `Colour`, `Square`) calls that `fmt`
  stdin                          an added parameter `stdin : List (List Char)` (the remaining lines, without their '\\n');
                                 `std::io::stdin().read_line(&mut s)` is `Rawr.T.readLineRes stdin : Option Nat`
                                 (`Ok(n)`, `n = 0` at end of input; `Err` = invalid UTF-8 does not occur for `List Char`),
                                 `s := s ++ Rawr.T.readLineStr stdin` (the line and its '\\n'), `stdin := stdin.tail`
  `Instant::now()`               `()`;  `x.elapsed()` is `clock tick` (nanoseconds) of the added parameter `clock : Nat -> Nat`
                                 and the `tick`-th reading within the function (`tick := tick + 1`); `Duration::is_zero`,
                                 `as_millis`, `as_secs_f64` are `== 0`, `/ 1000000`, `Rawr.T.F64.ofNanos`
  f64                            `Rawr.T.F64` (exact non-negative rationals; `as f64`, `/`, `as u64`): an APPROXIMATION of IEEE
                                 arithmetic whose only use is the `nps` token, which the agreement theorems project away
  `option_env!("CARGO_PKG_VERSION")`   the added parameter `version : Option (List Char)`
  `cfg!(debug_assertions)`       the added parameter `debug : Bool`
  `Hashtable<TTEntry>`           `Rawr.Table Rawr.TTEntry`; `new / resize / clear` are `R.tt_new / R.tt_resize / R.tt_clear` of
                                 RustSearch.lean with `size_of::<TTEntry>() = Rawr.Gen.ttEntrySize`
  `root::root(pos, history, tt, settings, info_printer)`
                                 `R.root (fun k => clock k / 1000000) pos history.reverse tt (Rawr.T.toSettings settings) sfuel`
                                 (RustSearch.lean keeps the history most recent first and has its own `Settings`); the printed
                                 `Info` records it returns are passed, in order, to the translated `info_printer`; `sfuel` is
                                 an added parameter (the recursion fuel of the search); the callback invocations are
                                 `Rawr.T.printAll` (RustSessionPrelude.lean)
  `f(&mut stream, |a, b| body)`  for a callee with a callback parameter (`setoption`): the callee returns the list of
                                 callback invocations; `body` is run for each of them in order (the callee cannot observe
                                 the effects of a `FnMut(&str, &str)` without result)
  `let x = f(&mut a, ..);`       `let r <- R.f ..; let x := r.1; a := r.2 ..`
Environment: RAWR_REPO (default /repo), RAWR_VERIF (default: the parent of tools/), RAWR_SESSION_OUT (output file).
Self-test: tools/rust2lean_session_selftest.py.
"""
import os
import re
import sys

HERE = os.path.dirname(os.path.abspath(__file__))
sys.path.insert(0, HERE)
import rust2lean_imp as imp            # noqa: E402
import rust2lean_text as text          # noqa: E402
import rust2lean_search as search      # noqa: E402
from rust2lean_imp import TranslateError, NeedMonad, Ex   # noqa: E402
from rust2lean_text import NotInline, known, lean_ty, lean_string  # noqa: E402

REPO = os.environ.get("RAWR_REPO", "/repo")
VERIF = os.environ.get("RAWR_VERIF", os.path.dirname(HERE))
OUT = os.environ.get("RAWR_SESSION_OUT", os.path.join(VERIF, "lean", "Rawr", "Generated", "RustSession.lean"))
imp.REPO = REPO
text.REPO = REPO
search.REPO = REPO

# additional model types
text.LEAN_TY.update({"Info": "R.Info", "Table": "Rawr.Table Rawr.TTEntry", "ClockFn": "Nat → Nat", "Stdin": "List (List Char)",
                     "Version": "Option (List Char)", "Instant": "Unit", "Dur": "Nat", "F64": "Rawr.T.F64",
                     "Colour": "Bool", "Out": "List Char"})
NATLIKE = text.NATLIKE


# --------------------------------------------------------------------------------------------- parser
class SParser(text.Parser):
    """adds: `writeln!`, `cfg!`, a turbofish in the middle of a path (`Hashtable::<TTEntry>::new`)."""
    MACROS = text.Parser.MACROS + ("writeln", "cfg")

    def primary(self):
        if self.peekkind() == "id" and self.peek(1) == "::" and self.peek(2) == "<":
            # T::<G>::f  ->  path [T, f] with generics [G]
            j = self.i + 3
            depth = 1
            while depth and j < len(self.t):
                depth += (self.t[j][1] == "<") - (self.t[j][1] == ">")
                j += 1
            if j < len(self.t) and self.t[j][1] == "::":
                head = self.eat()
                gen = self.turbofish()
                segs = [head]
                while self.peek() == "::":
                    self.eat("::")
                    segs.append(self.ident())
                return ("path", segs, gen)
        return super().primary()


# --------------------------------------------------------------------------------------------- translator
EXTRA_TYPES = {"clock": "ClockFn", "stdin": "Stdin", "version": "Version", "sfuel": "Nat", "debug": "Bool"}
EXTRA_MUT = {"stdin"}
EXTRA_ORDER = ["sfuel", "clock", "version", "debug", "stdin"]


class Sess(text.Translator):
    def __init__(self, textT, info_fields):
        text.Translator.__init__(self, textT)
        self.fns = dict(textT.fns)
        self.tfns = dict(textT.tfns)
        self.info_fields = info_fields       # [(field, model type)] of search::info::Info, from info.rs
        self.extras = {}                     # rust key -> [extra parameter names] of the functions translated here
        self.cur_extras = []
        self.fmt_ctx = None

    # ------------------------------------------------------------------ extras (added parameters)
    def use_extra(self, c, name):
        if name not in c.env:
            raise TranslateError(f"`{name}` is needed here but the function was not given this parameter (driver: extras)")
        self.note(c, name, False)
        return c.env[name][0]

    # ------------------------------------------------------------------ types
    def conv(self, t, c=None):
        if t is not None and t[0] == "ty":
            name, args = t[1], t[2]
            if name in ("ClockFn", "Stdin", "Version") and not args:
                return name
            if name == "Info" and not args:
                return "Info"
            if name == "Hashtable" and len(args) == 1 and args[0][0] == "ty" and args[0][1] == "TTEntry":
                return "Table"
            if name == "bool" and not args:
                return "Bool"
            if name == "Colour" and not args:
                return "Colour"
        return super().conv(t, c)

    def coerce(self, x, ty, what):
        if x.ty == "Colour" and ty == "Colour":
            return x
        return super().coerce(x, ty, what)

    # ------------------------------------------------------------------ expressions
    def ex_path(self, e, c):
        segs, gen = e[1], e[2]
        if segs == ["self"] and "self" in c.env:
            ln, ty, _ = c.env["self"]
            self.note(c, "self", False)
            return Ex(ln, ty)
        return super().ex_path(e, c)

    def ex_field(self, e, c):
        base, f = e[1], e[2]
        if f not in ("0", "1", "2", "3"):
            b = self.ex(base, c)
            if b.ty == "Info":
                for fn_, ty in self.info_fields:
                    if fn_ == f:
                        return Ex(f"{b.text}.{imp.lname(f)}", ty)
                raise TranslateError("Info has no field " + f)
        return super().ex_field(e, c)

    def ex_cast(self, e, c):
        tname = e[2][1] if e[2][0] == "ty" else None
        if tname in ("u128", "f64", "u64"):
            x = self.ex(e[1], c)
            if tname == "u128" and x.ty in NATLIKE:
                return Ex(x.text, "Nat", x.const)
            if tname == "f64" and x.ty in NATLIKE:
                return Ex(f"(Rawr.T.F64.ofNat {x.text})", "F64")
            if tname == "u64" and x.ty == "F64":
                return Ex(f"(Rawr.T.F64.toU64 {x.text})", "Nat")
        return super().ex_cast(e, c)

    def ex_binary(self, e, c):
        op, l, r = e[1], e[2], e[3]
        if op in ("/", "%"):
            save = (list(c.pending), set(c.names))
            a, b = self.ex(l, c), self.ex(r, c)
            if op == "/" and a.ty == "F64" and b.ty == "F64":
                return Ex(f"(Rawr.T.F64.div {a.text} {b.text})", "F64")
            if (a.ty == "Nat" or b.ty == "Nat") and a.ty in ("Nat", "Lit") and b.ty in ("Nat", "Lit"):
                if b.const is not None and b.const != 0:
                    return Ex(f"({a.text} {op} {b.text})", "Nat")
                # integer division by zero panics
                fn = "R.checkedDiv" if op == "/" else "R.checkedMod"
                return self.bind(f"({fn} {a.text} {b.text})", "Nat", "q", c, "integer division")
            c.pending[:] = save[0]
        return super().ex_binary(e, c)

    def ex_call(self, e, c):
        f, args = e[1], e[2]
        if f[0] == "path":
            segs, gen = f[1], f[2]
            key = "::".join(segs)
            if key == "Instant::now" and not args:
                return Ex("()", "Instant")
            if key == "Hashtable::new" and gen == ["TTEntry"] and len(args) == 1:
                a = self.coerce(self.ex(args[0], c), "Nat", key)
                return self.bind(f"(R.tt_new (α := Rawr.TTEntry) {a.text} Rawr.Gen.ttEntrySize)", "Table", "tt_new_r", c, key)
            if key in ("Some",) and len(args) == 1:
                a = self.ex(args[0], c)
                return Ex(f"(some {a.text})", ("Opt", a.ty))
            for cand in (key, segs[-1] if len(segs) == 2 else None):
                if cand and cand in self.tfns and (self.tfns[cand].mutparams or self.tfns[cand].prints):
                    raise NotInline(key + ": call with &mut parameters / output in expression position")
        return super().ex_call(e, c)

    def ex_mcall(self, e, c):
        recv_ast, name, gen, args = e[1], e[2], e[3], e[4]
        # std::io::stdin().read_line(&mut s)
        if name == "read_line" and len(args) == 1 and recv_ast[0] == "call" and recv_ast[1][0] == "path" \
                and recv_ast[1][1][-1] == "stdin" and not recv_ast[2]:
            buf = args[0]
            while buf[0] == "paren":
                buf = buf[1]
            if buf[0] != "path" or len(buf[1]) != 1 or buf[1][0] not in c.env or c.env[buf[1][0]][1] != "Str" or not c.env[buf[1][0]][2]:
                raise TranslateError("read_line: the buffer must be a mutable String variable")
            sin = self.use_extra(c, "stdin")
            rl = c.fresh("rl")
            bl = c.env[buf[1][0]][0]
            self.effect(c, f"let {rl} : Option Nat := Rawr.T.readLineRes {sin}", "read_line")
            self.effect(c, f"{bl} := {bl} ++ Rawr.T.readLineStr {sin}", "read_line")
            self.effect(c, f"{sin} := {sin}.tail", "read_line")
            self.note(c, buf[1][0], True)
            self.note(c, "stdin", True)
            return Ex(rl, ("Res", "Nat"))
        if name == "parse" and not args and gen == ["usize"]:
            r = self.coerce(self.ex(recv_ast, c), "Str", "parse")
            return Ex(f"({text.PARSE['usize'][0]} {r.text})", ("Res", "Nat"))
        if name == "elapsed" and not args:
            r = self.ex(recv_ast, c)
            if r.ty == "Instant":
                if "tick__" not in c.env:
                    raise TranslateError("internal: elapsed() without the reading counter")
                clock = self.use_extra(c, "clock")
                d = c.fresh("dur")
                tk = c.env["tick__"][0]
                self.effect(c, f"let {d} : Nat := {clock} {tk}", "elapsed()")
                self.effect(c, f"{tk} := {tk} + 1", "elapsed()")
                self.note(c, "tick__", True)
                return Ex(d, "Dur")
        r = None
        try:
            snap = (list(c.pending), set(c.names))
            r = self.ex(recv_ast, c)
        except (TranslateError, NotInline, NeedMonad):
            c.pending[:] = snap[0]
            return super().ex_mcall(e, c)
        if r.ty == "Dur" and not args:
            if name == "is_zero":
                return Ex(f"({r.text} == 0)", "Bool")
            if name == "as_millis":
                return Ex(f"({r.text} / 1000000)", "Nat")
            if name == "as_secs_f64":
                return Ex(f"(Rawr.T.F64.ofNanos {r.text})", "F64")
        if r.ty == "Version" and name == "unwrap_or" and len(args) == 1:
            d = self.coerce(self.ex(args[0], c), "Str", name)
            return Ex(f"({r.text}.getD {d.text})", "Str")
        if r.ty == "Pos" and name == "perft" and len(args) == 1 and "Position::perft" in self.tfns:
            return self.call_t("Position::perft", r, args, gen, c)
        c.pending[:] = snap[0]
        return super().ex_mcall(e, c)

    def ex_macro(self, e, c):
        name, args = e[1], e[2]
        if name == "option_env" and len(args) == 1 and args[0][0] == "str" and text.unescape(args[0][1][1:-1]) == "CARGO_PKG_VERSION":
            return Ex(self.use_extra(c, "version"), "Version")
        if name == "cfg" and len(args) == 1 and args[0] == ("path", ["debug_assertions"], []):
            return Ex(self.use_extra(c, "debug"), "Bool")
        if name == "vec":
            return self.ex_array(("array", args), c)
        return super().ex_macro(e, c)

    def lean_pattern(self, p, ty, c):
        if p[0] == "pctor" and len(p[1]) >= 2 and p[1][-2] == "Type" and p[1][-1] in text.GOTYPE and p[2] is not None:
            tys = text.GOTYPE[p[1][-1]]
            if len(tys) != len(p[2]):
                raise TranslateError("settings::Type::" + p[1][-1] + ": wrong number of fields in the pattern")
            name = "Rawr.T.GoType." + p[1][-1][0].lower() + p[1][-1][1:]
            return "(" + " ".join([name] + [self.lean_pattern(x, t, c) for x, t in zip(p[2], tys)]) + ")"
        return super().lean_pattern(p, ty, c)

    # ---- format strings
    def display(self, x, spec):
        c = self.fmt_ctx
        if spec == "" and c is not None:
            key = {"Pos": "Position::fmt", "Colour": "Colour::fmt", "Sq": "Square::fmt"}.get(x.ty)
            if key is not None:
                if key not in self.tfns:
                    raise TranslateError(f"Display of {x.ty}: {key} is not translated")
                info = self.tfns[key]
                pre = []
                if info.needs_fuel:
                    c.fnstate.uses_fuel = True
                    pre.append("fuel")
                if info.needs_ar:
                    pre.append(self.use_ar(c))
                call = "(" + " ".join(["R." + info.lean] + pre + [x.text, "[]"]) + ")"
                v = self.bind(call, "Str", "shown", c, "Display of " + x.ty) if info.monadic else Ex(call, "Str")
                return f"String.ofList {v.text}"
        if spec == "" and x.ty == "Dur":
            raise TranslateError("Display of a Duration")
        return super().display(x, spec)

    def format_pieces(self, args, c, what):
        old = self.fmt_ctx
        self.fmt_ctx = c
        try:
            return super().format_pieces(args, c, what)
        finally:
            self.fmt_ctx = old

    # ------------------------------------------------------------------ statements
    def finish(self, c, val):
        # the returned &mut parameters / the output are read here (a `return` inside a hoisted loop needs them)
        st = c.fnstate
        for rust in st.mutparams:
            self.note(c, rust, False)
        if st.prints:
            self.note(c, "%out", False)
        return super().finish(c, val)

    def is_recursive(self, fn, lean_name):
        """a method call `x.f(..)` inside a free function `f` is not a recursive call (uci/perft.rs calls Position::perft)."""
        name = fn["name"]
        hasself = bool(fn["self"])

        def walk(node):
            if isinstance(node, tuple):
                if node and node[0] == "mcall" and node[2] == name and hasself:
                    return True
                if node and node[0] == "call" and node[1][0] == "path" and node[1][1][-1] == name \
                        and (not hasself and len(node[1][1]) == 1 or node[1][1][0] == "Self"):
                    return True
                return any(walk(x) for x in node)
            if isinstance(node, list):
                return any(walk(x) for x in node)
            return False
        return walk(fn["body"])

    def do_macro_stmt(self, e, c, ind, lines):
        name, args = e[1], e[2]
        if name in ("println", "print"):
            ps = self.format_pieces(args, c, name + "!") if args else []
            c.fnstate.prints = True
            self.note(c, "%out", True)
            self.flush(c, ind, lines)
            body = " ++ ".join(ps) if ps else '""'
            fn = "Rawr.T.line" if name == "println" else "Rawr.T.chars"
            lines.append(" " * ind + f"out := out ++ {fn} ({body})")
            return
        if name in ("write", "writeln"):
            if len(args) < 1 or args[0][0] != "path" or len(args[0][1]) != 1:
                raise TranslateError(name + "!: the first argument must be a variable")
            tgt = args[0][1][0]
            if tgt not in c.env or c.env[tgt][1] != "Str":
                raise TranslateError(name + "!: the target must be a string accumulator")
            if name == "write" and len(args) < 2:
                raise TranslateError("write! without a format string")
            ps = self.format_pieces(args[1:], c, name + "!") if len(args) > 1 else []
            body = " ++ ".join(ps) if ps else '""'
            fn = "Rawr.T.line" if name == "writeln" else "Rawr.T.chars"
            self.set_var(c, tgt, f"({c.env[tgt][0]} ++ {fn} ({body}))", ind, lines)
            return
        return super().do_macro_stmt(e, c, ind, lines)

    def do_expr_stmt(self, e, c, ind, lines):
        while e[0] == "paren":
            e = e[1]
        if e[0] == "try":
            inner = e[1]
            if inner[0] != "macro" or inner[1] not in ("write", "writeln"):
                raise TranslateError("`?` is only supported on `write!` / `writeln!` (writing to a String cannot fail)")
            return self.do_macro_stmt(inner, c, ind, lines)
        if e[0] == "path" and e[1] == ["input"] and False:
            return
        return super().do_expr_stmt(e, c, ind, lines)

    # a call whose result is bound and that updates &mut arguments / prints
    def split_args(self, info, args, gen, c, key):
        """-> (by-value argument texts incl. the current values of &mut ones, rust names of the &mut arguments)."""
        all_params = info.all_params
        extras = self.extras.get(key, [])
        args = [("path", [x], []) for x in extras] + list(args)
        if len(args) + len(gen) != len(all_params):
            raise TranslateError(key + ": wrong number of arguments")
        invals, muts = [], []
        for a, (pn, ty, ismut) in zip(list(args) + [("path", [g], []) for g in gen], all_params):
            if ismut:
                while a[0] == "paren":
                    a = a[1]
                n = self.local_of(a, c, key + " &mut argument")
                muts.append(n)
                self.note(c, n, False)
                invals.append(self.coerce(Ex(c.env[n][0], c.env[n][1]), ty, key))
            else:
                invals.append(self.coerce(self.ex(a, c), ty, key))
        return invals, muts

    def call_text(self, info, invals, c):
        pre = []
        if info.needs_fuel:
            c.fnstate.uses_fuel = True
            pre.append(Ex("fuel", "Nat"))
        if info.needs_ar:
            pre.append(Ex(self.use_ar(c), "Arith"))
        return self.app("R." + info.lean, pre + invals)

    def append_out(self, c, info, proj, ind, lines):
        c.fnstate.prints = True
        self.note(c, "%out", True)
        if getattr(info, "stream", False):
            lines.append(" " * ind + f"out := out ++ {proj}")
        else:
            lines.append(" " * ind + f"out := out ++ Rawr.T.unlines {proj}")

    def tfn_of_call(self, e):
        """(key, recv, args, gen) when `e` is a call of a function translated by rust2lean_text.py / here."""
        while e[0] == "paren":
            e = e[1]
        if e[0] == "call" and e[1][0] == "path":
            segs, gen = e[1][1], e[1][2]
            key = "::".join(segs)
            for cand in (key, segs[-1] if len(segs) == 2 else None):
                if cand and cand in self.tfns:
                    return cand, None, e[2], gen
        return None

    def do_let(self, s, rest, c, ind, lines):
        _, pat, mutable, ty, e = s
        core = e
        while core[0] == "paren":
            core = core[1]
        # let x = root::root(pos, history, tt, settings, info_printer);
        if core[0] == "call" and core[1][0] == "path" and core[1][1][-1] == "root" and len(core[1][1]) == 2 and core[1][1][0] == "root":
            return self.do_root(pat, mutable, core, c, ind, lines)
        hit = self.tfn_of_call(core)
        if hit is not None and pat[0] == "pvar":
            key, recv, args, gen = hit
            info = self.tfns[key]
            if (info.mutparams or info.prints) and info.ret != "Unit" and not info.hasself and not info.callback:
                invals, muts = self.split_args(info, args, gen, c, key)
                textc = self.call_text(info, invals, c)
                self.flush(c, ind, lines)
                if info.monadic:
                    self.need_monad(c, key)
                r = c.fresh("r")
                lines.append(" " * ind + f"let {r} {'←' if info.monadic else ':='} {textc}")
                comps = ["%ret"] + muts + (["%out"] if info.prints else [])
                ln = imp.lname(pat[1])
                for k, m in enumerate(comps):
                    proj = r + ".2" * k + (".1" if k < len(comps) - 1 else "") if len(comps) > 1 else r
                    if m == "%ret":
                        lines.append(" " * ind + f"let {'mut ' if mutable else ''}{ln} : {lean_ty(info.ret)} := {proj}")
                        self.declare(c, pat[1], ln, info.ret, mutable)
                    elif m == "%out":
                        self.append_out(c, info, proj, ind, lines)
                    else:
                        self.set_var(c, m, proj, ind, lines)
                return
        # let mut n = <untyped integer literal>;  typed by its later uses (the text translator defaults to i32)
        if pat[0] == "pvar" and ty is None and core[0] == "num" and re.fullmatch(r"\d[\d_]*", core[1]):
            t2 = self.later_type(pat[1], rest, c)
            if t2 is None and self.used_as_nat(pat[1], rest):
                t2 = "Nat"
            if t2 in ("Nat", "Int", "U8"):
                ln = imp.lname(pat[1])
                self.flush(c, ind, lines)
                lines.append(" " * ind + f"let {'mut ' if mutable else ''}{ln} : {lean_ty(t2)} := {core[1].replace('_', '')}")
                self.declare(c, pat[1], ln, t2, mutable)
                return
        return super().do_let(s, rest, c, ind, lines)

    @staticmethod
    def used_as_nat(name, rest):
        """is `name` passed to `resize(..)` / formatted as a size (usize) later?  (listen.rs: `let mut hash = 16;`)"""
        found = []

        def walk(node):
            if isinstance(node, tuple):
                if len(node) == 5 and node[0] == "mcall" and node[2] == "resize" and node[4] == [("path", [name], [])]:
                    found.append(1)
                for x in node:
                    walk(x)
            elif isinstance(node, list):
                for x in node:
                    walk(x)
        walk(rest)
        return bool(found)

    def do_root(self, pat, mutable, call, c, ind, lines):
        """`let best = root::root(*pos, history, tt, settings, info_printer);`"""
        args = call[2]
        if len(args) != 5 or pat[0] != "pvar":
            raise TranslateError("root::root: unexpected call shape")
        p = self.coerce(self.ex(args[0], c), "Pos", "root: position")
        hn = self.local_of(args[1], c, "root: history")
        tn = self.local_of(args[2], c, "root: table")
        if c.env[hn][1] != ("List", "BB") or c.env[tn][1] != "Table" or not c.env[hn][2] or not c.env[tn][2]:
            raise TranslateError("root::root: history / table arguments")
        st = self.coerce(self.ex(args[3], c), "GoKind", "root: settings")
        cb = args[4]
        if cb[0] != "path" or len(cb[1]) != 1 or cb[1][0] not in self.tfns:
            raise TranslateError("root::root: the info callback must be a translated function")
        cbinfo = self.tfns[cb[1][0]]
        if [t for _, t in cbinfo.params] != ["Info"] or cbinfo.mutparams or not cbinfo.prints or not getattr(cbinfo, "stream", False):
            raise TranslateError("root::root: unexpected signature of the info callback")
        clock = self.use_extra(c, "clock")
        sfuel = self.use_extra(c, "sfuel")
        self.need_monad(c, "root::root")
        self.flush(c, ind, lines)
        r = c.fresh("rr")
        self.note(c, hn, False)
        self.note(c, tn, False)
        lines.append(" " * ind + f"let {r} ← (R.root (fun k => {clock} k / 1000000) {p.text} {c.env[hn][0]}.reverse {c.env[tn][0]} "
                                 f"(Rawr.T.toSettings {st.text}) {sfuel})")
        self.set_var(c, hn, f"{r}.2.1.reverse", ind, lines)
        self.set_var(c, tn, f"{r}.2.2.1", ind, lines)
        # the callback invocations, in order
        item = c.fresh("info")
        pre = []
        if cbinfo.needs_fuel:
            c.fnstate.uses_fuel = True
            pre.append("fuel")
        if cbinfo.needs_ar:
            pre.append(self.use_ar(c))
        calltxt = " ".join(["R." + cbinfo.lean] + pre + [item])
        c.fnstate.prints = True
        self.note(c, "%out", True)
        if not cbinfo.monadic:
            raise TranslateError("root::root: the info callback is expected to be able to panic (Square::fmt)")
        lines.append(" " * ind + f"out ← Rawr.T.printAll (fun {item} => {calltxt}) {r}.2.2.2 out")
        ln = imp.lname(pat[1])
        lines.append(" " * ind + f"let {'mut ' if mutable else ''}{ln} : Option Mv := Except.toOption {r}.1")
        self.declare(c, pat[1], ln, ("Res", "Mv"), mutable)

    def do_mcall_stmt(self, e, c, ind, lines):
        recv_ast, name, gen, args = e[1], e[2], e[3], e[4]
        if recv_ast[0] == "path" and len(recv_ast[1]) == 1 and recv_ast[1][0] in c.env and c.env[recv_ast[1][0]][1] == "Table":
            n = recv_ast[1][0]
            if not c.env[n][2]:
                raise TranslateError(name + " on an immutable table")
            if name == "clear" and not args:
                self.set_var(c, n, f"(R.tt_clear {c.env[n][0]})", ind, lines)
                return
            if name == "resize" and len(args) == 1:
                a = self.coerce(self.ex(args[0], c), "Nat", "resize")
                v = self.bind(f"(R.tt_resize {c.env[n][0]} {a.text} Rawr.Gen.ttEntrySize)", "Table", "tt_resize_r", c, "resize")
                self.set_var(c, n, v.text, ind, lines)
                return
            raise TranslateError("Hashtable method not translated: " + name)
        return super().do_mcall_stmt(e, c, ind, lines)

    def do_call_t(self, key, recv_ast, args, gen, c, ind, lines):
        info = self.tfns.get(key)
        if info is None or key == self.current:
            return super().do_call_t(key, recv_ast, args, gen, c, ind, lines)
        extras = self.extras.get(key, [])
        callback = getattr(info, "callback", None)
        if not extras and not callback and not getattr(info, "stream", False):
            # a function of rust2lean_text.py: its `out` is a list of lines
            if not info.prints:
                return super().do_call_t(key, recv_ast, args, gen, c, ind, lines)
        clo = None
        if callback:
            if not args or args[-1][0] != "closure":
                raise TranslateError(key + ": the callback argument must be a closure literal")
            clo = args[-1]
            args = args[:-1]
        if info.hasself:
            raise TranslateError(key + ": method call statement with extras")
        invals, muts = self.split_args(info, args, gen, c, key)
        textc = self.call_text(info, invals, c)
        if info.ret != "Unit":
            raise TranslateError(key + ": result of a call statement is dropped")
        comps = list(muts) + (["%calls"] if callback else []) + (["%out"] if info.prints else [])
        self.flush(c, ind, lines)
        if info.monadic:
            self.need_monad(c, key)
        if not comps:
            if not info.monadic:
                raise TranslateError(key + ": call without effect")
            lines.append(" " * ind + textc)
            return
        r = c.fresh("r")
        lines.append(" " * ind + f"let {r} {'←' if info.monadic else ':='} {textc}")
        calls = None
        for k, m in enumerate(comps):
            proj = r + ".2" * k + (".1" if k < len(comps) - 1 else "") if len(comps) > 1 else r
            if m == "%out":
                self.append_out(c, info, proj, ind, lines)
            elif m == "%calls":
                calls = proj
            else:
                self.set_var(c, m, proj, ind, lines)
        if callback:
            self.run_callback(callback, clo, calls, c, ind, lines)

    def run_callback(self, callback, clo, calls, c, ind, lines):
        """the closure literal `clo` is run once per recorded invocation, in order."""
        pname, cty = callback
        tys = cty[1]
        ps, body = clo[1], clo[3]
        if len(ps) != len(tys):
            raise TranslateError("callback closure arity")
        item = c.fresh("call")
        ety = ("Tup", list(tys)) if len(tys) > 1 else tys[0]
        pre = []
        for k, (p, _) in enumerate(ps):
            pre.append(("let", ("pvar", p), False, None, ("field", ("path", [item], []), str(k)) if len(tys) > 1 else ("path", [item], [])))
        self.do_for(("for", ("pvar", item), ("leanlist", calls, ety), pre + list(body)), c, ind, lines)

    # ------------------------------------------------------------------ functions
    def function(self, src, rust_name, what, key, lean_name, u64="Nat", nth=0, self_name="s", cuts=(), extras=(), selfrust=None):
        self.cuts = tuple(cuts)
        toks = text.find_fn(src, rust_name, what, nth)
        fn = SParser(toks, f"{what}::{rust_name}").function()
        if selfrust is None:
            selfrust = text.impl_self_type(src, rust_name, nth)
        extras = [x for x in EXTRA_ORDER if x in extras]
        # the added parameters come first
        ex_params = []
        for x in extras:
            t = ("ty", {"ClockFn": "ClockFn", "Stdin": "Stdin", "Version": "Version", "Nat": "usize", "Bool": "bool"}[EXTRA_TYPES[x]], [])
            ex_params.append((x, ("mutref", t) if x in EXTRA_MUT else t))
        fn = dict(fn)
        fn["params"] = ex_params + list(fn["params"])
        if self.uses_elapsed(fn["body"]):
            fn["body"] = [("let", ("pvar", "tick__"), True, ("ty", "usize", []), ("num", "0"))] + list(fn["body"])
        self.current = key
        self.extras[key] = extras
        try:
            flags = (False, False, False)
            for monadic in (False, True):
                try:
                    _, _, st = self.compile_fn(fn, lean_name, self_name, monadic, what, selfrust, u64, flags)
                    flags = (st.uses_ar, st.uses_fuel, st.prints)
                    textd, info, st2 = self.compile_fn(fn, lean_name, self_name, monadic, what, selfrust, u64, flags)
                    if (st2.uses_ar, st2.uses_fuel, st2.prints) != flags:
                        raise TranslateError(f"{what}::{rust_name}: unstable signature")
                    break
                except NeedMonad:
                    if monadic:
                        raise TranslateError(f"{what}::{rust_name}: internal: NeedMonad in a monadic function")
                    flags = (False, False, False)
            info.stream = True
            self.tfns[key] = info
            self.out.append(self.fix_out_type(textd))
        except NotInline as ex:
            raise TranslateError(f"{what}::{rust_name}: expression needs statements in a pure context: {ex}")
        finally:
            self.current = None

    @staticmethod
    def uses_elapsed(node):
        if isinstance(node, tuple):
            if len(node) == 5 and node[0] == "mcall" and node[2] == "elapsed":
                return True
            return any(Sess.uses_elapsed(x) for x in node)
        if isinstance(node, list):
            return any(Sess.uses_elapsed(x) for x in node)
        return False

    SELF_TYPES = dict(text.Translator.SELF_TYPES)
    SELF_TYPES["Colour"] = "Colour"

    @staticmethod
    def fix_out_type(textd):
        """the output of the functions emitted here is the byte stream `List Char` (rust2lean_text.py: `List String`)."""
        textd = textd.replace("let mut out : List String := []", "let mut out : List Char := []")
        textd = textd.replace("(out : List String)", "(out : List Char)")
        textd = textd.replace("(List String)", "(List Char)")
        textd = re.sub(r"List String(?=[\s)])", "List Char", textd)
        return textd


# --------------------------------------------------------------------------------------------- driver
def read(rel):
    return text.strip_comments(open(os.path.join(REPO, rel)).read())


def text_translator():
    """run rust2lean_text's own generation to obtain its registry of translated functions."""
    made = []
    orig = text.Translator

    class Rec(orig):
        def __init__(self, base):
            orig.__init__(self, base)
            made.append(self)
    text.Translator = Rec
    try:
        text.generate()
    finally:
        text.Translator = orig
    return made[0]


def info_fields():
    """fields of search::info::Info from info.rs, with the types RustSearch.lean gives them."""
    conv = {"Position": "Pos", "i32": "Int", "u64": "Nat", "u128": "Nat", "Mv": "Mv"}
    out = []
    for f, t in search.parse_struct(imp.strip_comments(open(os.path.join(REPO, "src/search/info.rs")).read()), "Info", "info.rs"):
        def cv(t):
            if t[0] == "ty" and t[1] == "Option" and len(t[2]) == 1:
                return ("Opt", cv(t[2][0]))
            if t[0] == "ty" and t[1] == "Vec" and len(t[2]) == 1:
                return ("List", cv(t[2][0]))
            if t[0] == "ty" and t[1] in conv and not t[2]:
                return conv[t[1]]
            raise TranslateError("info.rs: field type not supported: " + repr(t))
        out.append((f, cv(t)))
    return out


HEADER = ["-- GENERATED by tools/rust2lean_session.py from /repo on every run. Do not edit.",
          "import Rawr.Generated.RustSessionPrelude",
          "set_option linter.unusedVariables false", "namespace Rawr.R", "open Rawr", ""]


def generate():
    T = Sess(text_translator(), info_fields())
    T.out += HEADER
    pos = read("src/chess/position.rs")
    T.function(read("src/chess/colour.rs"), "fmt", "colour.rs", "Colour::fmt", "colour_fmt", self_name="self_", selfrust="Colour")
    T.function(pos, "startpos", "position.rs", "Position::startpos", "startpos_", u64="BB")
    T.function(pos, "fmt", "position.rs", "Position::fmt", "position_fmt", u64="BB", selfrust="Position", cuts=(1, 6, 7, 8))
    go = read("src/uci/go.rs")
    T.function(go, "info_printer", "uci/go.rs", "info_printer", "info_printer")
    T.function(read("src/uci/perft.rs"), "perft", "uci/perft.rs", "perft::perft", "uci_perft", extras=("clock",))
    T.function(read("src/uci/split.rs"), "split", "uci/split.rs", "split::split", "uci_split", extras=("clock",))
    T.function(go, "go", "uci/go.rs", "go::go", "go", u64="BB", extras=("clock", "sfuel"))
    T.function(read("src/uci/listen.rs"), "listen", "uci/listen.rs", "listen::listen", "listen", u64="BB",
               extras=("clock", "sfuel", "version", "stdin"))
    T.out.append("end Rawr.R\n")
    return "\n".join(T.out)


def main():
    try:
        txt = generate()
    except TranslateError as ex:
        print("TRANSLATE-ERROR " + str(ex))
        sys.exit(3)
    except NeedMonad as ex:
        print("TRANSLATE-ERROR unexpected panicking expression: " + str(ex))
        sys.exit(3)
    except NotInline as ex:
        print("TRANSLATE-ERROR expression needs statements in a pure context: " + str(ex))
        sys.exit(3)
    try:
        if open(OUT).read() == txt:
            print("rust2lean_session: unchanged")
            return
    except FileNotFoundError:
        pass
    os.makedirs(os.path.dirname(OUT), exist_ok=True)
    open(OUT, "w").write(txt)
    print("rust2lean_session: RustSession.lean rewritten")


if __name__ == "__main__":
    main()
