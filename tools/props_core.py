"""Chess-core properties: C01 C02 C04 C06 C07 C08 C09 C10 C17 C18."""
import glob
import json
import os
import random
import re
import sys

import vlib
from vlib import Pos, fmt_mv, log, mv_key, parse_moves, run_driver, run_driver_par, run_hx, run_hx_par, sq_name

MASK64 = (1 << 64) - 1


# ------------------------------------------------------------------ inputs
def corpus_fens(limit, rnd):
    fens = set()
    pat = re.compile(r'"([rnbqkpRNBQKP1-8/]{15,} [wb] [-KQkqA-Ha-h]+ [-a-h1-8]+(?: \d+ \d+)?)"')
    for path in glob.glob(os.path.join(vlib.REPO, "tests", "*.rs")) + glob.glob(os.path.join(vlib.REPO, "src", "**", "*.rs"), recursive=True):
        try:
            src = open(path).read()
        except Exception:
            continue
        for m in pat.finditer(src):
            f = m.group(1)
            if len(f.split()) == 4:
                f += " 0 1"
            fens.add(f)
    fens = sorted(fens)
    rnd.shuffle(fens)
    return fens[:limit]


def gen_positions(res, games, plies, sparse, corpus, null=0, with_games=False):
    """positions from the Lean generators (model-side playouts from all start families, constructed
    sparse positions) and from the FEN literals of /repo's own tests (read through the model parser)."""
    seed = res.seed
    rnd = random.Random(seed)
    reqs = [f"ggames {seed} {games} {plies} {null} 0", f"ggames {seed + 1} {games} {plies} {null} 1",
            f"gsparse {seed + 2} {sparse} 0", f"gsparse {seed + 3} {max(1, sparse // 4)} 1",
            f"gsgames {seed + 4} {max(1, games // 2)} {plies} 0"]
    pat = max(40, sparse // 5)
    # constructive patterns: castling (all king/rook files, hazards on the paths, rook shielded on the back rank),
    # en passant (pins and discoveries on rank/diagonals/file, check by the pushed pawn), promotions next to castling rooks,
    # several simultaneous pins of queens/rooks/bishops/knights/pawns on the king's lines
    reqs += ["#", f"gpattern {seed + 5} 0 {pat} 1", f"gpattern {seed + 6} 0 {pat // 2} 0", f"gpattern {seed + 7} 1 {pat * 3} 0",
             f"gpattern {seed + 8} 2 {pat // 2} 1", f"gpattern {seed + 9} 3 {pat * 2} 0"]
    out = run_driver([q for q in reqs if q != "#"])
    fens = corpus_fens(corpus, rnd)
    fout = run_driver(["feninw " + f for f in fens])
    lines = [l for l in out if l and l != "bad-op"] + ["#"] + [l for l in fout if l not in ("PANIC", "bad-op")]
    if with_games:
        return lines
    seen = set()
    ps = []
    for l in lines:
        if l == "#" or l in seen:
            continue
        seen.add(l)
        ps.append(l)
    res.count("src_generated_lines", len(out))
    res.count("src_corpus_fens", len(fens))
    return ps


def feat_counts(res, feats):
    for f in feats:
        d = dict(kv.split("=") for kv in f.split())
        if int(d["chk"]) == 1:
            res.count("pos_single_check")
        if int(d["chk"]) >= 2:
            res.count("pos_double_check")
        if int(d["pin"]) > 0:
            res.count("pos_with_pin")
        if d["ep"] == "1":
            res.count("pos_with_ep_square")
        if int(d["epm"]) > 0:
            res.count("pos_with_legal_ep_capture")
        if int(d["cr"]) > 0:
            res.count("pos_with_castling_right")
        if int(d["castle"]) > 0:
            res.count("pos_with_legal_castling")
        if int(d["promo"]) > 0:
            res.count("pos_with_promotion")
        if int(d["n"]) == 0:
            res.count("pos_without_moves")


def nontrivial_feat(f):
    d = dict(kv.split("=") for kv in f.split())
    return int(d["chk"]) > 0 or int(d["pin"]) > 0 or d["ep"] == "1" or int(d["cr"]) > 0 or int(d["promo"]) > 0


def sizes(res, quick, thorough):
    if res.tier != "quick":
        return thorough
    k = getattr(res, "escalate", 1)
    if k == 1:
        return quick
    # more games / more constructed positions / more corpus, same playout length
    return tuple(min(t, q * k) if i != 1 else q for i, (q, t) in enumerate(zip(quick, thorough)))


def compare(res, what, reqs, impl, model, keep=lambda r: True):
    n = 0
    for r, a, b in zip(reqs, impl, model):
        if a != b and keep(r):
            n += 1
            if n <= 20:
                res.disagree(what, r, a[:600], b[:600])
    return n


def legal_by_pos(ps, build="release"):
    impl = run_hx_par(["moves " + p for p in ps], build)
    return [parse_moves(x) if x not in ("PANIC", "DIED") else None for x in impl], impl


# ------------------------------------------------------------------ C01
def run_C01(res):
    g, pl, sp, co = sizes(res, (30, 70, 3000, 500), (600, 120, 120000, 5000))
    ps = gen_positions(res, g, pl, sp, co)
    res.coverage["rule"] = ("positions from model-side playouts (standard, 960, double-960 starts; 6 move policies), constructed sparse "
                            "positions biased to king lines, and every FEN literal in /repo's tests; distinct by raw fields; non-trivial = "
                            "has a check, pin, en-passant square, castling right or promotion")
    gen_i = run_hx_par(["gen " + p for p in ps])
    gen_m = run_driver_par(["gen " + p for p in ps])
    mv_i = run_hx_par(["moves " + p for p in ps])
    spec = run_driver_par(["smoves " + p for p in ps])
    ind = run_driver_par(["sind " + p for p in ps])
    feats = run_driver_par(["feat " + p for p in ps])
    feat_counts(res, feats)
    for p, gi, gm, mi, sm, d, ft in zip(ps, gen_i, gen_m, mv_i, spec, ind, feats):
        inV, inE, inM = d.split()
        if inV != "1" or inE != "1":
            res.count("outside_V_and_E_skipped")
            continue
        nt = nontrivial_feat(ft)
        res.case(p, nt, {"position": p, "features": ft, "moves": gi[:200]} if nt and ("epm=1" in ft or "castle=1" in ft or "chk=2" in ft or "promo=4" in ft) else None)
        if sorted(gi.split()) != sorted(gm.split()):
            res.disagree("move_generator (as a set, with piece tags)", "gen " + p, gi, gm)
        impl_moves = parse_moves(gi) if gi not in ("PANIC", "DIED") else None
        if impl_moves is None:
            res.fail("generator panicked on a position of D", position=p, observed=gi)
            continue
        triples = [m[1:] for m in impl_moves]
        if parse_moves(mi) != triples:
            res.fail("legal_moves() differs from the move_generator callback sequence", position=p, observed=mi, expected=gi)
        want = parse_moves(sm)
        got = sorted(triples, key=mv_key)
        if len(set(triples)) != len(triples):
            res.fail("a move is generated twice", position=p, observed=gi)
        if got != want:
            extra = [fmt_mv(m) for m in got if m not in want]
            missing = [fmt_mv(m) for m in want if m not in got]
            res.fail("generated moves differ from the legal moves of the rules", position=p, illegal_generated=extra,
                     legal_missing=missing, expected=sm, observed=" ".join(fmt_mv(m) for m in got))
    if res.tier == "thorough":
        # EXHAUSTIVE family: K + one man v K, every placement, either side to move (all structurally valid ones)
        import concurrent.futures
        with concurrent.futures.ThreadPoolExecutor(16) as ex:
            blocks = list(ex.map(lambda wk: [l for l in run_driver([f"gsmall {wk}"]) if l and l != "bad-op"], range(64)))
        nsmall = 0
        for blk in blocks:
            gi = run_hx_par(["moves " + p for p in blk])
            sm = run_driver_par(["smoves " + p for p in blk])
            gm = run_driver_par(["moves " + p for p in blk])
            compare(res, "legal_moves (K+X v K, exhaustive)", ["moves " + p for p in blk], gi, gm)
            for p, a, b in zip(blk, gi, sm):
                nsmall += 1
                if sorted(parse_moves(a), key=mv_key) != parse_moves(b):
                    res.fail("generated moves differ from the legal moves of the rules", position=p, expected=b, observed=a, family="K+X v K exhaustive")
        res.evaluations += nsmall
        res.count("exhaustive_K_plus_one_man_v_K_positions", nsmall)
        res.notes.append("the K+X v K family is enumerated completely (exhaustive for that family); the other families are samples")
    res.assumptions.append("oracle: Rawr.Spec.legalMoves (coordinate rules); domain filter V∧E evaluated by the Lean spec")


# ------------------------------------------------------------------ C08
def run_C08(res):
    g, pl, sp, co = sizes(res, (20, 60, 2000, 300), (300, 120, 60000, 4000))
    ps = gen_positions(res, g, pl, sp, co)
    rnd = random.Random(res.seed)
    # capture-rich nodes (pawns on the seventh between pieces on the eighth: 20 … 40+ legal captures) — the lists where a fixed-size
    # capture buffer or an early cut of the capture generator shows (c19e); the family is C19's, used here for clause (b)
    from props_search import capture_rich_fens
    rich = [l for l in run_driver(["feninw " + f for f in capture_rich_fens(random.Random(res.seed + 8), 600 * res.escalate if res.tier == "quick" else 8000)])
            if l not in ("PANIC", "bad-op") and len(l.split()) > 10]
    ncap = [0 if c in ("PANIC", "DIED") or c.strip() == "-" else len(c.split()) for c in run_hx_par(["caps " + p for p in rich])]
    rich = [p for p, k in sorted(zip(rich, ncap), key=lambda x: -x[1])][: (150 if res.tier == "quick" else 2000)]
    res.coverage["capture_rich_positions"] = {"kept": len(rich), "with_33_plus_captures": sum(1 for k in ncap if k >= 33), "max_captures": max(ncap or [0])}
    ps = ps + [p for p in rich if p not in set(ps)]
    res.coverage["rule"] = ("same position sources as C01; per position: counter vs generator length, capture generator vs filter in order, "
                            "is_capture on every legal move vs the rules, attack queries on random squares/sets vs Spec.attackedBy, perft vs Spec.leaves on a subset")
    ind = run_driver_par(["sind " + p for p in ps])
    ps = [p for p, d in zip(ps, ind) if d.split()[0] == "1" and d.split()[1] == "1"]
    reqs = []
    for p in ps:
        reqs += ["count " + p, "caps " + p, "moves " + p, "check " + p]
    impl = run_hx_par(reqs)
    model = run_driver_par(reqs)
    compare(res, "count/caps/moves/check", reqs, impl, model)
    scaps = run_driver_par(["scaps " + p for p in ps])
    scheck = run_driver_par(["scheck " + p for p in ps])
    iscap_reqs = []
    for i, p in enumerate(ps):
        cnt, caps, moves, chk = impl[4 * i:4 * i + 4]
        res.case(p, True, {"position": p, "count": cnt, "captures": caps})
        ml = parse_moves(moves)
        if cnt != str(len(ml)):
            res.fail("count_moves differs from the number of generated moves", position=p, observed=cnt, expected=len(ml))
        if chk != scheck[i]:
            res.fail("in_check/in_check_them differ from the rules", position=p, observed=chk, expected=scheck[i])
        want = set(parse_moves(scaps[i]))
        cl = parse_moves(caps)
        if cl != [m for m in ml if m in want]:
            res.fail("legal_captures is not the capture sub-sequence of the generated moves", position=p, observed=caps,
                     expected=" ".join(fmt_mv(m) for m in ml if m in want))
        for m in ml:
            iscap_reqs.append((i, m, f"iscap {p} {m[0]} {m[1]} {m[2]}"))
    ic_i = run_hx_par([r[2] for r in iscap_reqs])
    ic_m = run_driver_par([r[2] for r in iscap_reqs])
    compare(res, "is_capture", [r[2] for r in iscap_reqs], ic_i, ic_m)
    wantsets = [set(parse_moves(s)) for s in scaps]
    for (i, m, r), a in zip(iscap_reqs, ic_i):
        res.evaluations += 1
        if (a == "1") != (m in wantsets[i]):
            res.fail("is_capture misclassifies a legal move", position=ps[i], move=fmt_mv(m), observed=a)
    res.count("is_capture_calls", len(iscap_reqs))
    # attack queries
    areqs, sreqs, meta = [], [], []
    for p in ps:
        for _ in range(3):
            s = rnd.randrange(64)
            t = rnd.randrange(2)
            areqs.append(f"att {p} {s} {t}")
            sreqs.append(f"satt {p} {s} {t}")
            meta.append(("sq", p, [s], t))
        bits = rnd.sample(range(64), rnd.choice([1, 2, 3, 5, 8]))
        mask = sum(1 << b for b in bits)
        t = rnd.randrange(2)
        areqs.append(f"attbb {p} {mask} {t}")
        meta.append(("bb", p, sorted(bits), t))
        areqs.append(f"getatt {p} {mask} {t}")
        meta.append(("get", p, sorted(bits), t))
    a_i = run_hx_par(areqs)
    a_m = run_driver_par(areqs)
    compare(res, "attack queries", areqs, a_i, a_m)
    need = sorted({(p, s, t) for k, p, bits, t in meta for s in bits})
    sat = dict(zip(need, run_driver_par([f"satt {p} {s} {t}" for p, s, t in need])))
    for (k, p, bits, t), a in zip(meta, a_i):
        res.evaluations += 1
        truth = [s for s in bits if sat[(p, s, t)] == "1"]
        if k == "sq":
            exp = "1" if truth else "0"
        elif k == "bb":
            exp = "1" if truth else "0"
        else:
            exp = str(sum(1 << s for s in truth))
        if a != exp:
            res.fail("attack query differs from the rules", query=k, position=p, squares=bits, side=("them" if t else "us"), observed=a, expected=exp)
    res.count("attack_queries", len(areqs))
    # perft
    depth = 3 if res.tier == "quick" else 4
    sub = [p for p in ps if rnd.random() < (0.03 if res.tier == "quick" else 0.02)][: (60 if res.tier == "quick" else 600)]
    preqs = [f"perft {p} {d}" for p in sub for d in range(0, depth + 1)]
    p_i = run_hx_par(preqs)
    p_m = run_driver_par(preqs)
    compare(res, "perft", preqs, p_i, p_m)
    sl = run_driver_par([f"sleaves {p} {d}" for p in sub for d in range(0, depth)], timeout=3600)
    k = 0
    for p in sub:
        for d in range(0, depth + 1):
            if d < depth:
                res.evaluations += 1
                if p_i[k] != sl[(k // (depth + 1)) * depth + d]:
                    res.fail("perft differs from the leaf count of the legal move tree", position=p, depth=d, observed=p_i[k],
                             expected=sl[(k // (depth + 1)) * depth + d])
            k += 1
    res.count("perft_positions", len(sub))


# ------------------------------------------------------------------ C02 / C04
def moves_requests(res, ps, frac_moves=1.0):
    legal, raw = legal_by_pos(ps)
    rnd = random.Random(res.seed + 7)
    items = []
    for p, ml in zip(ps, legal):
        if ml is None:
            continue
        for m in ml:
            if frac_moves >= 1.0 or rnd.random() < frac_moves:
                items.append((p, m))
    return items


def mask_half(s):
    t = s.split()
    t[-2] = "*"
    return " ".join(t)


def run_C02(res):
    g, pl, sp, co = sizes(res, (14, 60, 1200, 250), (250, 120, 40000, 4000))
    ps = gen_positions(res, g, pl, sp, co, null=4)
    res.coverage["rule"] = ("every legal move of every generated position (same sources as C01, playouts with interleaved null moves): successor vs "
                            "Spec.apply through the abstraction, validity (V,E,M) of the successor, null move; non-trivial = capture, castling, "
                            "en passant, promotion, double push or a move that loses a castling right")
    ind = run_driver_par(["sind " + p for p in ps])
    dom = {p: d.split() for p, d in zip(ps, ind)}
    ps = [p for p in ps if dom[p][0] == "1" and dom[p][1] == "1"]
    items = moves_requests(res, ps)
    reqs1 = [f"make {p} {m[0]} {m[1]} {m[2]} 1" for p, m in items]
    reqs0 = [f"make {p} {m[0]} {m[1]} {m[2]} 0" for p, m in items]
    i1 = run_hx_par(reqs1)
    m1 = run_driver_par(reqs1)
    i0 = run_hx_par(reqs0)
    compare(res, "after_move::<true>", reqs1, i1, m1)
    ichk = run_hx_par(reqs1, "checked")
    spec = run_driver_par([f"sapply {p} {m[0]} {m[1]} {m[2]}" for p, m in items])
    okidx = [k for k, x in enumerate(i1) if x not in ("PANIC", "DIED")]
    sabs = dict(zip(okidx, run_driver_par(["sabs " + i1[k] for k in okidx])))
    sind = dict(zip(okidx, run_driver_par(["sind " + i1[k] for k in okidx])))
    for k, (p, m) in enumerate(items):
        P = Pos(p)
        special = (P.c1 >> m[1]) & 1 or (P.c0 >> m[1]) & 1 or m[2] != 6 or ((P.piece(0) >> m[0]) & 1 and (abs(m[1] - m[0]) == 16 or P.ep == m[1])) \
            or P.t[12:16] != ["0", "0", "0", "0"]
        res.case(f"{p}|{m}", bool(special), {"position": p, "move": fmt_mv(m), "successor": i1[k][:200]})
        if (P.c1 >> m[1]) & 1:
            res.count("moves_capture")
        if (P.c0 >> m[1]) & 1:
            res.count("moves_castling")
        if m[2] != 6:
            res.count("moves_promotion")
        if (P.piece(0) >> m[0]) & 1 and P.ep == m[1]:
            res.count("moves_en_passant")
        if i1[k] in ("PANIC", "DIED"):
            res.fail("makemove panicked on a legal move", position=p, move=fmt_mv(m), observed=i1[k])
            continue
        if ichk[k] != i1[k]:
            res.fail("checked build (debug assertions: validate / hash) disagrees with the optimised build on a legal move", position=p,
                     move=fmt_mv(m), observed=ichk[k][:300], expected=i1[k][:300])
        a0, a1 = i0[k].split(), i1[k].split()
        if len(a0) == 22 and (a0[:20] + a0[21:]) != (a1[:20] + a1[21:]):
            res.fail("after_move::<false> differs from after_move::<true> beyond the key", position=p, move=fmt_mv(m))
        if sabs[k] != spec[k]:
            so, se = sabs[k].split(), spec[k].split()
            fields = ["placement", "turn", "rights", "ep", "halfmove", "fullmove"]
            diff = [f for f, x, y in zip(fields, so, se) if x != y]
            res.fail("successor differs from the rules", position=p, move=fmt_mv(m), fields=diff, observed=sabs[k], expected=spec[k])
        v = sind[k].split()
        if v[0] != "1" or v[1] != "1" or (dom[p][2] == "1" and v[2] != "1"):
            res.fail("successor is not a valid position (V,E,M)", position=p, move=fmt_mv(m), observed=i1[k], flags=sind[k])
    # null move
    chk = run_hx_par(["check " + p for p in ps])
    nps = [p for p, c in zip(ps, chk) if c.split()[0] == "0"]
    nreq = ["null " + p for p in nps]
    ni = run_hx_par(nreq)
    nm = run_driver_par(nreq)
    nc = run_hx_par(nreq, "checked")
    compare(res, "after_null", nreq, ni, nm)
    sn = run_driver_par(["snull " + p for p in nps])
    okn = [k for k, x in enumerate(ni) if x not in ("PANIC", "DIED")]
    sa = dict(zip(okn, run_driver_par(["sabs " + ni[k] for k in okn])))
    sv = dict(zip(okn, run_driver_par(["sind " + ni[k] for k in okn])))
    for k, p in enumerate(nps):
        res.case("null|" + p, Pos(p).ep is not None)
        if ni[k] in ("PANIC", "DIED") or nc[k] != ni[k]:
            res.fail("null move panicked / tripped a debug assertion", position=p, observed=(ni[k], nc[k][:100]))
            continue
        if mask_half(sa[k]) != mask_half(sn[k]):
            res.fail("null move does more than pass the turn and clear the en-passant target", position=p, observed=sa[k], expected=sn[k])
        if sv[k].split()[0] != "1":
            res.fail("position after a null move is not structurally valid", position=p, observed=ni[k])
    res.count("null_moves", len(nps))


def match_F1(f):
    return f.get("what") == "successor differs from the rules" and f.get("fields") == ["fullmove"]


def special_key_positions(res, both=False):
    """positions one quiet move away from a position whose key is a special value (0 = what an empty table slot holds, 1, 2^64-1),
    constructed for the CURRENT key table by linear algebra over GF(2) (tools/key_target.py); `both`: also the special positions"""
    import subprocess
    out = []
    # ONE construction per special value: two different constructed positions with the same special key would be a collision made on
    # purpose (any 64-bit key collides somewhere), not something met by exploration
    for seed in (res.seed % 1000,):
        try:
            p = subprocess.run([sys.executable, os.path.join(vlib.VERIF, "tools", "key_target.py"), "--target", "0", "--target", "1",
                                "--target", str(2 ** 64 - 1), "--seconds", "8", "--seed", str(seed), "--no-cache"],
                               capture_output=True, text=True, timeout=120, env=vlib.ENV)
            for l in p.stdout.splitlines():
                out.append(json.loads(l))
        except Exception:
            pass
    fens = [r["fen_before"] for r in out] + ([r["fen_after"] for r in out] if both else [])
    ps = [l for l in run_driver(["feninw " + f for f in fens]) if l not in ("PANIC", "bad-op")]
    res.count("special_key_positions", len(ps))
    return ps


def run_C04(res):
    g, pl, sp, co = sizes(res, (14, 60, 1200, 250), (250, 120, 40000, 4000))
    ps = gen_positions(res, g, pl, sp, co, null=4)
    res.coverage["rule"] = ("every legal move of every generated position: stored key = recomputed key, predicted key = key after the move; null moves; "
                            "interning of (placement, turn, rights, ep file) -> key over everything met (functional and injective)")
    ps = special_key_positions(res) + ps
    ind = run_driver_par(["sind " + p for p in ps])
    ps = [p for p, d in zip(ps, ind) if d.split()[0] == "1" and d.split()[1] == "1"]
    items = moves_requests(res, ps)
    rk = [f"pkey {p} {m[0]} {m[1]} {m[2]}" for p, m in items]
    rm = [f"make {p} {m[0]} {m[1]} {m[2]} 1" for p, m in items]
    ki, km = run_hx_par(rk), run_driver_par(rk)
    mi = run_hx_par(rm)
    compare(res, "predict_hash", rk, ki, km)
    succ = [x for x in mi if x not in ("PANIC", "DIED")]
    chk = run_hx_par(["check " + p for p in ps])
    nulls = run_hx_par(["null " + p for p, c in zip(ps, chk) if c.split()[0] == "0"])
    allpos = list(dict.fromkeys(ps + succ + [n for n in nulls if n not in ("PANIC", "DIED")]))
    kreq = ["key " + p for p in allpos]
    kk_i, kk_m = run_hx_par(kreq), run_driver_par(kreq)
    compare(res, "hash / calculate_hash", kreq, kk_i, kk_m)
    keyof = {}
    for p, k in zip(allpos, kk_i):
        res.case("key|" + p, True)
        a, b = k.split()
        keyof[p] = b
        if a != b:
            res.fail("stored key differs from the key recomputed from scratch", position=p, stored=a, recomputed=b)
    for (p, m), pk, s in zip(items, ki, mi):
        res.case(f"pk|{p}|{m}", True, {"position": p, "move": fmt_mv(m), "predicted": pk})
        if s in ("PANIC", "DIED"):
            continue
        if pk != keyof.get(s):
            res.fail("predicted key differs from the key of the position after the move", position=p, move=fmt_mv(m), predicted=pk, actual=keyof.get(s))
    # interning
    sabs = run_driver_par(["sabs " + p for p in allpos])
    table, rev = {}, {}
    for p, a in zip(allpos, sabs):
        t = a.split()
        feat = " ".join([t[0], t[1], "".join("x" if c != "-" else "-" for c in t[2]), ("-" if t[3] == "-" else str(int(t[3]) % 8))])
        k = keyof[p]
        if feat in table and table[feat][0] != k:
            res.fail("same placement/turn/rights/ep-file but different keys", a=table[feat][1], b=p)
        table.setdefault(feat, (k, p))
        if k in rev and rev[k][0] != feat:
            res.fail("two positions differing in placement/turn/rights/ep-file share a key", a=rev[k][1], b=p, key=k)
        rev.setdefault(k, (feat, p))
    res.count("distinct_feature_classes_interned", len(table))
    res.count("positions_keyed", len(allpos))
    res.notes.append("'different keys in everything explored' is an exploration by its wording; counts above")
    key_relations_C04(res)


def realise_relation(labels):
    """two FENs whose key components differ exactly by the given relation (piece-square keys in same-kind pairs = one piece on either
    of two squares, or single = a piece present / absent; castling rights, an en-passant file), or None when the pattern is not covered"""
    pcs, eps, cas = [], [], []
    for l in labels:
        if l == "turn":
            return None
        if l.startswith("ep:"):
            eps.append("abcdefgh".index(l[3]))
        elif l.startswith("castle:"):
            cas.append(l[7])
        else:
            pcs.append((l[0], l[1], "abcdefgh".index(l[3]) + 8 * (int(l[4]) - 1)))
    if len(eps) > 1:
        return None
    A, B = {}, {}                     # square -> piece letter for the two positions (differences only)
    kinds = {}
    for c, k, sq in pcs:
        kinds.setdefault((c, k), []).append(sq)
    for (c, k), sqs in kinds.items():
        letter = k if c == "w" else k.lower()
        if len(sqs) == 2:
            A[sqs[0]], B[sqs[1]] = letter, letter
        elif len(sqs) == 1 and k != "K":
            A[sqs[0]] = letter
        else:
            return None
    out = []
    for swap in (False, True):
        X, Y = (B, A) if swap else (A, B)
        for wk in (4, 6, 2, 60, 12, 52, 20, 44, 31, 24):
            for bk in (60, 62, 58, 4, 52, 12, 39, 32):
                base = {}
                if not any(v == "K" for v in list(X.values()) + list(Y.values())):
                    base[wk] = "K"
                if not any(v == "k" for v in list(X.values()) + list(Y.values())):
                    base[bk] = "k"
                for r in cas:
                    base[{"K": 7, "Q": 0, "k": 63, "q": 56}[r]] = "R" if r in "KQ" else "r"
                    if r in "KQ" and "K" not in list(X.values()) + list(Y.values()):
                        base.pop(wk, None)
                        base[4] = "K"
                    if r in "kq" and "k" not in list(X.values()) + list(Y.values()):
                        base.pop(bk, None)
                        base[60] = "k"
                epf = eps[0] if eps else None
                if epf is not None:
                    base[24 + epf] = "P"          # white pawn that has just made a double step; Black to move
                    if epf > 0:
                        base.setdefault(24 + epf - 1, "p")
                fens = []
                for D, rights, ep in ((X, cas, epf), (Y, [], None)):
                    b = dict(base)
                    clash = any(sq in b for sq in D)
                    b.update(D)
                    if clash or list(b.values()).count("K") != 1 or list(b.values()).count("k") != 1:
                        fens = None
                        break
                    rows = []
                    for r in range(7, -1, -1):
                        row, e = "", 0
                        for f in range(8):
                            x = b.get(8 * r + f)
                            if x is None:
                                e += 1
                            else:
                                row += (str(e) if e else "") + x
                                e = 0
                        rows.append(row + (str(e) if e else ""))
                    rs = "".join(c for c in "KQkq" if c in rights) or "-"
                    side = "b" if epf is not None else "w"
                    fens.append("/".join(rows) + f" {side} {rs} " + ("abcdefgh"[ep] + "3" if ep is not None else "-") + " 0 1")
                if fens:
                    out.append(tuple(fens))
    return out


def key_relations_C04(res):
    """the distinctness clause at the level of the key table: a short XOR relation among the keys = two positions differing in a handful of
    components with equal keys; found relations are turned into a concrete pair of positions on the real code where the pattern allows"""
    import subprocess
    cmd = ["python3-vt", os.path.join(vlib.VERIF, "tools", "key_relations.py")] + (["--full"] if res.tier == "thorough" else [])
    try:
        p = subprocess.run(cmd, capture_output=True, text=True, timeout=900, env=vlib.ENV)
        out = json.loads(p.stdout.strip().splitlines()[-1])
    except Exception as e:       # tooling interpreter missing: not an alarm, say so
        res.notes.append("key-relation search not run (python3-vt / numpy unavailable): " + str(e)[:100])
        return
    if "error" in out:
        res.broken.append("translator: " + out["error"])
        return
    res.coverage["key_table_relations_searched"] = out["searched"]
    res.count("key_table_short_relations_found", len(out["relations"]))
    for rel in out["relations"]:
        pairs = realise_relation(rel) or []
        done = False
        for fa, fb in pairs[:200]:
            ra, rb = run_hx(["fenin " + fa, "fenin " + fb])
            if ra in ("PANIC", "DIED") or rb in ("PANIC", "DIED"):
                continue
            if not all(d.split()[0] == "1" for d in run_driver(["sind " + ra, "sind " + rb])):
                continue
            if Pos(ra).hash == Pos(rb).hash and fa.split()[:4] != fb.split()[:4]:
                res.fail("two positions differing in placement / castling rights / en-passant file share a key", a=fa, b=fb, key=Pos(ra).hash, relation=rel)
                done = True
                break
        if not done:
            res.broken.append("the Zobrist key table has a short XOR relation (positions differing exactly in these components collide): " + " ^ ".join(rel))


# ------------------------------------------------------------------ C09
def uci_oracle(P, m):
    blk = P.black
    src = m[0] ^ 56 if blk else m[0]
    dst = m[1]
    if (P.c0 >> m[1]) & 1 and not P.frc:
        dst = 6 if (m[1] % 8) > (m[0] % 8) else 2
    dst = dst ^ 56 if blk else dst
    return sq_name(src) + sq_name(dst) + {1: "n", 2: "b", 3: "r", 4: "q"}.get(m[2], "")


def standard_geometry(P):
    ksq = (int(P.t[7]) & P.c0).bit_length() - 1
    ok = True
    if P.t[12] == "1":
        ok &= ksq == 4 and P.t[16] == "7"
    if P.t[13] == "1":
        ok &= ksq == 4 and P.t[17] == "0"
    return ok


def run_C09(res):
    g, pl, sp, co = sizes(res, (14, 60, 1200, 250), (250, 120, 40000, 4000))
    ps0 = gen_positions(res, g, pl, sp, co)
    res.coverage["rule"] = ("every legal move of every generated position, with UCI_Chess960 on and off: printed string vs coordinates, "
                            "pairwise distinctness, and the token fed back to uci::moves selects the same move; non-trivial = promotion, castling or Black to move")
    ind = run_driver_par(["sind " + p for p in ps0])
    ps0 = [p for p, d in zip(ps0, ind) if d.split()[0] == "1" and d.split()[1] == "1"]
    ps = []
    for p in ps0:
        P = Pos(p)
        ps.append(str(P.with_(frc=1)))
        if standard_geometry(P):
            ps.append(str(P.with_(frc=0)))
    ps = list(dict.fromkeys(ps))
    items = moves_requests(res, ps)
    ru = [f"uci {p} {m[0]} {m[1]} {m[2]}" for p, m in items]
    ui, um = run_hx_par(ru), run_driver_par(ru)
    compare(res, "Mv::to_uci", ru, ui, um)
    bypos = {}
    for (p, m), s in zip(items, ui):
        P = Pos(p)
        res.case(f"{p}|{m}", m[2] != 6 or bool((P.c0 >> m[1]) & 1) or P.black, {"position": p, "move": fmt_mv(m), "string": s})
        if (P.c0 >> m[1]) & 1:
            res.count("castling_moves_printed")
        exp = uci_oracle(P, m)
        if s != exp:
            res.fail("printed move string is not origin+destination(+promotion) in absolute coordinates", position=p, move=fmt_mv(m), observed=s, expected=exp)
        bypos.setdefault(p, {}).setdefault(s, []).append(m)
    for p, d in bypos.items():
        for s, ms in d.items():
            if len(ms) > 1:
                res.fail("two distinct legal moves print the same string", position=p, string=s, moves=[fmt_mv(m) for m in ms])
    ra = [f"apply {p} {s}" for (p, m), s in zip(items, ui)]
    rm = [f"make {p} {m[0]} {m[1]} {m[2]} 1" for p, m in items]
    ai, am = run_hx_par(ra), run_driver_par(ra)
    compare(res, "uci::moves on a printed token", ra, ai, am)
    mk = run_hx_par(rm)
    for (p, m), a, b in zip(items, ai, mk):
        res.evaluations += 1
        if a.split()[:22] != b.split()[:22] or not a.endswith("u=0 h=1"):
            res.fail("feeding the printed string back to the move parser does not select the same move", position=p, move=fmt_mv(m), observed=a[-40:])
    session_scripts_C09(res)


def session_scripts_C09(res):
    """process level: the notation of castling in `go split 1` must follow the UCI_Chess960 option of the SESSION whatever sequence of
    ucinewgame / position / stand-alone moves commands led to the position"""
    import itertools
    from props_uci import process_compare
    vlib.cargo_build_bins()
    line = "g1f3 g8f6 e2e4 e7e5 f1e2 f8e7"
    scripts, expect = [], []
    for frc, prelude, how, black in itertools.product((True, False), ([], ["ucinewgame"], ["position startpos", "ucinewgame"], ["ucinewgame", "ucinewgame"]),
                                                      ("position", "moves", "fen"), (False, True)):
        wc = "e1h1" if frc else "e1g1"
        ml = line + (" " + wc if black else "")
        sc = ["setoption name UCI_Chess960 value " + ("true" if frc else "false"), "isready"] + prelude
        if how == "position":
            sc.append("position startpos moves " + ml)
        elif how == "moves":
            sc.append("moves " + ml)
        else:
            sc.append("position fen rnbqk2r/ppppbppp/5n2/4p3/4P3/5N2/PPPPBPPP/RNBQK2R w KQkq - 4 4" + (" moves " + wc if black else ""))
        sc += ["go split 1", "quit"]
        scripts.append(sc)
        expect.append((("e8h8" if frc else "e8g8") if black else wc, ("e8g8" if frc else "e8h8") if black else ("e1g1" if frc else "e1h1")))
    for sc, (want, unwanted) in zip(scripts, expect):
        for b in ("release", "checked"):
            rc, out, err, to, secs = vlib.run_engine(sc, b, timeout=30)
            res.evaluations += 1
            res.count("session_scripts")
            if to or rc != 0:
                res.fail("engine crashed or hung on a notation session", script=sc, build=b)
                continue
            printed = [l.split()[0] for l in out.split("\n") if re.fullmatch(r"[a-h][1-8][a-h][1-8][nbrq]? \d+", l.strip())]
            if want not in printed or unwanted in printed:
                res.fail("castling is not printed in the notation selected by UCI_Chess960 for this session", script=sc, build=b,
                         expected=want, printed=printed)
    process_compare(res, scripts[:: (6 if res.tier == "quick" else 1)], "UCI transcript of a notation session")


# ------------------------------------------------------------------ C10
DIAG = [(1, 1), (1, -1), (-1, 1), (-1, -1)]
ORTH = [(1, 0), (-1, 0), (0, 1), (0, -1)]


def walk(sq, occ, dirs):
    r = 0
    for df, dr in dirs:
        f, k = sq % 8 + df, sq // 8 + dr
        while 0 <= f < 8 and 0 <= k < 8:
            s = f + 8 * k
            r |= 1 << s
            if (occ >> s) & 1:
                break
            f, k = f + df, k + dr
    return r


def line_squares(sq, dirs):
    return walk(sq, 0, dirs)


def subsets(mask):
    s = 0
    while True:
        yield s
        s = (s - mask) & mask
        if s == 0:
            break


def leap(sq, offs):
    r = 0
    for df, dr in offs:
        f, k = sq % 8 + df, sq // 8 + dr
        if 0 <= f < 8 and 0 <= k < 8:
            r |= 1 << (f + 8 * k)
    return r


KN = [(1, 2), (2, 1), (-1, 2), (-2, 1), (1, -2), (2, -1), (-1, -2), (-2, -1)]
KG = [(1, 0), (-1, 0), (0, 1), (0, -1), (1, 1), (1, -1), (-1, 1), (-1, -1)]


def run_C10(res):
    rnd = random.Random(res.seed)
    res.coverage["rule"] = ("exhaustive: every square x every subset of the inner squares of the piece's lines (the relevant-occupancy space), "
                            "plus subsets extended by random edge/off-line bits and random full occupancies; all 64 squares for each leaper; "
                            "rays/knights/pawns/adjacent on random boards; oracle = coordinate ray walk in Python and in the Lean model")
    reqs, exp = [], []

    def inner(sq, dirs):
        m = 0
        for df, dr in dirs:
            f, k = sq % 8 + df, sq // 8 + dr
            while 0 <= f + df < 8 and 0 <= k + dr < 8:
                m |= 1 << (f + 8 * k)
                f, k = f + df, k + dr
        return m
    for sq in range(64):
        for kind, dirs in (("b", DIAG), ("r", ORTH)):
            for s in subsets(inner(sq, dirs)):
                reqs.append(f"slide {kind} {sq} {s}")
                exp.append(walk(sq, s, dirs))
    n_exh = len(reqs)
    extra = 20000 if res.tier == "quick" else 400000
    for _ in range(extra):
        sq = rnd.randrange(64)
        occ = rnd.getrandbits(64) & rnd.getrandbits(64) if rnd.random() < 0.7 else rnd.getrandbits(64)
        kind = rnd.choice("brq")
        reqs.append(f"slide {kind} {sq} {occ}")
        exp.append(walk(sq, occ, DIAG if kind == "b" else ORTH if kind == "r" else DIAG + ORTH))
    for sq in range(64):
        reqs.append(f"leap n {sq}")
        exp.append(leap(sq, KN))
        reqs.append(f"leap k {sq}")
        exp.append(leap(sq, KG))
        reqs.append(f"kn {1 << sq}")
        exp.append(leap(sq, KN))
        reqs.append(f"adj {1 << sq}")
        exp.append(leap(sq, KG))
        reqs.append(f"pw 1 {1 << sq}")
        exp.append(leap(sq, [(1, 1), (-1, 1)]))
        reqs.append(f"pw 0 {1 << sq}")
        exp.append(leap(sq, [(1, -1), (-1, -1)]))
    for _ in range(3000):
        bb = rnd.getrandbits(64) & rnd.getrandbits(64) & rnd.getrandbits(64)
        bits = [s for s in range(64) if (bb >> s) & 1]
        for cmd, offs in (("kn", KN), ("adj", KG), ("pw 1", [(1, 1), (-1, 1)]), ("pw 0", [(1, -1), (-1, -1)])):
            reqs.append(f"{cmd} {bb}")
            e = 0
            for s in bits:
                e |= leap(s, offs)
            exp.append(e)
        sq = rnd.randrange(64)
        occ = rnd.getrandbits(64) & rnd.getrandbits(64)
        for d, v in (("n", (0, 1)), ("s", (0, -1)), ("e", (1, 0)), ("w", (-1, 0)), ("ne", (1, 1)), ("nw", (-1, 1)), ("se", (1, -1)), ("sw", (-1, -1))):
            reqs.append(f"ray {d} {sq} {occ}")
            exp.append(walk(sq, occ, [v]))
    impl = run_hx_par(reqs)
    model = run_driver_par(reqs)
    compare(res, "slider / leaper look-ups", reqs, impl, model)
    for r, a, e in zip(reqs, impl, exp):
        if a != str(e):
            res.fail("attack set differs from the ray walk / board geometry", request=r, observed=a, expected=str(e))
    res.evaluations = len(reqs)
    res.distinct = set(range(len(set(reqs))))
    res.exhaustive = True
    res.samples = [{"request": reqs[i], "reply": impl[i]} for i in (0, 5000, n_exh - 1, n_exh + 5)]
    res.count("relevant_occupancy_cases_exhaustive", n_exh)
    res.count("random_full_occupancies", extra)


# ------------------------------------------------------------------ C17
def run_C17(res):
    g, pl, sp, co = sizes(res, (25, 70, 3000, 500), (400, 120, 100000, 5000))
    ps = gen_positions(res, g, pl, sp, co)
    rnd = random.Random(res.seed)
    res.coverage["rule"] = ("eval on every generated position, on its turn-passed twin (Position::from_flipped), on its colour-swapped mirror image and on "
                            "field-perturbed copies (counters, rights, castle files, ep, key, frc); bound |eval| < MATE_SCORE - MAX_DEPTH")
    flips = run_hx_par(["flip " + p for p in ps])
    fm = run_driver_par(["flip " + p for p in ps])
    compare(res, "Position::flip", ["flip " + p for p in ps], flips, fm)
    variants = []
    for p, f in zip(ps, flips):
        P = Pos(p)
        mirror = str(P.with_(black=0 if P.black else 1))   # same mover-relative boards, other colour to move = colour-swapped mirror
        pert = str(P.with_(halfmoves=rnd.randrange(0, 100), fullmoves=rnd.randrange(1, 300), usK=rnd.randrange(2), usQ=rnd.randrange(2),
                           themK=rnd.randrange(2), themQ=rnd.randrange(2), cf0=rnd.randrange(8), cf1=rnd.randrange(8), cf2=rnd.randrange(8),
                           cf3=rnd.randrange(8), hash=rnd.getrandbits(64), frc=rnd.randrange(2), ep=rnd.choice(["-", 40 + rnd.randrange(8)])))
        variants.append((p, f, mirror, pert))
    # saturated material: one side a bare king to move (it may stand in check), the other side's king in the far corner with up to 62
    # heavy pieces — the positions where |eval| is largest among everything set_fen accepts (no generator of legal play reaches them).
    # "the range reserved for mate scores" is read off the CURRENT source (MATE_SCORE, MAX_DEPTH as extract.py regenerated them).
    heavy_fens = []
    for n in (9, 18, 30, 42, 55, 62):
        for letters in ("Q", "QR", "QRBN"):
            for white_heavy in (True, False):
                free = [sq for sq in range(64) if sq not in (0, 63)]
                rnd.shuffle(free)
                board = {0: "K" if white_heavy else "k", 63: "k" if white_heavy else "K"}
                for sq in free[:n]:
                    c = rnd.choice(letters)
                    board[sq] = c if white_heavy else c.lower()
                rows = []
                for r in range(7, -1, -1):
                    row, gap = "", 0
                    for fl in range(8):
                        ch = board.get(r * 8 + fl)
                        if ch is None:
                            gap += 1
                        else:
                            row += (str(gap) if gap else "") + ch
                            gap = 0
                    rows.append(row + (str(gap) if gap else ""))
                heavy_fens.append("/".join(rows) + (" b" if white_heavy else " w") + " - - 0 1")
    heavy = [r for r in run_hx(["fenin " + f for f in heavy_fens]) if len(r.split()) > 10]
    res.coverage["saturated_material_positions"] = len(heavy)
    for p in heavy:
        P = Pos(p)
        variants.append((p, run_hx(["flip " + p])[0], str(P.with_(black=0 if P.black else 1)), p))
    reqs = ["eval " + x for v in variants for x in v]
    ei, em = run_hx_par(reqs), run_driver_par(reqs)
    compare(res, "eval", reqs, ei, em)
    ec = run_hx_par(reqs, "checked")
    sc = open(os.path.join(vlib.VERIF, "lean", "Rawr", "Generated", "SearchConsts.lean")).read()
    mate = int(re.search(r"def MATE_SCORE : Int := (-?\d+)", sc).group(1))
    maxd = int(re.search(r"def MAX_DEPTH : Int := (-?\d+)", sc).group(1))
    bound = mate - maxd
    res.coverage["mate_band"] = {"MATE_SCORE": mate, "MAX_DEPTH": maxd, "largest_abs_eval_seen": None}
    for k, (p, f, mi, pe) in enumerate(variants):
        a, b, c, d = ei[4 * k:4 * k + 4]
        res.case(p, True, {"position": p, "eval": a, "eval_flipped": b})
        if "PANIC" in (a, b, c, d) or "DIED" in (a, b, c, d) or ec[4 * k] != a:
            res.fail("eval panicked / tripped its debug assertion", position=p, observed=(a, ec[4 * k]))
            continue
        if int(b) != -int(a):
            res.fail("eval of the turn-passed position is not the negation", position=p, observed=(a, b))
        if c != a:
            res.fail("eval changes under colour swap + vertical mirror", position=p, observed=(a, c))
        if d != a:
            res.fail("eval depends on counters / rights / ep / key / flags", position=p, perturbed=pe, observed=(a, d))
        if not (-bound < int(a) < bound):
            res.fail("eval outside the range reserved below mate scores", position=p, observed=a, mate_score=mate, max_depth=maxd)
        res.coverage["mate_band"]["largest_abs_eval_seen"] = max(res.coverage["mate_band"]["largest_abs_eval_seen"] or 0, abs(int(a)))


# ------------------------------------------------------------------ C18
def run_C18(res):
    rnd = random.Random(res.seed)
    nseq = 60 if res.tier == "quick" else 1500
    res.coverage["rule"] = ("random operation sequences (add/poll/clear/resize/hashfull/len) on Hashtable<u64> and Hashtable<TTEntry>, sizes 0..3 MB, "
                            "keys aliasing modulo the slot count; oracle = slot map in Python; non-trivial = sequence contains an aliasing overwrite or a resize")
    reqs, plans = [], []
    esz_tte = int(run_hx(["ttsize"])[0])
    for i in range(nseq):
        typ = "u64" if i % 2 == 0 else "tte"
        esz = 8 if typ == "u64" else esz_tte
        mb = rnd.choice([0, 1, 1, 1, 2, 3])
        n = mb * 1024 * 1024 // esz
        ops = []
        keys = [rnd.getrandbits(64) for _ in range(6)] + [rnd.randrange(2000) for _ in range(6)]

        def pick_key():
            # a third of the keys land in the LAST few thousand slots of the current table (block-wise clear / resize slips live there)
            if n > 0 and rnd.random() < 0.35:
                return n - 1 - rnd.choice([0, 1, 2, rnd.randrange(0, min(n, 5000))]) + n * rnd.choice([0, 0, 1, 7])
            return (rnd.choice(keys) + rnd.choice([0, 0, 131072, 43690, 87381, 349525, 393216, 262144])) % (1 << 64)
        recent = []
        for _ in range(rnd.randrange(5, 60)):
            c = rnd.random()
            if c < 0.4:
                k = pick_key()
                recent.append(k)
                ops.append(f"a:{k}:{rnd.randrange(1, 1 << 40)}")
            elif c < 0.47:
                # motif: look a key up, change the size (or clear), store under the SAME key, look it up again — anything remembered
                # across operations about "the last key" has to survive the size change
                k = pick_key()
                recent.append(k)
                ops.append(f"p:{k}")
                if rnd.random() < 0.8:
                    m = rnd.choice([0, 1, 2, 3])
                    n = m * 1024 * 1024 // esz
                    ops.append(f"r:{m}")
                else:
                    ops.append("c")
                ops.append(f"a:{k}:{rnd.randrange(1, 1 << 40)}")
                ops.append(f"p:{k}")
            elif c < 0.8:
                k = rnd.choice(recent) if recent and rnd.random() < 0.6 else pick_key()
                ops.append(f"p:{k}")
            elif c < 0.86:
                ops.append("c")
            elif c < 0.92:
                m = rnd.choice([0, 1, 2, 3])
                n = m * 1024 * 1024 // esz
                ops.append(f"r:{m}")
            elif c < 0.97:
                ops.append("h")
            else:
                ops.append("l")
        reqs.append(f"tt {typ} {mb} " + " ".join(ops))
        plans.append((typ, mb, ops))
    if res.tier == "thorough":
        # the largest sizes the Hash option admits (4096 MB is the clamp): length only, one at a time (4 GB each)
        for typ in ("u64", "tte"):
            for mb in (4096, 4095, 2048):
                esz = 8 if typ == "u64" else esz_tte
                big = f"tt {typ} {mb} l p:{(mb * 1024 * 1024 // esz) - 1} a:{(mb * 1024 * 1024 // esz) - 1}:77 p:{(mb * 1024 * 1024 // esz) - 1}"
                out = run_hx([big])[0]
                mo = run_driver([big])[0]
                res.evaluations += 1
                res.count("huge_table_requests")
                if out != mo:
                    res.disagree("Hashtable at the largest sizes", big, out[:120], mo[:120])
                if not out.startswith(f"l{mb * 1024 * 1024 // esz} "):
                    res.fail("a table created with the largest admitted size does not have megabytes*2^20/entry-size slots", request=big, observed=out[:80],
                             expected_slots=mb * 1024 * 1024 // esz)
    impl = run_hx_par(reqs)
    model = run_driver_par(reqs)
    compare(res, "Hashtable operation sequences", reqs, impl, model)
    esz_t = int(run_hx(["ttsize"])[0])
    for (typ, mb, ops), r, out in zip(plans, reqs, impl):
        esz = 8 if typ == "u64" else esz_t
        n = mb * 1024 * 1024 // esz
        slots = {}
        everstored = set()
        outs = out.split()
        nontriv = any(o.startswith("r:") for o in ops)
        ok = outs[0] == f"l{n}"
        why = None if ok else ("initial length", outs[0], f"l{n}")

        def val(v):
            if typ == "u64":
                return str(v)
            return f"{v},{v % 64},{(v // 64) % 64},{(v // 4096) % 7},{v % 2001 - 1000},{v % 17},{v % 3}"
        dflt = "0" if typ == "u64" else "0,0,0,0,0,0,0"
        for op, o in zip(ops, outs[1:]):
            f = op.split(":")
            e = None
            if f[0] == "a":
                if n == 0:
                    e = "ok"        # a store into a zero-slot table has nowhere to go; it must not abort
                else:
                    if int(f[1]) % n in slots:
                        nontriv = True
                    slots[int(f[1]) % n] = val(int(f[2]))
                    everstored.add(val(int(f[2])))
                    e = "ok"
            elif f[0] == "p":
                e = dflt if n == 0 else slots.get(int(f[1]) % n, dflt)
            elif f[0] == "c":
                slots = {}
                e = "ok"
            elif f[0] == "r":
                n = int(f[1]) * 1024 * 1024 // esz
                slots = {k: v for k, v in slots.items() if k < n}
                e = f"l{n}"
            elif f[0] == "h":
                e = "none" if n == 0 else str(sum(1 for k, v in slots.items() if k < min(n, 1000) and v != dflt))
            elif f[0] == "l":
                e = f"l{n}"
            if o != e and why is None:
                why = (op, o, e)
        res.case(r, nontriv, {"request": r[:200], "reply": out[:200]})
        if why is not None:
            res.fail("table does not behave as an always-replace slot map", request=r, op=why[0], observed=why[1], expected=why[2])


def match_F8(f):
    return f.get("what") == "table does not behave as an always-replace slot map" and f.get("observed") == "PANIC"


# ------------------------------------------------------------------ C06 / C07
def run_C06(res):
    g, pl, sp, co = sizes(res, (40, 80, 2000, 300), (500, 120, 50000, 3000))
    ps = gen_positions(res, g, pl, sp, co)
    res.coverage["rule"] = ("positions reached by playouts from standard/960/double-960 starts (inner-rook rights arise there) and constructed positions: "
                            "get_fen -> from_fen compared field by field through the abstraction (+ key, + rook file of every present right); canonical "
                            "X-FEN strings printed by the specification -> from_fen -> get_fen compared verbatim; non-trivial = some right or ep square present")
    ind = run_driver_par(["sind " + p for p in ps])
    ps = [p for p, d in zip(ps, ind) if d.split()[0] == "1"]
    fo_i, fo_m = run_hx_par(["fenout " + p for p in ps]), run_driver_par(["fenout " + p for p in ps])
    compare(res, "get_fen", ["fenout " + p for p in ps], fo_i, fo_m)
    back = run_hx_par(["fenin " + f for f in fo_i])
    back_m = run_driver_par(["feninw " + f for f in fo_i])
    compare(res, "from_fen(get_fen)", ["fenin " + f for f in fo_i], back, back_m)
    okk = [k for k, b in enumerate(back) if b not in ("PANIC", "DIED")]
    sa = run_driver_par(["sabs " + p for p in ps])
    sb = dict(zip(okk, run_driver_par(["sabs " + back[k] for k in okk])))
    xf = run_driver_par(["sfen " + p + " x" for p in ps])
    for k, p in enumerate(ps):
        P = Pos(p)
        nontriv = P.t[12:16] != ["0"] * 4 or P.ep is not None
        res.case(p, nontriv, {"position": p, "fen": fo_i[k]})
        if xf[k] != " ".join(fo_i[k].split()) and xf[k].split()[2] != fo_i[k].split()[2]:
            res.count("positions_with_inner_rook_right")
        if back[k] in ("PANIC", "DIED"):
            res.fail("the engine's own FEN output is rejected by its parser", position=p, fen=fo_i[k])
            continue
        if sb[k] != sa[k] or back[k].split()[20] != P.t[20]:
            so, se = sb[k].split(), sa[k].split()
            fields = ["placement", "turn", "rights", "ep", "halfmove", "fullmove"]
            res.fail("FEN output does not parse back to the same position", position=p, fen=fo_i[k], fields=[f for f, x, y in zip(fields, so, se) if x != y],
                     observed=sb[k], expected=sa[k])
    # canonical strings
    canon = [x for x in dict.fromkeys(xf)]
    r1 = run_hx_par(["fenin " + f for f in canon])
    ok2 = [k for k, b in enumerate(r1) if b not in ("PANIC", "DIED")]
    r2 = dict(zip(ok2, run_hx_par(["fenout " + r1[k] for k in ok2])))
    for k, f in enumerate(canon):
        res.evaluations += 1
        if k not in r2:
            res.fail("canonical FEN of a valid position rejected", fen=f)
        elif r2[k] != f:
            res.fail("canonical FEN does not print back verbatim", fen=f, observed=r2[k])
    res.count("canonical_strings", len(canon))


def match_F4(f):
    return f.get("what") in ("FEN output does not parse back to the same position", "canonical FEN does not print back verbatim") and \
        (f.get("fields") == ["rights"] or "fen" in f)


def board_cells(field):
    cells = []
    for ch in field:
        if ch == "/":
            continue
        if ch.isdigit():
            cells += [None] * int(ch)
        else:
            cells.append(ch)
    return cells


def cells_field(cells):
    out = []
    for r in range(0, len(cells), 8):
        run, row = 0, ""
        for c in cells[r:r + 8]:
            if c is None:
                run += 1
            else:
                row += (str(run) if run else "") + c
                run = 0
        out.append(row + (str(run) if run else ""))
    return "/".join(out)


def overlay_fen(parts, rnd):
    """a 320-square board: the real board, 192 empty squares (the u8 square index wraps at 256) and a 64-square overlay whose
    characters toggle bits of the real board again (optimised build only; the checked build traps)."""
    cells = board_cells(parts[0])
    if len(cells) != 64:
        return None
    occ = [i for i, c in enumerate(cells) if c is not None]
    over = [None] * 64
    for _ in range(rnd.choice([1, 1, 2, 3])):
        if occ and rnd.random() < 0.8:
            i = rnd.choice(occ)
            c = cells[i]
            kinds = "PNBRQK" if c.isupper() else "pnbrqk"
            over[i] = rnd.choice(kinds) if rnd.random() < 0.8 else rnd.choice("PNBRQKpnbrqk")
        else:
            over[rnd.randrange(64)] = rnd.choice("PNBRQKpnbrqk")
    return " ".join([parts[0] + "/" + "/".join(["8"] * 24) + "/" + cells_field(over)] + parts[1:])


def bogus_right_fen(parts, rnd):
    """a castling letter (file notation) naming a square of the king's home rank that holds an ENEMY rook, a non-rook, or nothing"""
    cells = board_cells(parts[0])
    if len(cells) != 64 or len(parts) < 6:
        return None
    sides = [c for c in "wb" if ("K" if c == "w" else "k") in cells[(56 if c == "w" else 0):(64 if c == "w" else 8)]]
    if not sides:
        return None
    y = rnd.choice(sides)
    base = 56 if y == "w" else 0
    free = [i for i in range(base, base + 8) if cells[i] is None]
    if not free:
        return None
    i = rnd.choice(free)
    what = rnd.random()
    if what < 0.6:
        cells[i] = "r" if y == "w" else "R"          # enemy rook on the named square
    elif what < 0.8:
        cells[i] = rnd.choice("NBQ") if y == "w" else rnd.choice("nbq")   # own non-rook
    letter = "abcdefgh"[i - base]
    return " ".join([cells_field(cells), y, letter.upper() if y == "w" else letter, "-"] + parts[4:])


def mutate_fen(f, rnd):
    if len(f) < 2:
        return f + "8"
    parts = f.split(" ")
    k = rnd.randrange(20)
    if k >= 18:
        o = bogus_right_fen(parts, rnd)
        if o is not None:
            return o
        k = 8
    if k >= 16:
        o = overlay_fen(parts, rnd)
        if o is not None:
            return o
        k = 4
    if k == 0:
        return f[: rnd.randrange(len(f))]
    if k == 1:
        i = rnd.randrange(len(f))
        return f[:i] + rnd.choice("PNBRQKpnbrqk12345678/ -wbKQkqHAhaxX9é\t") + f[i:]
    if k == 2:
        i = rnd.randrange(len(f))
        return f[:i] + f[i + 1:]
    if k == 3:
        i, j = rnd.randrange(len(parts)), rnd.randrange(len(parts))
        parts[i], parts[j] = parts[j], parts[i]
        return " ".join(parts)
    if k == 4:   # boards of 65..320 squares (u8 index wraps at 256)
        extra = rnd.choice(["8" * 24, "8" * 32, "8/8/8/8/8/8/8/8/" * 4, "1", "8", "PPPPPPPP", "8" * 31 + "7"])
        parts[0] = parts[0] + rnd.choice(["", "/"]) + extra
        return " ".join(parts)
    if k == 5 and len(parts) > 3:   # en-passant bytes that alias after u8 wrap
        parts[3] = rnd.choice(["aV", "hV", "a6", "h3", "i6", "a9", "A6", "é", "a", "a66", "`6", "a0", "e6", "d3", "c6"])
        return " ".join(parts)
    if k == 6 and len(parts) > 4:
        parts[4] = rnd.choice(["-1", "+5", "99999999999", "2147483647", "2147483648", "", "0x10", "-0", "007", "1e3"])
        return " ".join(parts)
    if k == 7 and len(parts) > 5:
        parts[5] = rnd.choice(["0", "-1", "+5", "99999999999", "2147483647", "", "-0"])
        return " ".join(parts)
    if k == 8 and len(parts) > 2:
        parts[2] = rnd.choice(["KK", "KQkqK", "Kk-", "-K", "AHah", "HAha", "GBgb", "KQkqAH", "E", "e", "K-", "Z", "kqKQ", "Qq", "-", "BG", "bg", "CFcf"])
        return " ".join(parts)
    if k == 9 and len(parts) > 1:
        parts[1] = rnd.choice(["W", "B", "x", "", "wb", "ww"])
        return " ".join(parts)
    if k == 10:
        return f + rnd.choice([" ", " x", "  ", " 1"])
    if k == 11:
        return f.replace(" ", "  ", 1)
    if k == 12:   # remove the kings / add kings / pawns on back ranks
        b = parts[0]
        b = rnd.choice([b.replace("K", "1"), b.replace("k", "K"), b.replace("8", "P7", 1), b.replace("8", "7p", 1), b.replace("/", "", 1), b.replace("/", "//", 1)])
        parts[0] = b
        return " ".join(parts)
    if k == 13 and len(parts) > 1:   # other side to move (often leaves the side not to move in check)
        parts[1] = "b" if parts[1] == "w" else "w"
        if len(parts) > 3:
            parts[3] = "-"
        return " ".join(parts)
    if k == 14:
        return rnd.choice(["", " ", "startpos", "startpos ", "8/8/8/8/8/8/8/8 w - - 0 1", "k7/8/8/8/8/8/8/K7 w - - 0 1", "kK6/8/8/8/8/8/8/8 w - - 0 1"])
    return f[::-1] if rnd.random() < 0.2 else f.upper() if rnd.random() < 0.5 else f.lower()


def run_C07(res):
    g, pl, sp, co = sizes(res, (25, 70, 2000, 500), (400, 120, 50000, 5000))
    ps = gen_positions(res, g, pl, sp, co)
    rnd = random.Random(res.seed)
    res.coverage["rule"] = ("well-formed FENs of generated positions in X-FEN, Shredder and KQkq spelling, and a malformed stream (16 mutation kinds incl. "
                            "65..320-square boards, aliasing en-passant bytes, counter overflow, duplicate/mixed castling letters, non-ASCII); parsed by the "
                            "optimised and the checked build; accepted => structurally valid (Lean V); well-formed => equals the source position")
    ind = run_driver_par(["sind " + p for p in ps])
    ps = [p for p, d in zip(ps, ind) if d.split()[0] == "1"]
    xs = run_driver_par(["sfen " + p + " x" for p in ps])
    ss = run_driver_par(["sfen " + p + " s" for p in ps])
    ks = run_driver_par(["sfen " + p + " k" for p in ps])
    sa = run_driver_par(["sabs " + p for p in ps])
    good = []
    for p, x, s, k, a in zip(ps, xs, ss, ks, sa):
        good.append((x, a))
        good.append((s, a))
        if k == x:
            good.append((k, a))
    good = list(dict.fromkeys(good))
    bad = []
    nb = len(good) * (2 if res.tier == "quick" else 6)
    for _ in range(nb):
        f, _a = rnd.choice(good)
        m = mutate_fen(f, rnd)
        if "\n" in m or "\r" in m:
            continue
        if rnd.random() < 0.15:
            m = mutate_fen(m, rnd)
            if "\n" in m or "\r" in m:
                continue
        bad.append(m)
    allf = [f for f, _ in good] + bad
    ri = run_hx_par(["fenin " + f for f in allf])
    rc = run_hx_par(["fenin " + f for f in allf], "checked")
    mw = run_driver_par(["feninw " + f for f in allf])
    mt = run_driver_par(["fenint " + f for f in allf])
    compare(res, "set_fen (optimised build vs wrap model)", allf, ri, mw)
    compare(res, "set_fen (checked build vs trap model)", allf, rc, mt)
    acc = [x for x in dict.fromkeys([r for r in ri + rc if r not in ("PANIC", "DIED")])]
    vflag = dict(zip(acc, run_driver_par(["sind " + a for a in acc])))
    sab = dict(zip(acc, run_driver_par(["sabs " + a for a in acc])))
    for k, f in enumerate(allf):
        wellformed = k < len(good)
        for build, r in (("optimised", ri[k]), ("checked", rc[k])):
            res.case(build + "|" + f, True, {"fen": f, "build": build, "result": r[:80]} if k % 997 == 0 else None)
            if r == "DIED":
                res.fail("the parser killed the process", fen=f, build=build)
                continue
            if r == "PANIC":
                res.count(f"rejected_{'wellformed' if wellformed else 'malformed'}_{build}")
                if wellformed:
                    res.fail("FEN of a valid position rejected", fen=f, build=build)
                continue
            res.count(f"accepted_{'wellformed' if wellformed else 'malformed'}_{build}")
            if vflag[r].split()[0] != "1":
                res.fail("parser accepted a string but the position is not structurally valid", fen=f, build=build, position=r)
            if wellformed and sab[r] != good[k][1]:
                res.fail("well-formed FEN parsed to a different position than it spells", fen=f, build=build, observed=sab[r], expected=good[k][1])


def exact_replay(f):
    """re-run the recorded failing case itself on the current tree (both harness builds, the model, the specification)"""
    if not isinstance(f, dict):
        return
    lines = []
    if "request" in f and isinstance(f["request"], str) and not f["request"].endswith("…"):
        lines.append(f["request"])
    if "position" in f and isinstance(f["position"], str) and len(f["position"].split()) == 22:
        p = f["position"]
        lines += ["moves " + p, "count " + p, "caps " + p, "valid " + p, "key " + p, "fenout " + p]
        if "move" in f:
            m = f["move"].split(":")
            lines.append(f"make {p} {m[-3]} {m[-2]} {m[-1]} 1")
        if "token" in f:
            lines.append(f"apply {p} {f['token']}")
    if "root" in f and "limit" in f:
        lines.append(f"root {f['root']} {','.join(str(x) for x in f.get('history', [])) or '-'} {f.get('table', '1')} {f['limit']}")
    if "fen" in f:
        lines.append("fenin " + f["fen"])
    for l in lines:
        a = run_hx([l])[0]
        c = run_hx([l], "checked")[0]
        ml = l.replace("fenin ", "feninw ", 1) if l.startswith("fenin ") else l
        m = run_driver([ml])[0]
        log(f"replay> {l[:200]}\n   optimised: {a[:300]}\n   checked  : {c[:300]}\n   model    : {m[:300]}")
        if l.startswith("moves "):
            log("   spec     : " + run_driver(["smoves " + l[6:]])[0][:300])
    if "script" in f and isinstance(f["script"], list):
        for b in ("release", "checked"):
            rc, out, err, to, secs = vlib.run_engine(f["script"], b, timeout=30)
            log(f"replay> script on the {b} binary: exit={rc} timed_out={to}\n" + out[-1500:] + ("\nstderr: " + err[-300:] if err else ""))


def generic_replay(res, path, spec):
    data = json.load(open(path))
    try:
        if spec.get("bins"):
            vlib.cargo_build_bins()
        exact_replay(data.get("failure"))
    except Exception as e:      # the exact replay is a convenience; the verdict comes from re-running the check
        log("exact replay failed: " + repr(e))
    log("replaying " + path + " by re-running the property's check on the current tree (the failing case is regenerated from the recorded seed)")
    res.seed = data.get("seed", res.seed)
    res.tier = data.get("tier", res.tier)
    spec["run"](res)
    return vlib.finish(res, spec.get("matchers", {}))


PROPS = {
    "C01": {"run": run_C01},
    "C02": {"run": run_C02, "matchers": {"F1": match_F1}},
    "C04": {"run": run_C04},
    "C06": {"run": run_C06, "matchers": {"F4": match_F4}},
    "C07": {"run": run_C07},
    "C08": {"run": run_C08},
    "C09": {"run": run_C09},
    "C10": {"run": run_C10},
    "C17": {"run": run_C17},
    "C18": {"run": run_C18, "matchers": {"F8": match_F8}},
}
