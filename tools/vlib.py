"""Shared infrastructure for ./check : builds, translator, proof audit, line-protocol runners,
evidence and replay writers, known findings."""
import hashlib
import json
import os
import re
import subprocess
import sys
import time

VERIF = os.path.dirname(os.path.dirname(os.path.abspath(__file__)))
REPO = os.environ.get("RAWR_REPO", "/repo")
LEAN = os.path.join(VERIF, "lean")
DRIVER = os.path.join(LEAN, ".lake", "build", "bin", "driver")
STYLEDRIVER = os.path.join(LEAN, ".lake", "build", "bin", "styledriver")
HARNESS = os.path.join(VERIF, "harness")
# build output is kept per source tree: a cargo target directory shared between two source paths can keep serving the binary of the
# other path (a unit that is "fresh" is not linked into place again)
_ALT = "" if os.path.realpath(os.environ.get("RAWR_REPO", "/repo")) == "/repo" else "-alt"
HXTARGET = os.path.join(HARNESS, "target" + _ALT)
HX = {"release": os.path.join(HXTARGET, "release", "hx"),
      "checked": os.path.join(HXTARGET, "checked", "hx")}
BINDIR = os.path.join(VERIF, ".build", "rawr" + _ALT)
BIN = {"release": os.path.join(BINDIR, "release", "rawr"),
       "checked": os.path.join(BINDIR, "debug", "rawr")}
ENV = dict(os.environ, CARGO_NET_OFFLINE="true", MIMALLOC_ALLOW_LARGE_OS_PAGES="0")
ALLOWED_AXIOMS = {"propext", "Classical.choice", "Quot.sound"}
TRUSTED_BASE = [
    "Lean 4.33.0 kernel (axioms allowed: propext, Classical.choice, Quot.sound; no native_decide, no bv_decide, no own axioms)",
    "Rawr/Spec/*.lean as the reading of the rules of chess / Chess960 / X-FEN",
    "tools/extract.py (constants and tables translated from /repo on every run)",
    "tools/rust2lean.py, rust2lean_imp.py, rust2lean_search.py, rust2lean_text.py, rust2lean_session.py, py2lean_style.py (function bodies translated "
    "to Lean on every run; the agree_* theorems prove the model equal to the translation: bitboard/ray helpers, position, makemove, hashes, validate, "
    "attacks, eval, move generator, counter, perft, hashtable, score, ordering, qsearch, negamax, root incl. the clock arithmetic, get_fen, set_fen, "
    "move text, uci::moves/position/setoption/go, the listen loops, Display, style.py's statistics and scores); their library mappings "
    "(RustTextPrelude, RustSessionPrelude, CHESS_MAP) are trusted",
    "hand-written Rawr/Model/*.lean; what the translators do not reach (magic look-up through extract.py's table, main.rs, PGN reading glue of style.py) "
    "is tied to the code only by the correspondence check of this run",
    "harness/src/bin/hx.rs, tools/check machinery, rustc/std semantics",
]


class Broken(Exception):
    pass


def log(msg):
    print(msg, flush=True)


def sh(cmd, cwd=None, timeout=3600, env=None, inp=None):
    p = subprocess.run(cmd, cwd=cwd, env=env or ENV, input=inp, stdout=subprocess.PIPE, stderr=subprocess.STDOUT,
                       text=True, timeout=timeout)
    return p.returncode, p.stdout


# ------------------------------------------------------------------ builds
def cargo_build_hx():
    """build hx (release, checked) from /repo's current tree; returns path of magic_constants.rs actually included."""
    os.makedirs(HARNESS, exist_ok=True)
    # the harness depends on the repository by path; the path follows RAWR_REPO (default /repo)
    toml = os.path.join(HARNESS, "Cargo.toml")
    src = open(toml).read()
    new = re.sub(r'rawr = \{ path = "[^"]*" \}', 'rawr = { path = "%s" }' % REPO, src)
    if new != src:
        open(toml, "w").write(new)
    if _ALT:
        import shutil
        stamp = os.path.join(HXTARGET, ".source-tree")
        if not os.path.exists(stamp) or open(stamp).read() != REPO:      # another scratch tree was built here before: start clean
            shutil.rmtree(HXTARGET, ignore_errors=True)
            shutil.rmtree(BINDIR, ignore_errors=True)
            os.makedirs(HXTARGET, exist_ok=True)
            open(stamp, "w").write(REPO)
    rc, out = sh(["cargo", "build", "--release", "--offline", "--message-format=json", "--target-dir", HXTARGET], cwd=HARNESS)
    artefact = None
    errs = []
    for line in out.splitlines():
        if not line.startswith("{"):
            continue
        try:
            m = json.loads(line)
        except Exception:
            continue
        if m.get("reason") == "build-script-executed" and "rawr" in m.get("package_id", "") and "harness" not in m.get("package_id", ""):
            artefact = os.path.join(m["out_dir"], "magic_constants.rs")
        if m.get("reason") == "compiler-message" and m["message"].get("level") == "error":
            errs.append(m["message"].get("rendered", ""))
    if rc != 0:
        raise Broken("cargo build (hx release) failed:\n" + "\n".join(errs)[:4000])
    rc, out = sh(["cargo", "build", "--profile", "checked", "--offline", "--target-dir", HXTARGET], cwd=HARNESS)
    if rc != 0:
        raise Broken("cargo build (hx checked) failed:\n" + out[-4000:])
    if artefact is None or not os.path.exists(artefact):
        raise Broken("could not locate magic_constants.rs of the current build")
    return artefact


def cargo_build_bins():
    rc, out = sh(["cargo", "build", "--release", "--offline", "--target-dir", BINDIR], cwd=REPO)
    if rc != 0:
        raise Broken("cargo build (rawr release) failed:\n" + out[-4000:])
    env = dict(ENV, CARGO_PROFILE_DEV_OPT_LEVEL="2")
    rc, out = sh(["cargo", "build", "--offline", "--target-dir", BINDIR], cwd=REPO, env=env)
    if rc != 0:
        raise Broken("cargo build (rawr dev/checked) failed:\n" + out[-4000:])


def run_extract(artefact):
    rc, out = sh([HX["release"]], inp="ttsize\n")
    m = re.search(r"@ (\d+)", out)
    if not m:
        raise Broken("hx ttsize failed: " + out[:200])
    rc, out = sh([sys.executable, os.path.join(VERIF, "tools", "extract.py"), "--artefact", artefact, "--ttsize", m.group(1)])
    if rc != 0:
        return False, out.strip()
    return True, out.strip()


def trusted_text_check(prop):
    """source text the translators take on trust (derives, operator impls, iterator order, enum discriminants, struct layouts, Cargo
    profiles, main.rs): compare with the fingerprints recorded in tools/trusted_text.json -> list of changed items this property rests on"""
    rc, out = sh([sys.executable, os.path.join(VERIF, "tools", "trusted_text.py")])
    try:
        cur = json.loads(out)
        ref = json.load(open(os.path.join(VERIF, "tools", "trusted_text.json")))
    except Exception as e:
        return ["trusted-text fingerprints could not be computed: " + (out.strip().splitlines()[-1] if out.strip() else str(e))[:200]]
    bad = []
    for k, v in ref.items():
        if prop in v["props"] and cur.get(k, {}).get("sha") != v["sha"]:
            bad.append(k)
    return bad


def norm_ws(s):
    return re.sub(r"\s+", " ", s).strip()


def prelude_text_check():
    """count_moves.rs and move_generator.rs share their first half verbatim; the model has it once (`prelude`)."""
    def grab(path, start, end):
        src = open(os.path.join(REPO, path)).read()
        src = re.sub(r"//[^\n]*", "", src)
        i = src.find(start)
        j = src.find(end)
        if i < 0 or j < 0:
            return None
        return norm_ws(src[i:j])
    a = grab("src/chess/move_generator.rs", "let ksq = (self.get_kings() & self.get_us()).lsb();", "let pinned = bpinned | rpinned;")
    b = grab("src/chess/count_moves.rs", "let ksq = (self.get_kings() & self.get_us()).lsb();", "let pinned = bpinned | rpinned;")
    if a is None or b is None:
        return False, "prelude markers not found in move_generator.rs / count_moves.rs"
    if a != b:
        return False, "the pin/check prelude of count_moves.rs differs from move_generator.rs"

    def lb(path):
        src = open(os.path.join(REPO, path)).read()
        m = re.search(r"fn line_between\(.*?\n\}", src, re.S)
        return norm_ws(m.group(0)) if m else None
    if lb("src/chess/move_generator.rs") != lb("src/chess/count_moves.rs"):
        return False, "line_between differs between count_moves.rs and move_generator.rs"
    return True, "ok"


def fingerprint_file(path):
    try:
        src = open(path).read()
    except Exception:
        return None
    if path.endswith(".py"):
        src = re.sub(r"#[^\n]*", "", src)
    else:
        src = re.sub(r"//[^\n]*", "", src)
    return hashlib.sha256(norm_ws(src).encode()).hexdigest()[:20]


def source_drift(prop):
    """files anchored by the property whose (comment- and whitespace-normalised) text differs from the text the model was last
    validated against (model_fingerprints.json). Drift is NOT an alarm: it only makes the check spend more generator effort."""
    fp_path = os.path.join(VERIF, "model_fingerprints.json")
    if not os.path.exists(fp_path):
        return []
    fps = json.load(open(fp_path))
    files = []
    for l in open(os.path.join(VERIF, "properties.jsonl")):
        d = json.loads(l)
        if d["id"] == prop:
            files = d["anchors"]["files"]
    return [f for f in files if f in fps and fingerprint_file(os.path.join(REPO, f)) != fps[f]]


def lake_build(targets):
    rc, out = sh(["lake", "build"] + targets, cwd=LEAN, timeout=3600)
    return rc == 0, out


# modules outside Props/ whose theorems are obligations of a property: the agreement of the hand-written model with the
# definitions regenerated from the Rust source by tools/rust2lean.py (bitboard shifts, ray fills, knights/pawns, eval helpers,
# line_between)
# … and by tools/rust2lean_imp.py (flip, makenull, position helpers, makemove, predict_hash / calculate_hash, validate, the attack
# queries, eval, move_generator, count_moves, legal_moves, legal_captures); SpecSanity = theorems about the specification alone
# (colour symmetry, kings never captured, conservation, published perft counts evaluated in the kernel)
_IMP = ["Rawr.Proofs.RustImpAgree", "Rawr.Proofs.RustImpAgree_MakeMove", "Rawr.Proofs.RustImpAgree_MoveGen"]
_SRCH = ["Rawr.Proofs.RustSearchAgree", "Rawr.Proofs.RustSearchAgree_Perft", "Rawr.Proofs.RustSearchAgree_Sort", "Rawr.Proofs.RustSearchAgree_QSearch",
         "Rawr.Proofs.RustSearchAgree_Valid", "Rawr.Proofs.RustSearchAgree_Negamax", "Rawr.Proofs.RustSearchAgree_Root",
         "Rawr.Proofs.RustSearchAgree_Rules"]
_TXT = "Rawr.Proofs.RustTextAgree"
_SESS = ["Rawr.Proofs.RustSessionAgree_" + x for x in ("Canon", "Words", "Display", "Info", "Perft", "Go", "Lines", "Step", "Listen", "Rules", "GoRules")]
EXTRA_MODULES = {
    "C01": ["Rawr.Proofs.RustFnsAgree"] + _IMP + ["Rawr.Props.SpecSanity"],
    "C02": _IMP,
    "C04": _IMP,
    "C05": [_TXT, _TXT + "_SetFen", _TXT + "_Uci", _TXT + "_Rules"],
    "C06": ["Rawr.Proofs.RustImpAgree", _TXT, _TXT + "_GetFen", _TXT + "_GetFenRules", _TXT + "_SetFen"],
    "C07": ["Rawr.Proofs.RustImpAgree", _TXT, _TXT + "_SetFen"],
    "C09": [_TXT, _TXT + "_SetFen", _TXT + "_Uci", _TXT + "_Rules"],
    "C15": [_TXT, _TXT + "_Go", _TXT + "_SetFen", _TXT + "_Uci"] + _SESS,
    "C08": ["Rawr.Proofs.RustFnsAgree"] + _IMP + ["Rawr.Proofs.RustSearchAgree", "Rawr.Proofs.RustSearchAgree_Perft", _TXT + "_Go", "Rawr.Props.SpecSanity"],
    "C10": ["Rawr.Proofs.RustFnsAgree"],
    "C14": ["Rawr.Proofs.RustTimeAgree"] + _SRCH,
    "C03": ["Rawr.Proofs.RustTimeAgree"] + _SRCH,
    "C11": _SRCH,
    "C12": _SRCH,
    "C13": _SRCH,
    "C16": ["Rawr.Proofs.RustSearchAgree", _TXT, _TXT + "_Go", _TXT + "_SetFen", _TXT + "_Uci"] + _SESS,
    "C17": ["Rawr.Proofs.RustFnsAgree", "Rawr.Proofs.RustImpAgree", "Rawr.Proofs.RustImpAgree_Eval"],
    "C18": ["Rawr.Proofs.RustSearchAgree"],
    "C20": ["Rawr.Proofs.PyStyleAgree", "Rawr.Proofs.PyStyleAgree_Game"],
    "C19": ["Rawr.Proofs.RustImpAgree", "Rawr.Proofs.RustImpAgree_Eval", "Rawr.Proofs.RustSearchAgree", "Rawr.Proofs.RustSearchAgree_Sort", "Rawr.Proofs.RustSearchAgree_QSearch"],
}


def run_rust2lean():
    rc, out = sh([sys.executable, os.path.join(VERIF, "tools", "rust2lean.py")])
    rc2, out2 = sh([sys.executable, os.path.join(VERIF, "tools", "rust2lean_imp.py")])
    rc3, out3 = sh([sys.executable, os.path.join(VERIF, "tools", "rust2lean_search.py")])
    rc4, out4 = sh([sys.executable, os.path.join(VERIF, "tools", "rust2lean_text.py")])
    rc5, out5 = sh([sys.executable, os.path.join(VERIF, "tools", "py2lean_style.py")])
    rc6, out6 = sh([sys.executable, os.path.join(VERIF, "tools", "rust2lean_session.py")])
    global TRANSLATORS
    TRANSLATORS = {"RustFnsAgree": (rc in (0, 4), out.strip()), "RustTimeAgree": (rc in (0, 3), out.strip()), "RustImpAgree": (rc2 == 0, out2.strip()),
                   "RustSearchAgree": (rc3 == 0 and rc2 == 0, (out3.strip() if rc3 else out2.strip())),
                   "RustTextAgree": (rc4 == 0 and rc2 == 0, (out4.strip() if rc4 else out2.strip())),
                   "PyStyleAgree": (rc5 == 0, out5.strip()),
                   "RustSessionAgree": (rc6 == 0 and rc2 == 0 and rc3 == 0 and rc4 == 0,
                                        next((o.strip() for r, o in ((rc6, out6), (rc4, out4), (rc3, out3), (rc2, out2)) if r), ""))}
    return (rc == 0 and rc2 == 0 and rc3 == 0 and rc4 == 0 and rc5 == 0 and rc6 == 0,
            " | ".join(x.strip().splitlines()[0] if x.strip() else "" for x in (out, out2, out3, out4, out5, out6)))


TRANSLATORS = {}


def translator_failures(prop):
    """failures of the translators whose output the property's agreement modules are built from"""
    out = []
    for key, (ok, msg) in TRANSLATORS.items():
        if not ok and any(key in m for m in EXTRA_MODULES.get(prop, [])):
            out.append(msg)
    return list(dict.fromkeys(out))


def props_modules(prop):
    """Lean modules holding the property theorems of `prop` (Props/Cxx.lean and Props/Cxx_*.lean)."""
    d = os.path.join(LEAN, "Rawr", "Props")
    mods = list(EXTRA_MODULES.get(prop, []))
    if os.path.isdir(d):
        for f in sorted(os.listdir(d)):
            if f.endswith(".lean") and re.match(r"^" + prop + r"([A-Za-z_][A-Za-z0-9_]*)?\.lean$", f):
                mods.append("Rawr.Props." + f[:-5])
    return mods


def theorem_names(module):
    """[(fully qualified theorem name)] of a module, following namespace/end blocks; private theorems are skipped."""
    path = os.path.join(LEAN, *module.split(".")) + ".lean"
    src = open(path).read()
    src_nc = re.sub(r"/-.*?-/", "", src, flags=re.S)
    src_nc = re.sub(r"--[^\n]*", "", src_nc)
    stack = []
    names = []
    for line in src_nc.split("\n"):
        m = re.match(r"^\s*namespace\s+(\S+)", line)
        if m:
            stack.append(m.group(1))
            continue
        m = re.match(r"^\s*end\s+(\S+)\s*$", line)
        if m and stack and stack[-1] == m.group(1):
            stack.pop()
            continue
        m = re.match(r"^\s*(?:@\[[^\]]*\]\s*)?(?:protected\s+)?theorem\s+([^\s:({\[]+)", line)
        if m:
            n = m.group(1)
            if n.startswith("_root_."):
                names.append(n[len("_root_."):])
            else:
                names.append(".".join(stack + [n]))
    return names, "", src_nc


FORBIDDEN = re.compile(r"\bsorry\b|\badmit\b|^\s*axiom\s|native_decide|bv_decide|implemented_by|\bunsafe\s|maxHeartbeats\s+0\b", re.M)


def audit(prop):
    """#print axioms on every theorem of the property's modules; grep for forbidden constructs in all proof files."""
    mods = props_modules(prop)
    res = {"modules": mods, "theorems": [], "bad": [], "partial": []}
    if not mods:
        return res
    lines = ["import " + m for m in mods]
    allnames = []
    for m in mods:
        names, ns, src = theorem_names(m)
        if FORBIDDEN.search(src):
            res["bad"].append(f"{m}: forbidden construct ({FORBIDDEN.search(src).group(0).strip()})")
        for n in names:
            full = n
            allnames.append(full)
            if "partial" in n:
                res["partial"].append(full)
    # helper files: forbidden constructs only
    for sub in ("Proofs", "Model", "Spec"):
        d = os.path.join(LEAN, "Rawr", sub)
        if os.path.isdir(d):
            for f in os.listdir(d):
                if f.endswith(".lean"):
                    src = open(os.path.join(d, f)).read()
                    src = re.sub(r"/-.*?-/", "", src, flags=re.S)
                    src = re.sub(r"--[^\n]*", "", src)
                    mm = FORBIDDEN.search(src)
                    if mm:
                        res["bad"].append(f"Rawr/{sub}/{f}: forbidden construct ({mm.group(0).strip()})")
    for n in allnames:
        lines.append(f"#print axioms {n}")
    tmp = os.path.join(VERIF, ".build", f"audit_{prop}.lean")
    os.makedirs(os.path.dirname(tmp), exist_ok=True)
    open(tmp, "w").write("\n".join(lines) + "\n")
    rc, out = sh(["lake", "env", "lean", tmp], cwd=LEAN, timeout=1200)
    seen = {}
    for m in re.finditer(r"'(\S+)' (depends on axioms: \[([^\]]*)\]|does not depend on any axioms)", out):
        axs = [a.strip() for a in (m.group(3) or "").replace("\n", " ").split(",") if a.strip()]
        seen[m.group(1)] = axs
    for n in allnames:
        if n not in seen:
            res["bad"].append(f"{n}: not found by #print axioms")
            continue
        extra = [a for a in seen[n] if a not in ALLOWED_AXIOMS]
        if extra:
            res["bad"].append(f"{n}: depends on {extra}")
        res["theorems"].append({"name": n, "axioms": seen[n]})
    if rc != 0 and not seen:
        res["bad"].append("audit file failed to compile: " + out[-500:])
    return res


def leancheck(prop):
    """thorough tier: replay the compiled .olean files of the property's modules (and of the translator agreement
    modules they rest on) through `leanchecker`, the toolchain's independent re-checker of declarations."""
    mods = props_modules(prop)
    bad = []
    if not mods:
        return [], bad
    from concurrent.futures import ThreadPoolExecutor

    def one(m):
        rc, out = sh(["lake", "env", "leanchecker", m], cwd=LEAN, timeout=1800)
        return m, rc, out
    with ThreadPoolExecutor(max_workers=8) as ex:
        for m, rc, out in ex.map(one, mods):
            if rc != 0:
                bad.append(f"leanchecker rejects {m}: " + out[-300:])
    return mods, bad


# ------------------------------------------------------------------ runners
def run_driver(lines, timeout=3600, exe=None):
    if not lines:
        return []
    p = subprocess.Popen([exe or DRIVER], stdin=subprocess.PIPE, stdout=subprocess.PIPE, stderr=subprocess.DEVNULL, text=True)
    try:
        so, _ = p.communicate("\n".join(lines) + "\n", timeout=timeout)
    except subprocess.TimeoutExpired:
        p.kill()
        so, _ = p.communicate()
        raise Broken("the Lean driver did not answer %d request(s) within %d s (first: %s)" % (len(lines), timeout, lines[0][:120]))
    return so.split("\n")[:-1] if so.endswith("\n") else so.split("\n")


def run_driver_par(lines, nproc=None, timeout=3600):
    """split the request list over several driver processes (the model is a pure function of each line)."""
    nproc = nproc or min(16, os.cpu_count() or 4)
    if len(lines) < 200 or nproc == 1:
        return run_driver(lines, timeout)
    chunks = [lines[i::nproc] for i in range(nproc)]
    procs = [subprocess.Popen([DRIVER], stdin=subprocess.PIPE, stdout=subprocess.PIPE, stderr=subprocess.DEVNULL, text=True)
             for _ in chunks]
    import threading
    outs = [None] * nproc

    timed_out = []

    def work(i):
        try:
            o, _ = procs[i].communicate("\n".join(chunks[i]) + "\n", timeout=timeout)
        except subprocess.TimeoutExpired:
            procs[i].kill()
            o, _ = procs[i].communicate()
            timed_out.append(i)
        outs[i] = o.split("\n")[:-1] if o.endswith("\n") else o.split("\n")
    ths = [threading.Thread(target=work, args=(i,)) for i in range(nproc)]
    for t in ths:
        t.start()
    for t in ths:
        t.join()
    if timed_out:
        raise Broken("the Lean driver did not answer within %d s (%d of %d worker processes timed out; first request: %s)"
                     % (timeout, len(timed_out), nproc, lines[0][:120]))
    res = [None] * len(lines)
    for i in range(nproc):
        o = outs[i] or []
        for k, idx in enumerate(range(i, len(lines), nproc)):
            res[idx] = o[k] if k < len(o) else "DIED"
    return res


HX_TIMEOUT = int(os.environ.get("VERIF_HX_TIMEOUT", "150"))   # per harness process; ./check raises it for the thorough tier
HUNG = []          # (build, first unanswered request) of harness processes that had to be killed


def run_hx(lines, build="release", timeout=None):
    """feed the requests to the in-process harness. A process that does not finish within the time limit is killed: the request
    it was working on is reported as DIED (a search that never returns is a hang), the remaining ones are re-submitted to a
    fresh process."""
    if not lines:
        return []
    timeout = timeout or HX_TIMEOUT
    if os.environ.get("VERIF_DUMP_REQS") and build == "release":
        with open(os.path.join(os.environ["VERIF_DUMP_REQS"], "hx_requests.txt"), "a") as f:
            f.write("\n".join(lines) + "\n")
    p = subprocess.Popen([HX[build]], stdin=subprocess.PIPE, stdout=subprocess.PIPE, stderr=subprocess.DEVNULL, text=True)
    try:
        so, _ = p.communicate("\n".join(lines) + "\n", timeout=timeout)
        hung = False
    except subprocess.TimeoutExpired:
        p.kill()
        so, _ = p.communicate()
        hung = True
    out = [l[2:] for l in so.split("\n") if l.startswith("@ ")]
    if hung and len(out) < len(lines):
        HUNG.append((build, lines[len(out)][:300]))
        out.append("DIED")
        rest = lines[len(out):]
        if rest and len(HUNG) < 4:
            out += run_hx(rest, build, timeout)
    while len(out) < len(lines):
        out.append("DIED")
    return out


def run_hx_par(lines, build="release", nproc=None, timeout=None, contiguous=False):
    nproc = nproc or min(16, os.cpu_count() or 4)
    if (len(lines) < 400 and not contiguous) or nproc == 1:
        return run_hx(lines, build, timeout)
    import threading
    if contiguous:
        k = (len(lines) + nproc - 1) // nproc
        k += k % 2
        blocks = [lines[i:i + k] for i in range(0, len(lines), k)]
        outs = [None] * len(blocks)

        def workc(i):
            outs[i] = run_hx(blocks[i], build, timeout)
        ths = [threading.Thread(target=workc, args=(i,)) for i in range(len(blocks))]
        for t in ths:
            t.start()
        for t in ths:
            t.join()
        return [x for o in outs for x in o]
    chunks = [lines[i::nproc] for i in range(nproc)]
    outs = [None] * nproc

    def work(i):
        outs[i] = run_hx(chunks[i], build, timeout)
    ths = [threading.Thread(target=work, args=(i,)) for i in range(nproc)]
    for t in ths:
        t.start()
    for t in ths:
        t.join()
    res = [None] * len(lines)
    for i in range(nproc):
        for k, idx in enumerate(range(i, len(lines), nproc)):
            res[idx] = outs[i][k]
    return res


def canon_transcript(text):
    out = []
    for l in text.split("\n"):
        l = l.rstrip("\r")
        if l.startswith("nps "):
            continue
        l = re.sub(r"^id name Rawr .*$", "id name Rawr ?", l)
        l = re.sub(r" time \d+", " time ?", l)
        l = re.sub(r"^time \d+$", "time ?", l)
        l = re.sub(r" nps \d+", "", l)
        out.append(l)
    while out and out[-1] == "":
        out.pop()
    return out


def run_engine(script_lines, build="release", timeout=20):
    """feed a command script (lines after the initial 'uci') to the real binary; returns (rc, stdout, stderr, timed_out, secs)."""
    t0 = time.time()
    if os.environ.get("VERIF_DUMP_REQS") and build == "release":
        with open(os.path.join(os.environ["VERIF_DUMP_REQS"], "scripts.jsonl"), "a") as f:
            f.write(json.dumps(script_lines) + "\n")
    try:
        p = subprocess.run([BIN[build]], input="uci\n" + ("\n".join(script_lines) + "\n" if script_lines else ""), stdout=subprocess.PIPE,
                           stderr=subprocess.PIPE, text=True, timeout=timeout)
        return p.returncode, p.stdout, p.stderr, False, time.time() - t0
    except subprocess.TimeoutExpired as e:
        return -1, (e.stdout or b"").decode() if isinstance(e.stdout, bytes) else (e.stdout or ""), "", True, time.time() - t0


# ------------------------------------------------------------------ positions (raw-field transport)
class Pos:
    __slots__ = ("t",)

    def __init__(self, s):
        self.t = s.split() if isinstance(s, str) else list(s)

    def __str__(self):
        return " ".join(self.t)

    c0 = property(lambda s: int(s.t[0]))
    c1 = property(lambda s: int(s.t[1]))
    halfmoves = property(lambda s: int(s.t[8]))
    black = property(lambda s: s.t[10] == "1")
    ep = property(lambda s: None if s.t[11] == "-" else int(s.t[11]))
    hash = property(lambda s: int(s.t[20]))
    frc = property(lambda s: s.t[21] == "1")

    def piece(self, i):
        return int(self.t[2 + i])

    def with_(self, **kw):
        t = list(self.t)
        idx = {"halfmoves": 8, "fullmoves": 9, "black": 10, "ep": 11, "usK": 12, "usQ": 13, "themK": 14, "themQ": 15,
               "cf0": 16, "cf1": 17, "cf2": 18, "cf3": 19, "hash": 20, "frc": 21}
        for k, v in kw.items():
            t[idx[k]] = str(v)
        return Pos(t)


def parse_moves(s):
    s = s.strip()
    if s in ("-", ""):
        return []
    return [tuple(int(x) for x in m.split(":")) for m in s.split()]


def mv_key(m):
    return m[-3] * 4096 + m[-2] * 8 + m[-1]


def fmt_mv(m):
    return ":".join(str(x) for x in m)


def sq_name(s):
    return "abcdefgh"[s % 8] + "12345678"[s // 8]


# ------------------------------------------------------------------ results, evidence, replays, findings
def load_known():
    p = os.path.join(VERIF, "known_findings.json")
    if not os.path.exists(p):
        return []
    return json.load(open(p)).get("findings", [])


class Result:
    def __init__(self, prop, tier, seed):
        self.prop, self.tier, self.seed = prop, tier, seed
        self.t0 = time.time()
        self.evaluations = 0
        self.distinct = set()
        self.samples = []
        self.coverage = {}
        self.model_disagreements = []      # (what, request, impl, model)
        self.failures = []                 # dict(kind, what, input..., expected, observed)
        self.broken = []                   # names of proof obligations / correspondences that no longer check
        self.known_hits = {}
        self.audit = None
        self.assumptions = []
        self.exhaustive = False
        self.notes = []
        self.escalate = 1

    def count(self, key, n=1):
        self.coverage[key] = self.coverage.get(key, 0) + n

    def case(self, key, nontrivial=True, sample=None):
        self.evaluations += 1
        if nontrivial:
            self.distinct.add(hashlib.md5(key.encode()).hexdigest()[:16])
        if sample is not None and len(self.samples) < 6:
            self.samples.append(sample)

    def disagree(self, what, request, impl, model):
        self.model_disagreements.append({"what": what, "request": request, "impl": impl, "model": model})

    def fail(self, what, **kw):
        d = dict(what=what)
        d.update(kw)
        self.failures.append(d)


def write_replay(prop, data):
    d = os.path.join(VERIF, "replays")
    os.makedirs(d, exist_ok=True)
    h = hashlib.md5(json.dumps(data, sort_keys=True).encode()).hexdigest()[:12]
    path = os.path.join(d, f"{prop}-{h}.json")
    with open(path, "w") as f:
        json.dump(data, f, indent=1)
    return path


def finish(res, matchers):
    """classify failures against known findings, write evidence, print the verdict lines, return exit code."""
    known = [k for k in load_known() if k.get("property") == res.prop and k.get("status", "open") == "open"]
    new_failures = []
    for f in res.failures:
        hit = None
        for k in known:
            fn = matchers.get(k["id"])
            if fn and fn(f):
                hit = k
                break
        if hit:
            res.known_hits.setdefault(hit["id"], []).append(f)
        else:
            new_failures.append(f)
    for kid, fs in res.known_hits.items():
        k = [x for x in known if x["id"] == kid][0]
        log(f"KNOWN-FINDING: property={res.prop} {k['what']} ({len(fs)} case(s) this run, e.g. {json.dumps(fs[0])[:300]})")
    if res.model_disagreements:
        res.broken.append(f"correspondence model/implementation ({len(res.model_disagreements)} disagreement(s), first: {res.model_disagreements[0]['what']})")
    rc = 0
    replay = None
    if new_failures:
        replay = write_replay(res.prop, {"property": res.prop, "tier": res.tier, "seed": res.seed, "kind": "property-failure",
                                         "failure": new_failures[0], "more": new_failures[1:10], "broken": res.broken})
        log(f"VIOLATION property={res.prop} replay={replay}")
        rc = 1
    elif res.broken:
        replay = write_replay(res.prop, {"property": res.prop, "tier": res.tier, "seed": res.seed, "kind": "obligation-broken",
                                         "broken": res.broken, "first_disagreements": res.model_disagreements[:10]})
        log(f"VIOLATION property={res.prop} replay={replay} no-failing-input-found")
        rc = 1
    write_evidence(res, len(new_failures), replay)
    return rc


def write_evidence(res, nviol, replay):
    a = res.audit or {"theorems": [], "bad": [], "partial": [], "modules": []}
    nthm = len(a["theorems"])
    ok = nthm - len({b.split(":")[0] for b in a["bad"] if not b.startswith("Rawr/")})
    cov = {
        "obligations": max(nthm, 0),
        "discharged": max(ok, 0) if not [b for b in res.broken if "lake build" in b] else 0,
        "checker_cmd": "lake build " + " ".join(a["modules"]) + " && lake env lean .build/audit_%s.lean  (#print axioms on every theorem)" % res.prop,
        "trusted_base": TRUSTED_BASE,
        "theorems": a["theorems"],
        "partial_theorems": a["partial"],
        "audit_problems": a["bad"],
        "evaluations": res.evaluations,
        "distinct_nontrivial": len(res.distinct),
        "rule": res.coverage.pop("rule", "see DESIGN.md"),
        "samples": res.samples or ["(no sample)"],
        "exhaustive": res.exhaustive,
        "model_disagreements": len(res.model_disagreements),
        "property_failures_new": nviol,
        "known_findings_hit": {k: len(v) for k, v in res.known_hits.items()},
        "broken_obligations": res.broken,
        "classes": res.coverage,
        "notes": res.notes,
    }
    level = "proof" if nthm > 0 else "translation_validation"
    if level == "translation_validation":
        cov["programs"] = max(res.evaluations, 1)
        cov["disagreements_checked"] = len(res.model_disagreements)
    ev = {
        "property_id": res.prop, "tier": res.tier, "seed": res.seed, "level": level, "coverage": cov,
        "assumptions": res.assumptions + ["see coverage.trusted_base"], "wall_s": round(time.time() - res.t0, 2),
        "violations": nviol + (1 if (res.broken and not nviol) else 0),
    }
    if replay:
        ev["coverage"]["replay"] = replay
    d = os.path.join(VERIF, "evidence")
    os.makedirs(d, exist_ok=True)
    with open(os.path.join(d, res.prop + ".json"), "w") as f:
        json.dump(ev, f, indent=1)
