#!/usr/bin/env python3
"""
C20 -- correspondence and oracle harness for /repo/tools/style/style.py   (python3 stdlib only)

    python3 tools/style_corr.py --seed N --games G --out evidence.json-fragment

What it does, per run:

1. generates random LEGAL games from the standard starting position with the move generator of the
   Lean model of the engine (`lean/.lake/build/bin/driver`, line protocol), in several families:
   uniform play, no captures at all, no captures by one side, no pawn moves, pawn storms (promotions),
   capture-happy play, castling-seeking play; lengths 0, 1, 2, short, medium, long, extreme, up to
   1023 half-moves; every result header; players on either/both/neither side;
2. validates the python-chess stand-in (`pystub/chess`) ply by ply against the Lean driver: the whole
   board, side to move, `is_capture`, castling flags, piece counts, king squares, `is_check`;
3. groups the games into game sets ("cases"), writes each as a PGN (moves in UCI notation), and runs
   the REAL, unmodified style.py on it IN-PROCESS through the stand-in: `main()` with the six filters
   (the `Stats` objects are taken from the `filters` list that `main` hands to `analyse_pgn`), then
   `is_valid`, the three score functions and every nested `feature_*` function on every `Stats`;
4. runs the Lean model (`styledriver`) on the same annotated games -- the annotations are computed
   from the Lean driver's positions, not by the stand-in -- and compares (kind=model-mismatch):
   every `Stats` field exactly, `is_valid`, the error class of every call exactly
   (ok / ZeroDivisionError / AssertionError / IndexError), every feature and score as
   |float - num/den| < 1e-9, and the outcome of `main` (exception class, printed scores);
   it also checks that the Lean well-formedness predicate `wfGame` (the chess facts the C20 theorems
   assume about annotated games) holds for every generated in-domain game;
5. oracle mode (kind=property): on every in-domain case (all games shorter than 1024 half-moves) the
   property itself must hold for the real script: `main` does not raise, `is_valid` is true, each score
   is a finite float in [0,1] (or None exactly when the filter has no games);
6. runs the script as a subprocess (`python3 style.py --pgn ...`) on a few cases and compares exit status
   and stdout with the in-process run;
7. IEEE-754 exploration: probes the real score functions on boundary `Stats` (all-short game sets,
   all-early captures, ... n up to 10^6) for failed range assertions that the rational model cannot show.

Exit status 0 iff everything agrees and the property holds on all cases.  Otherwise one line per failing
case:  FAIL kind=<model-mismatch|property> case=<replay file under /verif/replays/>
"""

import argparse
import contextlib
import dataclasses
import importlib.util
import io
import json
import math
import os
import random
import shutil
import subprocess
import sys
import tempfile
import time
import types
from fractions import Fraction

VERIF = os.path.dirname(os.path.dirname(os.path.abspath(__file__)))
STUB = os.path.join(VERIF, "pystub")
DEFAULT_STYLE = os.path.join(os.environ.get("RAWR_REPO", "/repo"), "tools/style/style.py")
DEFAULT_DRIVER = os.environ.get("RAWR_DRIVER", os.path.join(VERIF, "lean/.lake/build/bin/driver"))
DEFAULT_STYLEDRIVER = os.environ.get("RAWR_STYLEDRIVER", os.path.join(VERIF, "lean/.lake/build/bin/styledriver"))
REPLAYS = os.path.join(VERIF, "replays")

FILTER_FLAGS = ["all", "white", "black", "wins", "losses", "draws"]   # order of `main`
RESULTS = ["1-0", "0-1", "1/2-1/2"]
RES_CODE = {"1-0": "w", "0-1": "b", "1/2-1/2": "d"}
ERR_NAMES = ("ZeroDivisionError", "AssertionError", "IndexError")


# --------------------------------------------------------------------------------------------------
# line-protocol processes
# --------------------------------------------------------------------------------------------------
class Proc:
    """A line-protocol child; stdout is forced to line buffering (the engine driver does not flush)."""

    def __init__(self, path):
        if not os.path.exists(path):
            raise SystemExit(f"style_corr: missing executable {path}")
        cmd = [path]
        self.master = None
        if shutil.which("stdbuf"):
            cmd = ["stdbuf", "-oL", path]
            self.p = subprocess.Popen(cmd, stdin=subprocess.PIPE, stdout=subprocess.PIPE, text=True, bufsize=1)
            self.out = self.p.stdout
        else:  # a pty makes libc line-buffer stdout
            import pty
            master, slave = pty.openpty()
            self.p = subprocess.Popen(cmd, stdin=subprocess.PIPE, stdout=slave, text=True, bufsize=1)
            os.close(slave)
            self.master = master
            self.out = os.fdopen(master, "r", newline="\n")
        self.n = 0

    def ask(self, line):
        self.p.stdin.write(line + "\n")
        self.p.stdin.flush()
        self.n += 1
        ans = self.out.readline()
        if not ans:
            raise RuntimeError(f"child died on request: {line[:200]}")
        return ans.rstrip("\r\n")

    def close(self):
        try:
            self.p.stdin.close()
            self.p.wait(timeout=5)
        except Exception:
            self.p.kill()


# --------------------------------------------------------------------------------------------------
# positions of the Lean engine model (22 tokens, mover-relative) -> absolute mailbox
# --------------------------------------------------------------------------------------------------
def decode(pos):
    """-> (board[64] of None | (white: bool, piece_type 1..6), white_to_move)."""
    t = pos.split()
    c0, c1 = int(t[0]), int(t[1])
    pcs = [int(x) for x in t[2:8]]
    black = t[10] == "1"
    board = [None] * 64
    occ = c0 | c1
    rel = 0
    while occ >> rel:
        bit = 1 << rel
        if occ & bit:
            kind = None
            for k in range(6):
                if pcs[k] & bit:
                    kind = k + 1
                    break
            us = bool(c0 & bit)
            white = us != black
            board[rel ^ 56 if black else rel] = (white, kind)
        rel += 1
    return board, not black


def count(board, white, kind):
    return sum(1 for x in board if x is not None and x[0] == white and x[1] == kind)


def king_sq(board, white):
    for s in range(63, -1, -1):
        if board[s] == (white, 6):
            return s
    return None


def parse_sq(name):
    return (ord(name[0]) - 97) + 8 * (ord(name[1]) - 49)


# --------------------------------------------------------------------------------------------------
# game generation (legal games from the Lean engine model) + validation of the stand-in
# --------------------------------------------------------------------------------------------------
POLICIES = ["uniform", "nocap", "nocap_white", "nocap_black", "nopawn", "pawnstorm", "captures", "castle",
            "queentrade"]


class StubMismatch(Exception):
    pass


class Gen:
    def __init__(self, drv, chess, rng):
        self.drv = drv
        self.chess = chess
        self.rng = rng
        self.start = drv.ask("gstart 518 518 0")
        self.plies_compared = 0
        self.stub_mismatches = []

    def pick(self, policy, pos, board, white_to_move, legal, ply):
        rng = self.rng
        if not legal:
            return None
        black = not white_to_move

        def src_abs(m):
            s = int(m.split(":")[0])
            return s ^ 56 if black else s

        def dst_abs(m):
            d = int(m.split(":")[1])
            return d ^ 56 if black else d

        def kind(m):
            return board[src_abs(m)][1]

        def is_castle(m):
            d = board[dst_abs(m)]
            return kind(m) == 6 and d is not None and d[0] == white_to_move

        caps = None

        def capset():
            nonlocal caps
            if caps is None:
                a = self.drv.ask("caps " + pos)
                caps = set() if a == "-" else set(a.split())
            return caps

        if policy == "nocap" or (policy == "nocap_white" and white_to_move) or (policy == "nocap_black" and black):
            cand = [m for m in legal if m not in capset()]
            return rng.choice(cand) if cand else None
        if policy == "nopawn":
            cand = [m for m in legal if kind(m) != 1]
            return rng.choice(cand) if cand else None
        if policy == "pawnstorm":
            cand = [m for m in legal if kind(m) == 1]
            if cand and rng.random() < 0.85:
                # prefer the most advanced pawns so that promotions happen early
                if rng.random() < 0.6:
                    def adv(m):
                        r = dst_abs(m) >> 3
                        return r if white_to_move else 7 - r
                    best = max(adv(m) for m in cand)
                    cand = [m for m in cand if adv(m) == best]
                return rng.choice(cand)
            return rng.choice(legal)
        if policy == "captures":
            cand = [m for m in legal if m in capset()]
            if cand and rng.random() < 0.9:
                return rng.choice(cand)
            return rng.choice(legal)
        if policy == "castle":
            cand = [m for m in legal if is_castle(m)]
            if cand:
                return rng.choice(cand)
            cand = [m for m in legal if kind(m) not in (4, 6)]
            if cand and rng.random() < 0.95:
                return rng.choice(cand)
            return rng.choice(legal)
        if policy == "queentrade":
            # queens capture queens when they can; otherwise queens move a lot
            cand = [m for m in legal if board[dst_abs(m)] is not None and board[dst_abs(m)][1] == 5]
            if cand:
                return rng.choice(cand)
            cand = [m for m in legal if kind(m) == 5]
            if cand and rng.random() < 0.5:
                return rng.choice(cand)
            return rng.choice(legal)
        return rng.choice(legal)

    def game(self, policy, target_len):
        """-> dict(moves=[uci], plies=[17 ints each], final=(fw, fb), ended=reason)"""
        chess = self.chess
        drv = self.drv
        pos = self.start
        stub = chess.Board()
        moves, plies = [], []
        board, wtm = decode(pos)
        ended = "length"
        for ply in range(target_len):
            a = drv.ask("moves " + pos)
            legal = [] if a == "-" else a.split()
            m = self.pick(policy, pos, board, wtm, legal, ply)
            if m is None:
                ended = "nomove"
                break
            s, d, pr = m.split(":")
            uci = drv.ask(f"uci {pos} {s} {d} {pr}")
            iscap = drv.ask(f"iscap {pos} {s} {d} {pr}") == "1"
            nxt = drv.ask(f"make {pos} {s} {d} {pr} 1")
            chk = drv.ask("check " + nxt).split()[0] == "1"
            black = not wtm
            src = int(s) ^ 56 if black else int(s)
            dst = int(d) ^ 56 if black else int(d)
            piece = board[src][1]
            own_rook_target = board[dst] is not None and board[dst][0] == wtm
            castle = piece == 6 and own_rook_target
            ks = castle and (dst & 7) > (src & 7)
            qs = castle and (dst & 7) < (src & 7)
            to = parse_sq(uci[2:4])
            frm = parse_sq(uci[0:2])
            ek = king_sq(board, not wtm)
            ann = [int(wtm), piece, frm, to, int(iscap), int(ks), int(qs), int(chk),
                   count(board, True, 5), count(board, False, 5), count(board, True, 4), count(board, False, 4),
                   count(board, True, 2), count(board, False, 2), count(board, True, 3), count(board, False, 3), ek]

            # ---- the stand-in against the Lean driver, before the move
            mv = chess.Move.from_uci(uci)
            problems = []
            sb = [None if stub.piece_at(q) is None else (stub.piece_at(q).color, stub.piece_at(q).piece_type)
                  for q in range(64)]
            if sb != board:
                problems.append("board")
            if stub.turn != wtm:
                problems.append("turn")
            if frm != src:
                problems.append("from-square")
            if stub.piece_type_at(mv.from_square) != piece:
                problems.append("piece_type_at")
            if stub.is_capture(mv) != iscap:
                problems.append("is_capture")
            if stub.is_kingside_castling(mv) != ks or stub.is_queenside_castling(mv) != qs:
                problems.append("castling")
            if stub.king(not stub.turn) != ek or stub.king(stub.turn) != king_sq(board, wtm):
                problems.append("king")
            for col in (True, False):
                for kind_ in range(1, 7):
                    if len(stub.pieces(kind_, col)) != count(board, col, kind_):
                        problems.append("pieces")
            if chess.square_distance(mv.to_square, ek) != max(abs((to & 7) - (ek & 7)), abs((to >> 3) - (ek >> 3))):
                problems.append("square_distance")
            gives = stub.gives_check(mv)
            stub.push(mv)
            if stub.is_check() != chk or gives != chk:
                problems.append("is_check")
            self.plies_compared += 1
            if problems:
                self.stub_mismatches.append({"ply": ply, "uci": uci, "moves": moves + [uci], "problems": problems})

            moves.append(uci)
            plies.append(ann)
            pos = nxt
            board, wtm = decode(pos)
        # final board
        sb = [None if stub.piece_at(q) is None else (stub.piece_at(q).color, stub.piece_at(q).piece_type)
              for q in range(64)]
        if sb != board:
            self.stub_mismatches.append({"ply": len(moves), "moves": moves, "problems": ["final board"]})
        fw = [count(board, True, k) for k in (1, 2, 3, 4, 5)]
        fb = [count(board, False, k) for k in (1, 2, 3, 4, 5)]
        return {"moves": moves, "plies": plies, "final": (fw, fb), "ended": ended, "policy": policy}


def shuffle_game(n):
    """n half-moves of knight shuffling, built without the driver (used for the >= 1024 case)."""
    cyc = ["g1f3", "g8f6", "f3g1", "f6g8"]
    moves = [cyc[i % 4] for i in range(n)]
    plies = []
    wk, bk = 4, 60
    for i in range(n):
        wtm = i % 2 == 0
        u = moves[i]
        plies.append([int(wtm), 2, parse_sq(u[0:2]), parse_sq(u[2:4]), 0, 0, 0, 0, 1, 1, 2, 2, 2, 2, 2, 2,
                      bk if wtm else wk])
    return {"moves": moves, "plies": plies, "final": ([8, 2, 2, 2, 1], [8, 2, 2, 2, 1]), "ended": "length",
            "policy": "shuffle"}


def random_length(rng):
    r = rng.random()
    if r < 0.06:
        return 0
    if r < 0.09:
        return 1
    if r < 0.12:
        return 2
    if r < 0.30:
        return rng.randint(3, 29)
    if r < 0.55:
        return rng.randint(30, 79)
    if r < 0.68:
        return rng.randint(80, 99)
    if r < 0.82:
        return rng.randint(100, 139)
    if r < 0.985:
        return rng.randint(140, 320)
    return rng.randint(1000, 1023)


# --------------------------------------------------------------------------------------------------
# cases
# --------------------------------------------------------------------------------------------------
def pgn_of(case):
    out = []
    for i, g in enumerate(case["games"]):
        out.append('[Event "style_corr"]')
        out.append(f'[Round "{i + 1}"]')
        out.append(f'[White "{g["white"]}"]')
        out.append(f'[Black "{g["black"]}"]')
        out.append(f'[Result "{g["result"]}"]')
        out.append("")
        toks = []
        for k, u in enumerate(g["moves"]):
            if k % 2 == 0:
                toks.append(f"{k // 2 + 1}.")
            toks.append(u)
        toks.append(g["result"])
        line = ""
        for tk in toks:
            if len(line) + len(tk) + 1 > 78:
                out.append(line)
                line = tk
            else:
                line = tk if not line else line + " " + tk
        out.append(line)
        out.append("")
    return "\n".join(out) + "\n"


def filter_cond(flag, player, name, white_side, result):
    if name != player:
        return False
    if flag == "all":
        return True
    if flag == "white":
        return white_side
    if flag == "black":
        return not white_side
    if flag == "wins":
        return (white_side and result == "1-0") or ((not white_side) and result == "0-1")
    if flag == "losses":
        return (white_side and result == "0-1") or ((not white_side) and result == "1-0")
    if flag == "draws":
        return result == "1/2-1/2"
    raise ValueError(flag)


def job_sequence(case):
    """the (game index, filter index, side) triples in the order of `analyse_pgn`, with its --games cut."""
    jobs = []
    limit = case.get("limit")
    cnt = 0
    for gi, g in enumerate(case["games"]):
        if g["result"] not in RESULTS:
            continue
        for fi, flag in enumerate(case["flags"]):
            for white_side, name in ((True, g["white"]), (False, g["black"])):
                if not filter_cond(flag, case["player"], name, white_side, g["result"]):
                    continue
                jobs.append((gi, fi, white_side))
                cnt += 1
                if limit and cnt >= limit:
                    return jobs
    return jobs


def game_line(g, white_side):
    fw, fb = g["final"]
    parts = [str(int(white_side)), RES_CODE[g["result"]]] + [str(x) for x in fw] + [str(x) for x in fb]
    parts.append(str(len(g["plies"])))
    for p in g["plies"]:
        parts.extend(str(x) for x in p)
    return " ".join(parts)


# --------------------------------------------------------------------------------------------------
# the real script, in-process
# --------------------------------------------------------------------------------------------------
def load_style(path):
    if STUB not in sys.path:
        sys.path.insert(0, STUB)
    import chess  # noqa: F401  (the stand-in)
    import chess.pgn  # noqa: F401
    if not os.path.abspath(chess.__file__).startswith(os.path.abspath(STUB)):
        raise SystemExit(f"style_corr: `chess` resolved to {chess.__file__}, expected the stand-in in {STUB}")
    spec = importlib.util.spec_from_file_location("style_under_test", path)
    mod = importlib.util.module_from_spec(spec)
    spec.loader.exec_module(mod)
    return mod, chess


def nested_features(style, fn):
    """the nested `feature_*` functions of a score function, rebuilt from its code constants (they have no
    free variables: they only use their `stats` argument and module globals)."""
    res = {}
    for c in fn.__code__.co_consts:
        if isinstance(c, types.CodeType) and c.co_name.startswith("feature_") and not c.co_freevars:
            res[c.co_name] = types.FunctionType(c, style.__dict__, c.co_name)
    return res


def call(f, *a):
    """-> ('ok', value) | ('err', class name)"""
    try:
        with contextlib.redirect_stdout(io.StringIO()):
            return ("ok", f(*a))
    except (ZeroDivisionError, AssertionError, IndexError) as e:
        return ("err", type(e).__name__)
    except Exception as e:  # anything else is reported verbatim (never matches the model)
        return ("err", "other:" + type(e).__name__ + ":" + str(e)[:80])


def run_main(style, pgn_path, case):
    """run the real main(); -> (filters [(name, Stats)], stdout, exception class or None)"""
    captured = {}
    orig = style.analyse_pgn

    def spy(path, filters, games):
        captured["filters"] = filters
        return orig(path, filters, games)

    argv = ["style.py", f"--pgn={pgn_path}", f"--player={case['player']}"] + [f"--{f}" for f in case["flags"]]
    if case.get("limit"):
        argv.append(f"--games={case['limit']}")
    if case.get("verbose"):
        argv.append("--verbose")
    out = io.StringIO()
    exc = None
    old_argv = sys.argv
    style.analyse_pgn = spy
    try:
        sys.argv = argv
        with contextlib.redirect_stdout(out):
            style.main()
    except (ZeroDivisionError, AssertionError, IndexError) as e:
        exc = type(e).__name__
    except BaseException as e:
        exc = "other:" + type(e).__name__ + ":" + str(e)[:80]
    finally:
        sys.argv = old_argv
        style.analyse_pgn = orig
    filters = [(name, stats) for name, stats, _ in captured.get("filters", [])]
    return filters, out.getvalue(), exc, argv


def show_list(lst):
    return f"{len(lst)}|" + ",".join(f"{i}:{int(v)}" for i, v in enumerate(lst) if v != 0)


def show_stats(style, st):
    parts = []
    for f in dataclasses.fields(style.Stats):
        v = getattr(st, f.name)
        parts.append(f"{f.name}={show_list(v) if isinstance(v, list) else int(v)}")
    return " ".join(parts)


def parse_r(tok):
    """model result token -> ('ok', Fraction|None) | ('err', class)"""
    if tok == "none":
        return ("ok", None)
    if tok.startswith("ok:"):
        n, d = tok[3:].split("/")
        return ("ok", Fraction(int(n), int(d)))
    if tok.startswith("err:"):
        return ("err", tok[4:])
    raise ValueError(tok)


def same_result(py, model, tol=1e-9):
    if py[0] != model[0]:
        return False
    if py[0] == "err":
        return py[1] == model[1]
    if py[1] is None or model[1] is None:
        return py[1] is None and model[1] is None
    if isinstance(py[1], bool) or not isinstance(py[1], (int, float)):
        return False
    if not math.isfinite(py[1]):
        return False
    return abs(Fraction(py[1]) - model[1]) < Fraction(tol)


FEATURE_NAMES = {
    "agg": [("Game_length", "feature_game_length"), ("Capture_early", "feature_capture_early"),
            ("Capture_near_king", "feature_capture_near_king"), ("Move_near_king", "feature_move_near_king"),
            ("Castle_opposite", "feature_castle_opposite"), ("Push_pawns", "feature_push_pawns"),
            ("Checks", "feature_checks"), ("Win_while_behind", "feature_wins_behind"),
            ("Capture_frequency", "feature_capture_frequency"),
            ("Push_pawns_towards_king", "feature_push_pawn_towards_king"),
            ("Rook/Queen_threats_on_king", "feature_rook_threats"),
            ("Bishop/Queen_threats_on_king", "feature_bishop_threats")],
    "pos": [("Game_length", "feature_game_length"), ("Capture_early", "feature_capture_early")],
    "pawn": [("Placeholder", "feature_placeholder")],
}


# --------------------------------------------------------------------------------------------------
# one case
# --------------------------------------------------------------------------------------------------
def run_case(style, sdrv, case, tmpdir, feats):
    """-> (mismatches [str], property_failures [str], observation dict)"""
    mism, prop = [], []
    obs = {}
    pgn_text = pgn_of(case)
    pgn_path = os.path.join(tmpdir, f"case_{case['id']}.pgn")
    with open(pgn_path, "w") as fh:
        fh.write(pgn_text)
    case["pgn"] = pgn_text
    case["pgn_path"] = pgn_path

    filters, stdout, exc, argv = run_main(style, pgn_path, case)
    obs["argv"] = argv
    obs["main_exception"] = exc
    obs["stdout"] = stdout
    in_domain = all(len(g["moves"]) < 1024 for g in case["games"])
    obs["in_domain"] = in_domain

    # ---- the model on the same jobs, in the order of analyse_pgn
    sdrv.ask("resetall")
    model_analyse_err = None
    failed_filter = None
    wf_bad = []
    for gi, fi, white_side in job_sequence(case):
        g = case["games"][gi]
        line = game_line(g, white_side)
        if len(g["moves"]) < 1024:
            if sdrv.ask("wf " + line) != "1":
                wf_bad.append((gi, white_side))
        sdrv.ask(f"use {fi}")
        a = sdrv.ask("game " + line)
        if a != "ok":
            model_analyse_err = a.split()[1]
            failed_filter = fi
            break
    if wf_bad:
        mism.append(f"wfGame false on legal in-domain games {wf_bad}")
    obs["model_analyse_error"] = model_analyse_err

    if len(filters) != len(case["flags"]):
        mism.append(f"main built {len(filters)} filters, expected {len(case['flags'])}")
        return mism, prop, obs

    # ---- expected outcome of main according to the model
    model_main_exc = model_analyse_err
    model_lines = []
    if model_analyse_err is None:
        for fi in range(len(case["flags"])):
            sdrv.ask(f"use {fi}")
            a = sdrv.ask("main")
            model_lines.append(a)
            if a.startswith("err"):
                model_main_exc = a.split()[1]
                break
    obs["model_main"] = model_lines
    if exc != model_main_exc:
        mism.append(f"main raised {exc}, model says {model_main_exc}")

    # ---- per filter: stats, is_valid, features, scores
    obs["filters"] = []
    for fi, (name, st) in enumerate(filters):
        fo = {"name": name}
        obs["filters"].append(fo)
        sdrv.ask(f"use {fi}")
        if fi == failed_filter:
            # python's Stats object was mutated half-way through the failing analyse_game: not comparable
            fo["skipped"] = "analysis raised"
            continue
        py_stats = show_stats(style, st)
        md_stats = sdrv.ask("stats")
        if py_stats != md_stats:
            pf = dict(x.split("=", 1) for x in py_stats.split())
            mf = dict(x.split("=", 1) for x in md_stats.split())
            diff = [k for k in pf if pf.get(k) != mf.get(k)] + [k for k in mf if k not in pf]
            mism.append(f"filter {name}: Stats differ in {diff}")
            fo["stats_python"] = py_stats
            fo["stats_model"] = md_stats
        pv = call(style.is_valid, st)
        mv = sdrv.ask("valid").split()
        mv = ("ok", mv[1] == "1") if mv[0] == "ok" else ("err", mv[1])
        if pv != mv:
            mism.append(f"filter {name}: is_valid {pv} vs model {mv}")
        fo["is_valid"] = pv[1] if pv[0] == "ok" else pv
        # features
        mfe = dict(x.split("=", 1) for x in sdrv.ask("features").split())
        for grp, lst in FEATURE_NAMES.items():
            for mname, pname in lst:
                fpy = call(feats[grp][pname], st)
                fmd = parse_r(mfe[f"{grp}/{mname}"])
                if not same_result(fpy, fmd):
                    mism.append(f"filter {name}: feature {grp}/{pname}: python {fpy} vs model {fmd}")
        # scores
        msc = dict(x.split("=", 1) for x in sdrv.ask("scores").split())
        fo["scores"] = {}
        for grp, fn in (("agg", style.get_aggression_score), ("pos", style.get_positional_score),
                        ("pawn", style.get_pawn_pusher_score)):
            spy_ = call(fn, st)
            smd = parse_r(msc[grp])
            fo["scores"][grp] = spy_[1] if spy_[0] == "ok" else f"raises {spy_[1]}"
            if not same_result(spy_, smd):
                mism.append(f"filter {name}: score {grp}: python {spy_} vs model {smd}")
            # ---- the property itself (oracle)
            if in_domain:
                if spy_[0] == "err":
                    prop.append(f"filter {name}: {fn.__name__} raises {spy_[1]}")
                elif spy_[1] is None:
                    if st.num_games != 0:
                        prop.append(f"filter {name}: {fn.__name__} returned None with {st.num_games} games")
                elif not (isinstance(spy_[1], (int, float)) and math.isfinite(spy_[1]) and 0.0 <= spy_[1] <= 1.0):
                    prop.append(f"filter {name}: {fn.__name__} = {spy_[1]!r} outside [0,1]")
        if in_domain and pv != ("ok", True):
            prop.append(f"filter {name}: is_valid = {pv}")

    if in_domain and exc is not None:
        prop.append(f"style.py aborts with {exc}")

    # ---- printed scores of main against the model (3 decimals)
    if exc is None and model_main_exc is None:
        printed = [ln.split()[-1] for ln in stdout.splitlines()
                   if ln.startswith("- Aggressive") or ln.startswith("- Positional") or ln.startswith("- Pawn pusher")]
        expect = []
        for a in model_lines:
            if a == "none":
                continue
            for tk in a.split():
                r = parse_r(tk)
                expect.append(None if r[1] is None else r[1])
        if len(printed) != len(expect):
            mism.append(f"main printed {len(printed)} scores, model expects {len(expect)}")
        else:
            for ptxt, q in zip(printed, expect):
                if q is None:
                    ok = ptxt == "None"
                else:
                    try:
                        ok = abs(Fraction(ptxt) - q) <= Fraction(6, 10000)
                    except ValueError:
                        ok = False
                if not ok:
                    mism.append(f"main printed {ptxt}, model {q}")
        nog = stdout.count("No games found")
        if nog != sum(1 for a in model_lines if a == "none"):
            mism.append("'No games found' count differs from the model")
    return mism, prop, obs


def run_cli(style_path, case):
    env = dict(os.environ)
    env["PYTHONPATH"] = STUB + (os.pathsep + env["PYTHONPATH"] if env.get("PYTHONPATH") else "")
    argv = [sys.executable, style_path, f"--pgn={case['pgn_path']}", f"--player={case['player']}"]
    argv += [f"--{f}" for f in case["flags"]]
    if case.get("limit"):
        argv.append(f"--games={case['limit']}")
    if case.get("verbose"):
        argv.append("--verbose")
    r = subprocess.run(argv, env=env, capture_output=True, text=True, timeout=120)
    last = r.stderr.strip().splitlines()[-1] if r.stderr.strip() else ""
    return r.returncode, r.stdout, last


# --------------------------------------------------------------------------------------------------
# IEEE-754 exploration on the real functions
# --------------------------------------------------------------------------------------------------
def ieee_probe(style, rng, budget):
    """boundary Stats for which the exact value of a feature is 1 (or the weighted mean is 1): does a
    rounding error trip `assert(0.0 <= value and value <= 1.0)`?  -> (probes, failures[list of dict])"""
    fails = []
    probes = 0
    ns = list(range(1, 2001)) + [10 ** k for k in range(4, 7)] + [10 ** k - 1 for k in range(4, 7)] + \
         [10 ** k + 1 for k in range(4, 7)] + [3 ** k for k in range(7, 13)] + [7 ** k for k in range(4, 8)]
    while len(ns) < budget:
        ns.append(rng.randint(1, 10 ** 6))
    ns = ns[:max(budget, 1)]
    for n in ns:
        for fam in ("short", "long", "mixed"):
            st = style.Stats()
            st.num_games = n
            st.num_wins = n
            st.num_win_behind = n
            if fam == "short":
                st.short_games = n
                st.early_captures = n
            elif fam == "long":
                st.long_games = n
                st.late_captures = n
            else:
                a = rng.randint(0, n)
                st.short_games, st.long_games = a, n - a
                st.early_captures, st.late_captures = n - a, a
            st.total_captures = n
            st.total_noncaptures = n
            st.total_moves = 2 * n
            st.checks = 2 * n
            st.capture_distance[1] = n
            st.noncapture_distance[1] = n
            st.castle_opposite = n
            st.total_pawn_pushes = n
            st.total_pawn_pushes_towards_king = n
            st.num_rook_threats = 2 * n
            st.num_bishop_threats = 2 * n
            st.game_length[1] = n
            for fn in (style.get_aggression_score, style.get_positional_score, style.get_pawn_pusher_score):
                probes += 1
                r = call(fn, st)
                bad = r[0] == "err" or r[1] is None or not (math.isfinite(r[1]) and 0.0 <= r[1] <= 1.0)
                if bad:
                    fails.append({"n": n, "family": fam, "function": fn.__name__, "outcome": list(map(str, r))})
    return probes, fails


# --------------------------------------------------------------------------------------------------
def build_cases(gen, rng, total_games, with_out_of_domain):
    """-> list of cases; every case is a game set with player names, filter flags and an optional cut."""
    cases = []
    used = 0
    cid = 0
    families = ["mixed", "mixed", "mixed", "zero_moves", "nocap", "nocap_side", "nopawn", "short_only", "no_wins",
                "all_wins", "single", "pawnstorm", "captures", "castle", "one_ply", "queentrade", "big"]

    def names(kind):
        # (white, black): the analysed player is "P"
        return {"w": ("P", "X"), "b": ("X", "P"), "both": ("P", "P"), "none": ("X", "Y")}[kind]

    fam_i = 0
    while used < total_games:
        fam = families[fam_i % len(families)]
        fam_i += 1
        n = {"single": 1, "big": rng.randint(20, 40), "zero_moves": rng.randint(1, 4),
             "one_ply": rng.randint(1, 3)}.get(fam, rng.randint(2, 9))
        n = min(n, total_games - used)
        games = []
        for _ in range(n):
            result = rng.choice(RESULTS)
            nk = rng.choices(["w", "b", "both", "none"], [45, 40, 10, 5])[0]
            if fam == "zero_moves":
                g = gen.game("uniform", 0)
            elif fam == "one_ply":
                g = gen.game("uniform", rng.choice([1, 1, 2]))
            elif fam == "nocap":
                g = gen.game("nocap", random_length(rng))
            elif fam == "nocap_side":
                nk = rng.choice(["w", "b"])
                g = gen.game("nocap_white" if nk == "w" else "nocap_black", random_length(rng))
            elif fam == "nopawn":
                g = gen.game("nopawn", random_length(rng))
            elif fam == "short_only":
                g = gen.game(rng.choice(["uniform", "captures"]), rng.randint(0, 79))
            elif fam == "pawnstorm":
                g = gen.game("pawnstorm", rng.randint(20, 160))
            elif fam == "captures":
                g = gen.game("captures", random_length(rng))
            elif fam == "castle":
                g = gen.game("castle", rng.randint(10, 120))
            elif fam == "queentrade":
                g = gen.game("queentrade", rng.randint(10, 150))
            else:
                g = gen.game(rng.choice(POLICIES), random_length(rng))
            if fam == "no_wins":
                result = rng.choice(["1/2-1/2", "0-1" if nk in ("w", "both") else "1-0"])
            if fam == "all_wins":
                nk = rng.choice(["w", "b"])
                result = "1-0" if nk == "w" else "0-1"
            if fam == "mixed" and rng.random() < 0.08:
                # skipped by analyse_pgn: anything that is not exactly one of the three scored results (fragments of them included)
                result = rng.choice(["*", "*", "1/2", "1-0 ", "0-1/2", "1-00-1", "1", "-", "1/2-1/2 ", "0-11/2"])
            g["white"], g["black"] = names(nk)
            g["result"] = result
            games.append(g)
        used += n
        flags = [f for f in FILTER_FLAGS if rng.random() < 0.6] or ["all"]
        if fam in ("zero_moves", "nocap", "nopawn", "single", "one_ply"):
            flags = FILTER_FLAGS[:]
        case = {"id": cid, "family": fam, "player": "P", "flags": flags, "games": games}
        if rng.random() < 0.15:
            case["limit"] = rng.randint(1, max(1, 2 * n))
        if rng.random() < 0.2:
            case["verbose"] = True
        cases.append(case)
        cid += 1
    # game lengths exactly at, just below and just above every ply threshold the tool uses (bucket boundaries)
    for n in (0, 1, 29, 30, 31, 39, 40, 41, 49, 50, 51, 59, 60, 61, 69, 70, 71, 79, 80, 81, 99, 100, 101, 139, 140, 141):
        for side in ("w", "b"):
            g = shuffle_game(n)
            g["white"], g["black"] = ("P", "X") if side == "w" else ("X", "P")
            g["result"] = rng.choice(RESULTS)
            cases.append({"id": cid, "family": "boundary_length", "player": "P", "flags": ["all"], "games": [g]})
            cid += 1
    if with_out_of_domain:
        for n in (1024, 1030):
            g = shuffle_game(n)
            g["white"], g["black"], g["result"] = "P", "X", "1/2-1/2"
            g2 = gen.game("uniform", 40)
            g2["white"], g2["black"], g2["result"] = "X", "P", "1-0"
            cases.append({"id": cid, "family": "out_of_domain", "player": "P", "flags": ["all", "white"],
                          "games": [g2, g]})
            cid += 1
        g = shuffle_game(1023)      # the longest in-domain game
        g["white"], g["black"], g["result"] = "P", "X", "1/2-1/2"
        cases.append({"id": cid, "family": "longest", "player": "P", "flags": ["all"], "games": [g]})
        cid += 1
    return cases


def write_replay(seed, case, kind, reasons, obs):
    os.makedirs(REPLAYS, exist_ok=True)
    path = os.path.join(REPLAYS, f"style_s{seed}_c{case['id']}_{kind}.json")
    doc = {
        "property": "C20", "kind": kind, "seed": seed, "case": case["id"], "family": case["family"],
        "reasons": reasons,
        "how_to_replay": "write `pgn` to a file; PYTHONPATH=/verif/pystub python3 /repo/tools/style/style.py "
                         "--pgn=<file> --player=" + case["player"] + " " + " ".join("--" + f for f in case["flags"])
                         + (f" --games={case['limit']}" if case.get("limit") else ""),
        "player": case["player"], "flags": case["flags"], "limit": case.get("limit"),
        "pgn": case.get("pgn"),
        "games": [{"white": g["white"], "black": g["black"], "result": g["result"], "policy": g["policy"],
                   "moves": g["moves"]} for g in case["games"]],
        "model_jobs": [{"game": gi, "filter": case["flags"][fi], "white_side": ws,
                        "styledriver_line": "game " + game_line(case["games"][gi], ws)
                        if len(case["games"][gi]["plies"]) <= 200 else "(long; rebuild from moves)"}
                       for gi, fi, ws in job_sequence(case)],
        "observed": {k: v for k, v in obs.items() if k != "stdout"},
        "stdout": obs.get("stdout", "")[-4000:],
    }
    with open(path, "w") as fh:
        json.dump(doc, fh, indent=1, default=str)
    return path


def main():
    ap = argparse.ArgumentParser(description="C20 correspondence + oracle harness for tools/style/style.py")
    ap.add_argument("--seed", type=int, default=1)
    ap.add_argument("--games", type=int, default=200)
    ap.add_argument("--out", type=str, default=None, help="evidence fragment (JSON) to write")
    ap.add_argument("--style", type=str, default=DEFAULT_STYLE)
    ap.add_argument("--driver", type=str, default=DEFAULT_DRIVER)
    ap.add_argument("--styledriver", type=str, default=DEFAULT_STYLEDRIVER)
    ap.add_argument("--cli-cases", type=int, default=6, help="cases also run as a subprocess")
    ap.add_argument("--ieee", type=int, default=2500, help="number of n values in the IEEE exploration")
    ap.add_argument("--variant", choices=["auto", "current", "guarded"], default="auto",
                    help="which text of the script the Lean model is instantiated with: `current` = unguarded "
                         "divisions (the repository as first found), `guarded` = with the zero guards of the "
                         "proposed fix; `auto` probes the real script with a capture-less Stats")
    ap.add_argument("--no-out-of-domain", action="store_true")
    ap.add_argument("--keep", action="store_true", help="keep the temporary PGN files")
    args = ap.parse_args()

    t0 = time.time()
    rng = random.Random(args.seed)
    style, chess = load_style(args.style)
    feats = {"agg": nested_features(style, style.get_aggression_score),
             "pos": nested_features(style, style.get_positional_score),
             "pawn": nested_features(style, style.get_pawn_pusher_score)}
    for grp, lst in FEATURE_NAMES.items():
        missing = [p for _, p in lst if p not in feats[grp]]
        if missing:
            raise SystemExit(f"style_corr: feature functions not found in the script: {grp} {missing}")
    variant = args.variant
    if variant == "auto":
        probe = style.Stats()
        probe.num_games = probe.num_draws = probe.short_games = 1
        probe.game_length[0] = 1
        variant = "current" if call(style.get_aggression_score, probe) == ("err", "ZeroDivisionError") else "guarded"
    drv = Proc(args.driver)
    sdrv = Proc(args.styledriver)
    if sdrv.ask("variant " + variant) != "ok":
        raise SystemExit("style_corr: styledriver does not know `variant`")
    gen = Gen(drv, chess, rng)
    tmpdir = tempfile.mkdtemp(prefix="style_corr_")

    cases = build_cases(gen, rng, args.games, not args.no_out_of_domain)
    t_gen = time.time() - t0

    fails = []
    n_mis = n_prop = 0
    plies_total = 0
    families = {}
    cli_done = 0
    cli_bad = []
    failing_inputs = []
    if gen.stub_mismatches:
        dummy = {"id": "stub", "family": "stub-validation", "player": "P", "flags": [], "games": []}
        path = write_replay(args.seed, dummy, "model-mismatch", ["python-chess stand-in disagrees with the Lean driver"],
                            {"stub_mismatches": gen.stub_mismatches[:20]})
        fails.append(("model-mismatch", path))
        n_mis += 1
    for case in cases:
        families[case["family"]] = families.get(case["family"], 0) + 1
        plies_total += sum(len(g["moves"]) for g in case["games"])
        mism, prop, obs = run_case(style, sdrv, case, tmpdir, feats)
        if cli_done < args.cli_cases and case["family"] != "out_of_domain":
            cli_done += 1
            rc, out, last = run_cli(args.style, case)
            obs["cli"] = {"exit": rc, "stderr_last_line": last}
            if (rc == 0) != (obs["main_exception"] is None) or out != obs["stdout"]:
                mism.append(f"subprocess run differs from in-process run (exit {rc}, {last})")
                cli_bad.append(case["id"])
        if mism:
            n_mis += 1
            fails.append(("model-mismatch", write_replay(args.seed, case, "model-mismatch", mism, obs)))
        if prop:
            n_prop += 1
            fails.append(("property", write_replay(args.seed, case, "property", prop, obs)))
            failing_inputs.append({"case": case["id"], "family": case["family"], "reasons": prop[:4]})

    probes, ieee_fails = ieee_probe(style, rng, args.ieee) if args.ieee > 0 else (0, [])
    if ieee_fails:
        dummy = {"id": "ieee", "family": "ieee-754", "player": "P", "flags": [], "games": []}
        fails.append(("property", write_replay(args.seed, dummy, "property",
                                               ["range assertion / score outside [0,1] in IEEE arithmetic"],
                                               {"ieee_failures": ieee_fails[:50]})))
        n_prop += 1

    drv.close()
    sdrv.close()
    if not args.keep:
        shutil.rmtree(tmpdir, ignore_errors=True)

    elapsed = time.time() - t0
    evidence = {
        "property": "C20", "tool": "tools/style_corr.py", "seed": args.seed, "model_variant": variant,
        "games": sum(len(c["games"]) for c in cases), "cases": len(cases), "families": families,
        "half_moves": plies_total,
        "stub_plies_compared_with_lean_driver": gen.plies_compared,
        "stub_mismatches": len(gen.stub_mismatches),
        "driver_requests": drv.n, "styledriver_requests": sdrv.n,
        "subprocess_runs": cli_done, "subprocess_disagreements": cli_bad,
        "model_mismatch_cases": n_mis, "property_failure_cases": n_prop,
        "property_failures": failing_inputs[:40],
        "ieee_probes": probes, "ieee_failures": len(ieee_fails),
        "seconds": round(elapsed, 2), "seconds_generation": round(t_gen, 2),
        "failing_replays": [p for _, p in fails],
    }
    if args.out:
        with open(args.out, "w") as fh:
            json.dump(evidence, fh, indent=1)
    for kind, path in fails:
        print(f"FAIL kind={kind} case={path}")
    print(f"style_corr: variant={variant} seed={args.seed} games={evidence['games']} cases={len(cases)} half-moves={plies_total} "
          f"stub-plies-compared={gen.plies_compared} stub-mismatches={len(gen.stub_mismatches)} "
          f"model-mismatch-cases={n_mis} property-failure-cases={n_prop} ieee-probes={probes} "
          f"ieee-failures={len(ieee_fails)} time={elapsed:.1f}s", file=sys.stderr)
    sys.exit(0 if not fails else 1)


if __name__ == "__main__":
    main()
