#!/usr/bin/env python3
"""Mutation self-test of tools/rust2lean_session.py + lean/Rawr/Proofs/RustSessionAgree*.lean.

For each single-token / single-statement mutation of a Rust function of the UCI SESSION layer (uci/listen.rs, uci/go.rs
`info_printer` / `go`, uci/perft.rs, uci/split.rs, `Display for Position` / `Colour`, `Position::startpos`), applied to a
scratch COPY of the repo sources (never /repo): re-run the translator (RAWR_REPO = the copy, output into a PRIVATE copy of
the lake project) and rebuild the agreement theorems.  A mutant is DETECTED when the translator reports TRANSLATE-ERROR or
an agreement file no longer compiles.  Every behaviour-changing mutant ("B") must be detected; behaviour-neutral ones
("N": redundant statements, values that the canonicalisation removes, dead output of the `mate` field, reordering of
arms with distinct patterns) may or may not be flagged (the agreement is syntactic, so most are).

usage: rust2lean_session_selftest.py [--repo /repo] [--lean /tmp/agents/t3/lean] [--translator tools/rust2lean_session.py]
                                     [--work /tmp/rust2lean_session_selftest] [--only N,M,..] [--timeout 900] [--jobs 4]
The lake project given by --lean is modified (Rawr/Generated/RustSession.lean) and restored at the end; with --jobs > 1
further private copies of it are made under --work.  Never point --lean at the shared /verif/lean.
"""
import argparse
import os
import shutil
import subprocess
import sys
import threading
import time

HERE = os.path.dirname(os.path.abspath(__file__))
TARGETS = ["Rawr.Proofs.RustSessionAgree_Canon", "Rawr.Proofs.RustSessionAgree_Words", "Rawr.Proofs.RustSessionAgree_Display",
           "Rawr.Proofs.RustSessionAgree_Info", "Rawr.Proofs.RustSessionAgree_Perft", "Rawr.Proofs.RustSessionAgree_Go",
           "Rawr.Proofs.RustSessionAgree_Lines", "Rawr.Proofs.RustSessionAgree_Step", "Rawr.Proofs.RustSessionAgree_Listen",
           "Rawr.Proofs.RustSessionAgree_Rules", "Rawr.Proofs.RustSessionAgree_GoRules"]

LI, GO, PF, SP, POS, COL = ("src/uci/listen.rs", "src/uci/go.rs", "src/uci/perft.rs", "src/uci/split.rs",
                            "src/chess/position.rs", "src/chess/colour.rs")

FIRST_HASH = ('                "Hash" | "hash" => {\n                    if let Ok(size) = value.parse::<usize>() {\n'
              '                        hash = size.clamp(1, 4096);\n                    }\n                }')
SECOND_HASH = ('                        hash = size.clamp(1, 4096);\n                        tt.resize(hash);')

# (file, old text, new text, kind)   kind: "B" behaviour-changing (must be detected), "N" behaviour-neutral
M = [
    # ---- uci/listen.rs: the banner and the initial state
    (LI, "let mut hash = 16;", "let mut hash = 32;", "B"),
    (LI, "let mut is_frc = false;", "let mut is_frc = true;", "B"),
    (LI, 'println!("id author kz04px");', 'println!("id author kz04p");', "B"),
    (LI, '    println!("uciok");\n', "", "B"),
    (LI, '    println!("id author kz04px");\n    println!("option name UCI_Chess960 type check default {}", is_frc);',
     '    println!("option name UCI_Chess960 type check default {}", is_frc);\n    println!("id author kz04px");', "B"),
    (LI, "min 1 max 4096\");", "min 1 max 4095\");", "B"),
    (LI, "let mut history = vec![pos.hash];", "let mut history = vec![];", "B"),
    (LI, "Hashtable::<TTEntry>::new(0)", "Hashtable::<TTEntry>::new(1)", "N"),       # resized before its first use
    (LI, 'Position::from_fen("startpos")', 'Position::from_fen("startpos ")', "B"),
    # ---- the first loop
    (LI, "            Ok(0) => break,\n            Ok(_) => {}\n            Err(_) => break,\n        }\n\n        let mut stream = input",
     "            Ok(0) => return,\n            Ok(_) => {}\n            Err(_) => break,\n        }\n\n        let mut stream = input", "N"),
    (LI, "                got_isready = true;\n                break;", "                break;", "B"),
    (LI, FIRST_HASH, FIRST_HASH.replace('"Hash" | "hash"', '"Hash"'), "B"),
    (LI, FIRST_HASH, FIRST_HASH.replace("clamp(1, 4096)", "clamp(1, 2048)"), "B"),
    (LI, FIRST_HASH, FIRST_HASH.replace("clamp(1, 4096)", "clamp(0, 4096)"), "B"),
    (LI, FIRST_HASH, FIRST_HASH.replace("parse::<usize>()", "parse::<u8>()"), "B"),
    (LI, 'is_frc = value == "true";', 'is_frc = value == "True";', "B"),
    (LI, "                    is_frc = value == \"true\";\n                    pos.is_frc = is_frc;\n                }\n                _ => {}\n            }),\n            \"quit\" => return,",
     "                    is_frc = value == \"true\";\n                }\n                _ => {}\n            }),\n            \"quit\" => return,", "B"),
    (LI, '"UCI_Chess960" => {', '"UCI_Chess96" => {', "B"),
    (LI, '"quit" => return,', '"quit" => break,', "B"),
    (LI, "            _ => {\n                break;\n            }", "            _ => {}", "B"),
    (LI, '            "isready" => {\n                got_isready = true;', '            "isread" => {\n                got_isready = true;', "B"),
    # ---- between the loops
    (LI, "    tt.resize(hash);\n    if got_isready {", "    if got_isready {", "B"),
    (LI, "    if got_isready {\n        println!(\"readyok\");", "    if !got_isready {\n        println!(\"readyok\");", "B"),
    (LI, "    tt.resize(hash);\n    if got_isready {\n        println!(\"readyok\");\n    }",
     "    if got_isready {\n        println!(\"readyok\");\n    }\n    tt.resize(hash);", "N"),
    # ---- the second loop
    (LI, "        if got_isready {\n            input.clear();", "        if !got_isready {\n            input.clear();", "B"),
    (LI, "        got_isready = true;\n\n        let mut stream: std", "        let mut stream: std", "B"),
    (LI, "            input.clear();\n            match std::io::stdin().read_line(&mut input) {\n                Ok(0) => break,",
     "            match std::io::stdin().read_line(&mut input) {\n                Ok(0) => break,", "B"),
    (LI, "                pos = Position::startpos();\n                pos.is_frc = is_frc;", "                pos = Position::startpos();", "B"),
    (LI, "                history.push(pos.hash);\n                tt.clear();", "                history.push(pos.hash);", "B"),
    (LI, "                tt.clear();", "                if is_frc {\n                    tt.clear();\n                }", "B"),
    (LI, "                history.clear();\n                history.push(pos.hash);\n                tt.clear();",
     "                history.push(pos.hash);\n                tt.clear();", "B"),
    (LI, "                history.clear();\n                history.push(pos.hash);\n                tt.clear();",
     "                history.clear();\n                tt.clear();", "B"),
    (LI, "                pos = Position::startpos();", "                pos = Position::from_fen(\"startpos\");", "N"),
    (LI, '"isready" => println!("readyok"),', '"isready" => println!("readyOk"),', "B"),
    (LI, '"print" | "display" | "board"', '"print" | "display"', "B"),
    (LI, 'print!("{pos}")', 'println!("{pos}")', "B"),
    (LI, "                position::position(&mut stream, &mut pos, &mut history);\n                pos.is_frc = is_frc;",
     "                position::position(&mut stream, &mut pos, &mut history);", "N"),   # pos.is_frc == is_frc is an invariant
    (LI, '"moves" => moves::moves(', '"move" => moves::moves(', "B"),
    (LI, SECOND_HASH, "                        hash = size.clamp(1, 4096);", "B"),
    (LI, SECOND_HASH, SECOND_HASH.replace("clamp(1, 4096)", "clamp(1, 1024)"), "B"),
    (LI, SECOND_HASH, "                        tt.resize(size);\n                        hash = size.clamp(1, 4096);", "B"),
    (LI, "                    is_frc = value == \"true\";\n                    pos.is_frc = is_frc;\n                }\n                _ => {}\n            }),\n            \"history\"",
     "                    is_frc = value == \"true\";\n                }\n                _ => {}\n            }),\n            \"history\"", "B"),
    (LI, 'println!("{:#x}", hash)', 'println!("{:x}", hash)', "B"),
    (LI, "history.iter().for_each(", "history.iter().rev().for_each(", "B"),
    (LI, 'println!("{}", eval(&pos))', 'println!("{}", -eval(&pos))', "B"),
    (LI, '            "quit" => break,\n            _ => {}\n        }\n    }\n}', '            "quit" => {}\n            _ => {}\n        }\n    }\n}', "B"),
    (LI, '            "quit" => break,\n            _ => {}\n        }\n    }\n}', '            "quit" => break,\n            _ => break,\n        }\n    }\n}', "B"),
    (LI, '            "eval" => println!("{}", eval(&pos)),\n            "quit" => break,',
     '            "quit" => break,\n            "eval" => println!("{}", eval(&pos)),', "N"),
    (LI, '"go" => go::go(&mut stream, &mut pos, &mut history, &mut tt),', '"go" => {}', "B"),
    (LI, '"ucinewgame" => {', '"newgame" => {', "B"),
    # ---- uci/go.rs: info_printer
    (GO, 'print!("info");', 'print!("Info");', "B"),
    (GO, 'print!(" depth {d}");', 'print!(" dept {d}");', "B"),
    (GO, '    if let Some(d) = info.depth {\n        print!(" depth {d}");\n    }\n    if let Some(d) = info.seldepth {\n        print!(" seldepth {d}");\n    }',
     '    if let Some(d) = info.seldepth {\n        print!(" seldepth {d}");\n    }\n    if let Some(d) = info.depth {\n        print!(" depth {d}");\n    }', "B"),
    (GO, 'if let Some(d) = info.seldepth {', 'if let Some(d) = info.depth {\n        print!(" depth {d}");\n    }\n    if let Some(d) = info.depth {', "B"),
    (GO, 'print!(" score cp {s}");', 'print!(" score {s}");', "B"),
    (GO, 'print!(" score mate {s}");', 'print!(" mate {s}");', "N"),                  # `mate` is never set by root.rs
    (GO, 'print!(" nodes {n}");', 'print!(" node {n}");', "B"),
    (GO, 'print!(" time {t}");', 'print!(" tim {t}");', "B"),
    (GO, "        if t > 0 {", "        if t >= 0 {", "B"),                              # division by zero
    (GO, "(n as u128 * 1000) / t", "(n as u128 * 100) / t", "N"),                       # the nps value is canonicalised away
    (GO, 'print!(" nps {}",', 'print!(" knps {}",', "B"),
    (GO, 'print!(" hashfull {hashfull}");', 'print!(" hashful {hashfull}");', "B"),
    (GO, "if !info.pv.is_empty() {", "if info.pv.is_empty() {", "B"),
    (GO, 'print!(" pv");', 'print!(" PV");', "B"),
    (GO, 'print!(" {}", mv.to_uci(&info.pos))', 'print!("{}", mv.to_uci(&info.pos))', "B"),
    (GO, "        }\n    }\n    println!();\n}", "        }\n    }\n}", "B"),
    # ---- uci/go.rs: go
    (GO, "if opts.is_err() {", "if opts.is_ok() {", "B"),
    (GO, 'Ok(mv) => println!("bestmove {}", mv.to_uci(pos)),', 'Ok(mv) => println!("bestmov {}", mv.to_uci(pos)),', "B"),
    (GO, 'Err(_) => println!("bestmove 0000"),', 'Err(_) => println!("bestmove (none)"),', "B"),
    (GO, "settings::Type::Perft(depth) => perft::perft(pos, *depth),", "settings::Type::Perft(depth) => split::split(pos, *depth),", "B"),
    (GO, "settings::Type::SplitPerft(depth) => split::split(pos, *depth),", "settings::Type::SplitPerft(depth) => perft::perft(pos, *depth),", "B"),
    (GO, "        | settings::Type::Infinite => {", "        => {\n        }\n        settings::Type::Infinite => {", "B"),
    (GO, "            match bestmove {\n                Ok(mv)", "            match bestmove {\n                Ok(mv) if false => {}\n                Ok(mv)", "N"),   # TRANSLATE-ERROR
    # ---- uci/perft.rs
    (PF, "for i in 1..=depth {", "for i in 1..depth {", "B"),
    (PF, "for i in 1..=depth {", "for i in 0..=depth {", "B"),
    (PF, "let nodes = pos.perft(i);", "let nodes = pos.perft(depth);", "B"),
    (PF, "if !dt.is_zero() {", "if dt.is_zero() {", "N"),                                 # only `nps` changes
    (PF, '"info depth {i} nodes {nodes} time {} nps {}"', '"info depth {i} node {nodes} time {} nps {}"', "B"),
    (PF, 'println!("info depth {i} nodes {nodes} time {}", dt.as_millis());', 'println!("info depth {i} nodes {nodes}");', "B"),
    (PF, "if i == depth {", "if i != depth {", "B"),
    (PF, 'println!("nodes {nodes}");', 'println!("nodes: {nodes}");', "B"),
    (PF, "                nps as u64\n", "                nps as u64 + 1\n", "N"),          # TRANSLATE-ERROR or canonicalised
    # ---- uci/split.rs
    (SP, "pos.after_move::<false>(&mv)", "pos.after_move::<true>(&mv)", "N"),             # the count does not depend on the key
    (SP, "depth.saturating_sub(1)", "depth.saturating_sub(2)", "B"),
    (SP, "        total += nodes;\n", "", "B"),
    (SP, 'println!("{} {nodes}", mv.to_uci(pos));', 'println!("{}: {nodes}", mv.to_uci(pos));', "B"),
    (SP, 'println!("{} {nodes}", mv.to_uci(pos));', 'println!("{} {total}", mv.to_uci(pos));', "B"),
    (SP, '    println!("time {}", elapsed.as_millis());\n', "", "B"),
    (SP, 'println!("nodes {total}");', 'println!("total {total}");', "B"),
    (SP, '    println!("time {}", elapsed.as_millis());\n    println!("nodes {total}");', '    println!("nodes {total}");\n    println!("time {}", elapsed.as_millis());', "B"),
    (SP, 'println!("nps {}", nps);', 'println!("NPS {}", nps);', "B"),
    (SP, "let moves = pos.legal_moves();", "let moves = pos.legal_captures();", "B"),
    # ---- chess/position.rs: Display
    (POS, "        let npos = if self.turn == Colour::White {\n            *self", "        let npos = if self.turn == Colour::Black {\n            *self", "B"),
    (POS, "        for y in (0..8).rev() {\n            for x in 0..8 {\n                let idx = Square(8 * y + x);", "        for y in 0..8 {\n            for x in 0..8 {\n                let idx = Square(8 * y + x);", "B"),
    (POS, "            for x in 0..8 {\n                let idx = Square(8 * y + x);", "            for x in 0..7 {\n                let idx = Square(8 * y + x);", "B"),
    (POS, "let idx = Square(8 * y + x);", "let idx = Square(8 * x + y);", "B"),
    (POS, 'write!(f, "P")?;', 'write!(f, "p")?;', "B"),
    (POS, "} else if npos.get_knights().is_set(idx) {", "} else if npos.get_bishops().is_set(idx) {", "B"),
    (POS, '                    if npos.get_white().is_set(idx) {\n                        write!(f, "Q")?;', '                    if npos.get_black().is_set(idx) {\n                        write!(f, "Q")?;', "B"),
    (POS, 'write!(f, "-")?;', 'write!(f, ".")?;', "B"),
    (POS, "                }\n            }\n            writeln!(f)?;\n        }", "                }\n            }\n        }", "B"),
    (POS, 'writeln!(f, "Turn: {}", self.turn)?;', 'writeln!(f, "Side: {}", self.turn)?;', "B"),
    (POS, 'writeln!(f, "Check: {}", self.in_check())?;', 'writeln!(f, "Check: {}", self.in_check_them())?;', "B"),
    (POS, 'writeln!(f, "Halfmoves: {}", npos.halfmoves)?;', 'writeln!(f, "Halfmoves: {}", npos.fullmoves)?;', "B"),
    (POS, 'writeln!(f, "Fullmoves: {}", npos.fullmoves)?;', 'writeln!(f, "Fullmoves: {}", self.fullmoves)?;', "N"),   # flip keeps the counters
    (POS, "        if npos.ep.is_some() {\n            writeln!(f, \"EP: {}\"", "        if npos.ep.is_none() {\n            writeln!(f, \"EP: {}\"", "B"),
    (POS, 'writeln!(f, "EP: -")?;', 'writeln!(f, "EP: none")?;', "B"),
    (POS, 'writeln!(f, "EP: {}", npos.ep.unwrap())?;', 'writeln!(f, "EP: {}", self.ep.unwrap())?;', "B"),
    (POS, "if !npos.us_ksc && !npos.us_qsc && !npos.them_ksc && !npos.them_qsc {\n            writeln!", "if !npos.us_ksc && !npos.us_qsc && !npos.them_ksc {\n            writeln!", "B"),
    (POS, "('A' as u8 + self.castle_files[0]) as char", "('A' as u8 + self.castle_files[1]) as char", "B"),
    (POS, "('a' as u8 + self.castle_files[2]) as char", "('A' as u8 + self.castle_files[2]) as char", "B"),
    (POS, "            if npos.them_ksc {\n                write!(f, \"{}\", ('a'", "            if npos.us_ksc {\n                write!(f, \"{}\", ('a'", "B"),
    (POS, 'writeln!(f, "Hash: {:#x}", self.hash)?;', 'writeln!(f, "Hash: {}", self.hash)?;', "B"),
    (POS, '        writeln!(f, "FRC: {}", self.is_frc)?;\n', "", "B"),
    (POS, 'writeln!(f, "FRC: {}", self.is_frc)?;', 'writeln!(f, "FRC: {}", npos.is_frc)?;', "N"),   # flip keeps the flag
    # ---- chess/colour.rs: Display
    (COL, 'Colour::White => write!(f, "White")?,', 'Colour::White => write!(f, "white")?,', "B"),
    (COL, 'Colour::Black => write!(f, "Black")?,', 'Colour::Black => write!(f, "White")?,', "B"),
    # ---- chess/position.rs: startpos
    (POS, "colours: [Bitboard(0xFFFF), Bitboard(0xFFFF000000000000)],", "colours: [Bitboard(0xFFFE), Bitboard(0xFFFF000000000000)],", "B"),
    (POS, "            halfmoves: 0,\n            fullmoves: 1,\n            turn: Colour::White,\n            ep: None,\n            us_ksc: true,",
     "            halfmoves: 1,\n            fullmoves: 1,\n            turn: Colour::White,\n            ep: None,\n            us_ksc: true,", "B"),
    (POS, "            hash: 0x3adfd94b38170629,", "            hash: 0x3adfd94b38170628,", "B"),
    # ---- constructs outside the translated subset: TRANSLATE-ERROR
    (LI, "    loop {\n        input.clear();", "    while true {\n        input.clear();", "N"),
    (SP, "Some((total as f64 / elapsed.as_secs_f64()) as u64)", "Some((total as f64 / elapsed.as_secs_f32() as f64) as u64)", "N"),
]


def run(cmd, cwd, env, timeout):
    try:
        r = subprocess.run(cmd, cwd=cwd, env=env, stdout=subprocess.PIPE, stderr=subprocess.STDOUT, text=True, timeout=timeout)
        return r.returncode, r.stdout
    except subprocess.TimeoutExpired as ex:
        out = ex.stdout or ""
        if isinstance(out, bytes):
            out = out.decode(errors="replace")
        return 124, out + "\nTIMEOUT"


class Worker:
    def __init__(self, a, lean, scratch, targets):
        self.a, self.lean, self.scratch, self.targets = a, lean, scratch, targets
        self.out_file = os.path.join(lean, "Rawr", "Generated", "RustSession.lean")

    def translate_and_check(self, repo):
        env = dict(os.environ, RAWR_REPO=repo, RAWR_SESSION_OUT=self.out_file, RAWR_VERIF=os.path.dirname(self.lean))
        rc, out = run([sys.executable, self.a.translator], self.lean, env, 180)
        if rc == 3:
            return "TRANSLATE-ERROR", out.strip().splitlines()[-1][:150]
        if rc != 0:
            return "TRANSLATOR-CRASH", out.strip()[-300:]
        rc, out = run(["lake", "build"] + self.targets, self.lean, dict(os.environ), self.a.timeout)
        if rc != 0:
            errs = [l for l in out.splitlines() if "error" in l]
            return "PROOF-FAILS", (errs[0] if errs else out[-200:])[:150]
        return "OK", ""

    def mutant(self, i, f, old, new, kind, baseline):
        orig = open(os.path.join(self.a.repo, f)).read()
        if orig.count(old) < 1:
            return (i, kind, "PATTERN-NOT-FOUND", 0.0, f"{f}: {old[:50]!r}", "")
        open(os.path.join(self.scratch, f), "w").write(orig.replace(old, new, 1))
        t1 = time.time()
        st, msg = self.translate_and_check(self.scratch)
        if st == "OK" and open(self.out_file).read() == baseline:
            st = "OK(same Lean text)"
        open(os.path.join(self.scratch, f), "w").write(orig)
        first = [l for l in old.strip().splitlines() if l.strip()]
        firstn = [l for l in new.strip().splitlines() if l.strip()]
        diff = next((a.strip() + " -> " + b.strip() for a, b in zip(first, firstn) if a != b), None)
        desc = diff or (first[0].strip()[:48] + " -> " + ("<statement removed>" if len(firstn) < len(first) else "<statement added>"))
        return (i, kind, st, time.time() - t1, f"{os.path.basename(f):12s} {desc[:100]}", msg)


def main():
    ap = argparse.ArgumentParser()
    ap.add_argument("--repo", default=os.environ.get("RAWR_REPO", "/repo"))
    ap.add_argument("--lean", default="/tmp/agents/t3/lean")
    ap.add_argument("--translator", default=os.path.join(HERE, "rust2lean_session.py"))
    ap.add_argument("--work", default="/tmp/rust2lean_session_selftest")
    ap.add_argument("--only", default="")
    ap.add_argument("--timeout", type=int, default=900)
    ap.add_argument("--jobs", type=int, default=1)
    a = ap.parse_args()
    if os.path.realpath(a.lean) == os.path.realpath("/verif/lean"):
        sys.exit("refusing to run in the shared /verif/lean: give a private copy with --lean")
    if os.path.realpath(a.work).startswith(os.path.realpath(a.repo) + os.sep) or os.path.realpath(a.work) == os.path.realpath(a.repo):
        sys.exit("refusing to work inside the repository")
    targets = [t for t in TARGETS if os.path.exists(os.path.join(a.lean, t.replace(".", "/") + ".lean"))]
    shutil.rmtree(a.work, ignore_errors=True)
    os.makedirs(a.work)
    workers = []
    for k in range(max(1, a.jobs)):
        scratch = os.path.join(a.work, f"repo{k}")
        os.makedirs(scratch)
        shutil.copytree(os.path.join(a.repo, "src"), os.path.join(scratch, "src"))
        lean = a.lean
        if k > 0:
            lean = os.path.join(a.work, f"v{k}", "lean")
            shutil.copytree(a.lean, lean, symlinks=True)
        workers.append(Worker(a, lean, scratch, targets))
    t0 = time.time()
    st, msg = workers[0].translate_and_check(a.repo)
    baseline = open(workers[0].out_file).read()
    print(f"baseline: {st} {msg} ({time.time() - t0:.0f}s)", flush=True)
    if st != "OK":
        sys.exit(1)
    for w in workers[1:]:
        st, msg = w.translate_and_check(a.repo)
        if st != "OK":
            sys.exit(f"baseline fails in {w.lean}: {msg}")
    only = {int(x) for x in a.only.split(",") if x}
    todo = [(i, *m) for i, m in enumerate(M, 1) if not only or i in only]
    results, lock = [], threading.Lock()

    def loop(w):
        while True:
            with lock:
                if not todo:
                    return
                job = todo.pop(0)
            r = w.mutant(*job, baseline)
            with lock:
                results.append(r)
                i, kind, st, dt, desc, msg = r
                print(f"{i:3d} [{kind}] {st:18s} {dt:4.0f}s  {desc}   {msg}", flush=True)
    threads = [threading.Thread(target=loop, args=(w,)) for w in workers]
    for t in threads:
        t.start()
    for t in threads:
        t.join()
    st, msg = workers[0].translate_and_check(a.repo)
    print(f"restored: {st} {msg}", flush=True)
    results.sort()
    b = [r for r in results if r[1] == "B"]
    n = [r for r in results if r[1] == "N"]

    def det(r):
        return not r[2].startswith("OK")
    print(f"behaviour-changing mutants: {sum(map(det, b))}/{len(b)} detected "
          f"(TRANSLATE-ERROR {sum(r[2] == 'TRANSLATE-ERROR' for r in b)}, PROOF-FAILS {sum(r[2] == 'PROOF-FAILS' for r in b)})")
    print(f"behaviour-neutral mutants:  {sum(map(det, n))}/{len(n)} flagged "
          f"(same Lean text {sum(r[2] == 'OK(same Lean text)' for r in n)})")
    bad = [r[0] for r in results if r[2] in ("PATTERN-NOT-FOUND", "TRANSLATOR-CRASH")]
    if bad:
        print("PATTERN-NOT-FOUND / TRANSLATOR-CRASH:", bad)
    missed = [r[0] for r in b if not det(r)]
    if missed:
        print("MISSED:", missed)
    if missed or bad:
        sys.exit(1)


if __name__ == "__main__":
    main()
