#!/bin/bash
# Measure which lines of /repo the QUICK tier of all checks actually executes (not a registered check; a tool to find
# blind spots of the generators). Needs the nightly toolchain's llvm-tools (present in this sandbox).
#   tools/coverage.sh            -> prints an llvm-cov report for in-process (hx) and process-level (rawr) runs
set -e
V=$(cd "$(dirname "$0")/.." && pwd)
T=$(dirname "$(find ~/.rustup/toolchains/nightly-*/lib/rustlib -name llvm-profdata | head -1)")
D=$V/.build/cov; mkdir -p $D/dump; rm -f $D/dump/* $D/*.profraw
for i in 01 02 03 04 05 06 07 08 09 10 11 12 13 14 15 16 17 18 19; do VERIF_DUMP_REQS=$D/dump $V/check C$i > /dev/null 2>&1 || true; done
(cd $V/harness && RUSTFLAGS="-C instrument-coverage" cargo +nightly build --release --offline --target-dir $D/target > /dev/null 2>&1)
(cd ${RAWR_REPO:-/repo} && RUSTFLAGS="-C instrument-coverage" cargo +nightly build --release --offline --target-dir $D/rawr > /dev/null 2>&1)
LLVM_PROFILE_FILE=$D/hx-%p.profraw $D/target/release/hx < $D/dump/hx_requests.txt > /dev/null 2>&1 || true
python3 - "$D" <<'PY'
import json, os, subprocess, sys
D = sys.argv[1]
for l in open(os.path.join(D, "dump", "scripts.jsonl")):
    sc = json.loads(l)
    try:
        subprocess.run([os.path.join(D, "rawr/release/rawr")], input="uci\n" + ("\n".join(sc) + "\n" if sc else ""), text=True,
                       stdout=subprocess.DEVNULL, stderr=subprocess.DEVNULL, timeout=40, env=dict(os.environ, LLVM_PROFILE_FILE=os.path.join(D, "rawr-%p.profraw")))
    except subprocess.TimeoutExpired:
        pass
PY
$T/llvm-profdata merge -sparse $D/hx-*.profraw -o $D/hx.profdata
$T/llvm-profdata merge -sparse $D/rawr-*.profraw -o $D/rawr.profdata
echo "== in-process (hx), files under src/chess and src/search"
$T/llvm-cov report $D/target/release/hx -instr-profile=$D/hx.profdata --ignore-filename-regex='(\.cargo|rustc|library|harness)' 2>/dev/null | cut -c1-30,100-140
echo "== process level (rawr binary), src/uci and main.rs"
$T/llvm-cov report $D/rawr/release/rawr -instr-profile=$D/rawr.profdata --ignore-filename-regex='(\.cargo|rustc|library)' 2>/dev/null | grep -E 'uci/|main.rs|root.rs|TOTAL' | cut -c1-30,100-140
rm -f $D/*.profraw
