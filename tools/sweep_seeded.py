#!/usr/bin/env python3
"""Regression sweep over seeded/: every kept change is applied (to a scratch worktree, --repo) and the checks named in its
meta.json `caught_by` are run; prints one line per change: still caught? with a concrete replay?
usage: tools/sweep_seeded.py --repo /tmp/trial/repo [ids…]"""
import json, os, re, subprocess, sys
VERIF = os.path.dirname(os.path.dirname(os.path.abspath(__file__)))
def main():
    args = sys.argv[1:]
    repo = None
    if "--repo" in args:
        i = args.index("--repo"); repo = args[i + 1]; del args[i:i + 2]
    ids = args or sorted(os.listdir(os.path.join(VERIF, "seeded")))
    bad = 0
    for mid in ids:
        d = os.path.join(VERIF, "seeded", mid)
        if not os.path.exists(os.path.join(d, "patch.diff")):
            continue
        meta = json.load(open(os.path.join(d, "meta.json"))) if os.path.exists(os.path.join(d, "meta.json")) else {}
        cb = meta.get("caught_by") or []
        if isinstance(cb, str):
            cb = [cb]
        props = []
        for c in cb:
            m = re.match(r"(C\d\d)", c)
            if m and "corr" not in c and m.group(1) not in props:
                props.append(m.group(1))
        if not props:
            props = [m.group(1) for c in cb for m in [re.match(r"(C\d\d)", c)] if m][:1]
        if not props and re.match(r"C\d\d", str(meta.get("property", ""))):
            props = [meta["property"][:3]]
        if not props:
            print(mid, "SKIP (no caught_by)", flush=True)
            continue
        cmd = [sys.executable, os.path.join(VERIF, "tools", "trial.py"), os.path.join(d, "patch.diff")] + (["--repo", repo] if repo else []) + props[:2]
        out = subprocess.run(cmd, capture_output=True, text=True).stdout.strip().splitlines()
        try:
            r = json.loads(out[-1])["results"]
        except Exception:
            print(mid, "ERROR", out[-3:], flush=True)
            bad += 1
            continue
        summ = []
        for p, v in r.items():
            concrete = any(l.startswith("VIOLATION") and "no-failing-input-found" not in l for l in v["lines"])
            summ.append(f"{p}:{'concrete' if concrete else ('corr-only' if v['rc'] == 1 else 'MISSED')}({v['secs']}s)")
            if v["rc"] != 1:
                bad += 1
        print(mid, " ".join(summ), flush=True)
    print("sweep done; not caught:", bad)
if __name__ == "__main__":
    main()
