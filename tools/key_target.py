#!/usr/bin/env python3
"""C04 / C18: positions whose Zobrist key is a SPECIAL value (0 = what an empty table slot holds, 1, 2^64-1).

The key is a XOR of table entries, so "a position with key T" is a subset-XOR problem: pick one candidate man (colour, kind) for every
square, solve the 64 x 62 system over GF(2) for the subset whose keys XOR to T, and keep the solution when it is a legal-looking
position (<= 16 men a side, <= 8 pawns, officers beyond the initial set paid for by missing pawns, no pawn on the end ranks, the side
not to move not in check - the caller filters by the validity predicate anyway). Then a predecessor is derived by taking back one quiet
officer move of the side that has just moved, so that the special key is REACHED by make-move (incremental update), not only set up.

usage: key_target.py --target 0 --seconds 60 [--seed N]     ->  JSON lines {"target":…, "fen_before":…, "move":…, "fen_after":…}
Uses the CURRENT zobrist.rs (RAWR_REPO). A cache keyed by the fingerprint of the key table lives next to this file
(key_target_cache.json) so that the quick tier does not pay for the search while the table is unchanged.
"""
import hashlib
import json
import os
import random
import sys
import time

sys.path.insert(0, os.path.dirname(os.path.abspath(__file__)))
import extract  # noqa: E402

W, B = 0, 1
P, N, Bi, R, Q, K = range(6)
LET = "PNBRQK"


def load():
    src = extract.strip_comments(extract.read("src/chess/zobrist.rs"))
    keys = [int(k) for k in extract.num_array(src, "KEYS", 768, "zobrist.rs")]
    _, turn = extract.const_block(src, "KEYS_TURN", "zobrist.rs")
    turn = int(extract.num(turn.strip().rstrip(";").strip()))
    fp = hashlib.sha256((",".join(map(str, keys)) + "|" + str(turn)).encode()).hexdigest()[:16]
    return keys, turn, fp


def solve(vecs, target):
    """subset of vecs (list of 64-bit ints) with XOR == target, as a bit mask over indices, or None"""
    basis = {}                       # pivot bit -> (vector, combination mask)
    for i, v in enumerate(vecs):
        m = 1 << i
        while v:
            h = v.bit_length() - 1
            if h in basis:
                bv, bm = basis[h]
                v ^= bv
                m ^= bm
            else:
                basis[h] = (v, m)
                break
    m, v = 0, target
    while v:
        h = v.bit_length() - 1
        if h not in basis:
            return None
        bv, bm = basis[h]
        v ^= bv
        m ^= bm
    return m


def attacked(board, sq, by):
    f, r = sq % 8, sq // 8
    for s, (c, p) in board.items():
        if c != by:
            continue
        sf, sr = s % 8, s // 8
        df, dr = f - sf, r - sr
        if p == P:
            if abs(df) == 1 and dr == (1 if by == W else -1):
                return True
        elif p == N:
            if sorted((abs(df), abs(dr))) == [1, 2]:
                return True
        elif p == K:
            if max(abs(df), abs(dr)) == 1:
                return True
        else:
            diag, orth = abs(df) == abs(dr) and df != 0, (df == 0) != (dr == 0)
            if (diag and p in (Bi, Q)) or (orth and p in (R, Q)):
                stf, str_ = (df > 0) - (df < 0), (dr > 0) - (dr < 0)
                x, y, clear = sf + stf, sr + str_, True
                while (x, y) != (f, r):
                    if 8 * y + x in board:
                        clear = False
                        break
                    x, y = x + stf, y + str_
                if clear:
                    return True
    return False


def material_ok(board):
    for c in (W, B):
        cnt = [0] * 6
        for s, (cc, p) in board.items():
            if cc == c:
                cnt[p] += 1
        extra = max(0, cnt[N] - 2) + max(0, cnt[Bi] - 2) + max(0, cnt[R] - 2) + max(0, cnt[Q] - 1)
        if cnt[P] > 8 or extra > 8 - cnt[P] or sum(cnt) > 16:
            return False
    return True


def fen(board, side):
    rows = []
    for r in range(7, -1, -1):
        row, e = "", 0
        for f in range(8):
            x = board.get(8 * r + f)
            if x is None:
                e += 1
            else:
                ch = LET[x[1]]
                row += (str(e) if e else "") + (ch if x[0] == W else ch.lower())
                e = 0
        rows.append(row + (str(e) if e else ""))
    return "/".join(rows) + (" w" if side == W else " b") + " - - 7 30"


def takebacks(board, mover):
    """(predecessor board, from, to): one quiet officer move of `mover` taken back"""
    out = []
    for s, (c, p) in board.items():
        if c != mover or p in (P, K):
            continue
        steps = {N: [(1, 2), (2, 1), (-1, 2), (-2, 1), (1, -2), (2, -1), (-1, -2), (-2, -1)]}.get(p)
        dirs = [(1, 1), (1, -1), (-1, 1), (-1, -1)] * (p in (Bi, Q)) + [(1, 0), (-1, 0), (0, 1), (0, -1)] * (p in (R, Q))
        targets = []
        if steps:
            for df, dr in steps:
                f, r = s % 8 + df, s // 8 + dr
                if 0 <= f < 8 and 0 <= r < 8 and 8 * r + f not in board:
                    targets.append(8 * r + f)
        for df, dr in dirs:
            f, r = s % 8 + df, s // 8 + dr
            while 0 <= f < 8 and 0 <= r < 8 and 8 * r + f not in board:
                targets.append(8 * r + f)
                f, r = f + df, r + dr
        for t in targets:
            b2 = dict(board)
            del b2[s]
            b2[t] = (c, p)
            out.append((b2, t, s))
    return out


def search(keys, turn, target, seconds, seed):
    rnd = random.Random(seed)
    t0 = time.time()
    key = lambda c, p, s: keys[c * 384 + p * 64 + s]
    while time.time() - t0 < seconds:
        side = rnd.choice((W, B))                      # side to move in the target position
        wk = rnd.choice([4, 6, 2, 1, 5, 14, 12, 7, 0, 3, 10])
        bk = rnd.choice([60, 62, 58, 57, 61, 54, 52, 63, 56, 59, 50])
        cands = []
        for s in range(64):
            if s in (wk, bk):
                continue
            r = s // 8
            c = W if rnd.random() < [0.85, 0.8, 0.75, 0.6, 0.4, 0.25, 0.2, 0.15][r] else B
            p = P if 1 <= r <= 6 and rnd.random() < 0.55 else rnd.choices([N, Bi, R, Q], [3, 3, 3, 1.2])[0]
            cands.append((s, c, p))
        base = key(W, K, wk) ^ key(B, K, bk) ^ (turn if side == B else 0)
        m = solve([key(c, p, s) for s, c, p in cands], target ^ base)
        if m is None:
            continue
        board = {wk: (W, K), bk: (B, K)}
        for i, (s, c, p) in enumerate(cands):
            if m >> i & 1:
                board[s] = (c, p)
        if not material_ok(board):
            continue
        mover = B if side == W else W                   # the side that has just moved must not be in check now
        if attacked(board, wk if mover == W else bk, side):
            continue
        for b2, frm, to in takebacks(board, mover):
            # in the predecessor the side NOT to move (= `side`) must not be in check
            if attacked(b2, wk if side == W else bk, mover):
                continue
            sq = lambda x: "abcdefgh"[x % 8] + str(x // 8 + 1)
            return {"target": target, "fen_before": fen(b2, mover), "move": sq(frm) + sq(to), "fen_after": fen(board, side)}
    return None


def main():
    import argparse
    ap = argparse.ArgumentParser()
    ap.add_argument("--target", type=int, action="append")
    ap.add_argument("--seconds", type=float, default=30)
    ap.add_argument("--seed", type=int, default=1)
    ap.add_argument("--no-cache", action="store_true")
    a = ap.parse_args()
    keys, turn, fp = load()
    cache_path = os.path.join(os.path.dirname(os.path.abspath(__file__)), "key_target_cache.json")
    try:
        cache = json.load(open(cache_path))
    except Exception:
        cache = {}
    out = []
    for t in a.target or [0]:
        ck = f"{fp}:{t}"
        if ck in cache and not a.no_cache:
            out.append(dict(cache[ck], cached=True))
            continue
        r = search(keys, turn, t, a.seconds, a.seed)
        if r:
            out.append(r)
    for r in out:
        print(json.dumps(r))


if __name__ == "__main__":
    main()
