#!/usr/bin/env python3
"""Python -> Lean translator for the pure / numeric part of /repo/tools/style/style.py   (property C20).

Regenerates lean/Rawr/Generated/PyStyle.lean (namespace Rawr.PyStyle) from the CURRENT text of the script on every
run.  The script is parsed with Python's own `ast` module; every definition below `namespace Rawr.PyStyle` (after the
fixed library prelude `Rawr.PyStyle.Py`) is obtained by walking that AST: operators, constants, comparison directions,
guard conditions, bucket boundaries, weights, statement order and evaluation order all flow from the Python text.
`lean/Rawr/Proofs/PyStyleAgree*.lean` proves  `PyStyle.<fn> = <model function of Rawr/Model/Style.lean>`.

    RAWR_REPO   (default /repo)               the repository;  the script is $RAWR_REPO/tools/style/style.py
    RAWR_VERIF  (default parent of tools/)    output root;     writes $RAWR_VERIF/lean/Rawr/Generated/PyStyle.lean
    RAWR_PYSTYLE_OUT                          overrides the output file

Unknown / unsupported AST nodes raise TranslateError: exit status 3 and one line `TRANSLATE-ERROR ...` (never a silent
skip).

TRANSLATED (everything is generated from the AST)
  class Stats                 the field list (names, order, `int = 0` / list defaults `[0 for _ in range(..)]`) as
                              `Stats.default` (built with the positional constructor of the MODEL's structure: a field
                              more, fewer or of another type does not type-check) and `Stats.fieldNames`
  Stats.add_capture, add_noncapture, add_pawn_push, finish_game, queens_off
  is_valid
  get_aggression_score        and its 13 nested feature_* functions, the `features` list (weights, names, order), the
  get_positional_score        scoring loop with its asserts, the scaling, AND the `if verbose:` loop (its `print`
  get_pawn_pusher_score       calls are reduced to the evaluation of their arguments)
  get_material_score
  analyse_game                whole body: the move loop, the castling / imbalance / result bookkeeping, both `raise`s
  analyse_pgn                 ONLY the per-job statements of the innermost loop (`analyse_game(..); count += 1;
                              assert(is_valid(stats))`) as `analyse_pgn.job`
  main                        ONLY the `styles` list and the per-filter report statements (from `if stats.num_games
                              <= 0` to the end of the `for name, func in styles` loop) as `main.styles`, `main.report`
NOT TRANSLATED (deliberately; said here so that nothing is skipped silently)
  print_text                  dead code (its only call site is commented out); pure print formatting
  analyse_pgn                 `open`, `chess.pgn.read_game`, the header presence tests, the filter predicates and the
                              `--games` cut-off: file / PGN input.  The model's `analysePgn` takes the list of
                              (game, side) jobs that reach `analyse_game` for ONE filter.
  main                        argparse, the filter construction (lambdas over PGN headers), print formatting
  docstrings, comments, type annotations of locals, the message text of `raise RuntimeError(..)`, f-string layout

REPRESENTATION (the same as the model's)
  int counters / indices      Nat;  a subtraction yields Int (`abs` brings it back to Nat);  an Int list index goes
                              through `Py.getAtI` / `Py.augAddI` (Python's negative indexing)
  float                       Style.Q (exact rationals, unnormalised): `0.25` = `Q.dec 25 100`, `4.0` = `Q.nat 4`
                              (from the literal's source text); `+ *` = Q.add / Q.mul, `/` = Q.div (ZeroDivisionError),
                              `<=` = Q.le, `min` = Q.min; an int operand of a float operation is coerced with Q.nat
  list[int]                   List Nat; `l[i]` = Style.getAt (IndexError), `l[i] += v` = Py.augAdd, `l[k:]` = List.drop
  exceptions                  a function in which nothing can raise is a plain function; otherwise it returns
                              `Except Style.PyErr _` (ZeroDivisionError / AssertionError / IndexError); a function
                              that (transitively) contains `raise RuntimeError` returns `Except Py.Exc _`
  mutation                    `self.f += e`, `stats.method(..)`, `analyse_game(.., stats)` rebind the variable; a function
                              that mutates a parameter returns its final value.  `obj.f += v` is `Stats.aug_f obj v` and the
                              store of `obj.l[i] += v` is `Stats.set_l obj _` (one-line definitions emitted per field)
  control flow                statements are compiled in continuation-passing style: `if c: return ..` guards become
                              `if c then .. else <rest>`; an `if` followed by more statements binds the variables assigned
                              in its branches (`let x := if ..`; several variables: a tuple and its projections);
                              `for` = `List.foldlM` / `List.foldl` over the loop-carried variables (those assigned in
                              the body and bound before the loop); the body of a loop that carries several variables
                              is emitted as its own definition `<fn>.loopK_body <captured> <state> <item>`
  evaluation order            effectful subexpressions are bound (`let t ← ..`) left to right, as Python evaluates them;
                              `and` / `or` / conditional expressions with effectful operands short-circuit

THE TRUSTED PART: the table CHESS_MAP below maps the python-chess calls of `analyse_game` / `get_material_score` to the
fields of the model's annotation records (`Style.Ply`, `Style.Game`, `Style.PieceCounts`).
"""
import ast
import os
import sys

HERE = os.path.dirname(os.path.abspath(__file__))
REPO = os.environ.get("RAWR_REPO", "/repo")
VERIF = os.environ.get("RAWR_VERIF", os.path.dirname(HERE))
SRC = os.path.join(REPO, "tools", "style", "style.py")
OUT = os.environ.get("RAWR_PYSTYLE_OUT", os.path.join(VERIF, "lean", "Rawr", "Generated", "PyStyle.lean"))


class TranslateError(Exception):
    pass


def te(node, msg):
    line = getattr(node, "lineno", "?")
    raise TranslateError(f"style.py line {line}: {msg}")


# ==================================================================================================
# THE TRUSTED MAPPING: python-chess  ->  the model's annotation records
# ==================================================================================================
# An annotated game (Style.Game) records, for every ply, exactly what analyse_game asks python-chess for.  `board`
# is the Board created by `chess.Board(fen)` from the game's own FEN header (or the standard start); it goes through
# three phases:  'pre'  = inside the move loop before `board.push(move)` (the position in which `move` is played),
#                'post' = inside the move loop after `board.push(move)`,
#                'final'= after the loop (the position at the end of the game).
# `{p}` is the Style.Ply of the current iteration, `{g}` the Style.Game, `{C}` a translated colour expression,
# `{b}` a Py.CountBoard (white counts, black counts).  Patterns are Python source; `C` matches any expression.
CHESS_MAP = [
    # pattern                                       phase     Lean term                                         type
    ("board.turn",                                  "pre",    "{p}.turn",                                       "Color"),
    ("board.turn",                                  "post",   "(!{p}.turn)",                                    "Color"),
    ("move.to_square",                              None,     "{p}.to",                                         "Square"),
    ("move.from_square",                            None,     "{p}.frm",                                        "Square"),
    ("board.piece_type_at(move.from_square)",       "pre",    "{p}.piece",                                      "Kind"),
    # the annotation records only the king of the side NOT to move; `board.king(not X)` with X known to equal
    # `board.turn` (from an enclosing `if board.turn == X:`) is the same square
    ("board.king(not board.turn)",                  "pre",    "{p}.enemyKing",                                  "Square"),
    ("board.is_capture(move)",                      "pre",    "{p}.isCapture",                                  "Bool"),
    ("board.is_kingside_castling(move)",            "pre",    "{p}.ksCastle",                                   "Bool"),
    ("board.is_queenside_castling(move)",           "pre",    "{p}.qsCastle",                                   "Bool"),
    ("board.is_check()",                            "post",   "{p}.checkAfter",                                 "Bool"),
    ("len(board.pieces(chess.QUEEN, C))",           "pre",    "(if {C} == Style.WHITE then {p}.queensW else {p}.queensB)",   "Nat"),
    ("len(board.pieces(chess.ROOK, C))",            "pre",    "(if {C} == Style.WHITE then {p}.rooksW else {p}.rooksB)",     "Nat"),
    ("len(board.pieces(chess.KNIGHT, C))",          "pre",    "(if {C} == Style.WHITE then {p}.knightsW else {p}.knightsB)", "Nat"),
    ("len(board.pieces(chess.BISHOP, C))",          "pre",    "(if {C} == Style.WHITE then {p}.bishopsW else {p}.bishopsB)", "Nat"),
    # a Board handed to another function after the loop (get_material_score) is its pair of piece counts
    ("len(cboard.pieces(chess.PAWN, C))",           None,     "(Py.counts {b} {C}).pawns",                      "Nat"),
    ("len(cboard.pieces(chess.KNIGHT, C))",         None,     "(Py.counts {b} {C}).knights",                    "Nat"),
    ("len(cboard.pieces(chess.BISHOP, C))",         None,     "(Py.counts {b} {C}).bishops",                    "Nat"),
    ("len(cboard.pieces(chess.ROOK, C))",           None,     "(Py.counts {b} {C}).rooks",                      "Nat"),
    ("len(cboard.pieces(chess.QUEEN, C))",          None,     "(Py.counts {b} {C}).queens",                     "Nat"),
    ("game.headers['Result']",                      None,     "{g}.result",                                     "Result"),
    ("game.mainline_moves()",                       None,     "{g}.plies",                                      "ListPly"),
    ("chess.square_rank(C)",                        None,     "(Style.squareRank {C})",                         "Nat"),
    ("chess.square_file(C)",                        None,     "(Style.squareFile {C})",                         "Nat"),
    ("chess.square_distance(C, D)",                 None,     "(Style.squareDistance {C} {D})",                 "Nat"),
    ("chess.WHITE",                                 None,     "Style.WHITE",                                    "Color"),
    ("chess.BLACK",                                 None,     "Style.BLACK",                                    "Color"),
    ("chess.PAWN",                                  None,     "Style.PAWN",                                     "Kind"),
    ("chess.KNIGHT",                                None,     "Style.KNIGHT",                                   "Kind"),
    ("chess.BISHOP",                                None,     "Style.BISHOP",                                   "Kind"),
    ("chess.ROOK",                                  None,     "Style.ROOK",                                     "Kind"),
    ("chess.QUEEN",                                 None,     "Style.QUEEN",                                    "Kind"),
    ("chess.KING",                                  None,     "Style.KING",                                     "Kind"),
]
# statements / values with a fixed meaning:
#   fen = game.headers["FEN"] if "FEN" in game.headers else STANDARD_START       (exactly this expression)
#   board = chess.Board(fen)         the board of the annotated game before its first ply (the FEN text only feeds
#                                    python-chess: the variable is 'Opaque' and may only be passed to chess.Board)
#   board.push(move)                 phase 'pre' -> 'post'; the next iteration is 'pre' again; after the loop 'final'
#   <board in phase 'final'> passed as an argument       ({g}.finalWhite, {g}.finalBlack) : Py.CountBoard
#   game.headers["Result"] compared with / tested for membership among these strings:
STANDARD_START = "rnbqkbnr/pppppppp/8/8/8/8/PPPPPPPP/RNBQKBNR w KQkq - 0 1"
RESULT_STRINGS = {"1-0": "Style.Result.whiteWins", "0-1": "Style.Result.blackWins", "1/2-1/2": "Style.Result.draw"}
#   (any other string there cannot be expressed -> TRANSLATE-ERROR; analyse_pgn only lets these three through)
# parameter annotations:
PARAM_TYPES = {"int": "Nat", "float": "Q", "bool": "Bool", "str": "Str", "Stats": "Stats", "chess.Square": "Square",
               "chess.Color": "Color", "chess.Board": "CountBoard", "chess.pgn.Game": "Game"}
# (an `int` parameter is a Nat: every call site is translated and must pass a Nat-typed argument)
# ==================================================================================================

LEAN_KEYWORDS = {
    "at", "from", "have", "show", "fun", "let", "in", "if", "then", "else", "do", "end", "open", "namespace", "section",
    "def", "theorem", "match", "with", "where", "by", "local", "private", "instance", "structure", "class", "inductive",
    "universe", "variable", "import", "export", "mutual", "deriving", "macro", "syntax", "notation", "infix", "prefix",
    "postfix", "attribute", "noncomputable", "partial", "unsafe", "protected", "abbrev", "example", "axiom", "opaque",
    "extends", "for", "unless", "return", "try", "catch", "finally", "break", "continue", "mut", "nomatch", "nofun",
    "calc", "suffices", "using", "Type", "Prop", "Sort", "set_option", "then", "this", "termination_by", "decreasing_by"}


def lname(py):
    """Lean spelling of a Python local name."""
    if py == "_":
        return "_"
    return f"«{py}»" if py in LEAN_KEYWORDS else py


def camel(py):
    """Stats field name -> the model's field name (mechanical: num_win_ahead -> numWinAhead)."""
    parts = py.split("_")
    return parts[0] + "".join(p[:1].upper() + p[1:] for p in parts[1:])


def lean_type(t):
    if isinstance(t, str):
        return {"Nat": "Nat", "Int": "Int", "Q": "Style.Q", "Bool": "Bool", "Str": "String", "Stats": "Style.Stats",
                "Square": "Style.Square", "Color": "Style.Color", "Kind": "Nat", "Ply": "Style.Ply",
                "Game": "Style.Game", "Result": "Style.Result", "CountBoard": "Py.CountBoard", "Unit": "Unit"}[t]
    if t[0] == "List":
        return f"List ({lean_type(t[1])})" if not isinstance(t[1], str) else f"List {lean_type(t[1])}"
    if t[0] == "Tuple":
        return "(" + " × ".join(lean_type(x) for x in t[1]) + ")"
    if t[0] == "Opt":
        return f"Option {lean_type(t[1])}" if isinstance(t[1], str) else f"Option ({lean_type(t[1])})"
    if t[0] == "Fun":
        return "(" + " → ".join([lean_type(a) for a in t[1]] + [monad_type(t[3], t[2])]) + ")"
    raise TranslateError(f"internal: no Lean type for {t!r}")


def monad_type(tier, t):
    lt = lean_type(t)
    if tier == "pure":
        return lt
    if not (isinstance(t, str) or t[0] == "Tuple"):
        lt = f"({lt})"
    return ("Except Style.PyErr " if tier == "err" else "Except Py.Exc ") + lt


TIER_ORDER = {"pure": 0, "err": 1, "exc": 2}


def tier_of(effects):
    if "runtime" in effects:
        return "exc"
    return "err" if effects else "pure"


def ind(lines, n=2):
    return [" " * n + l for l in lines]


# ==================================================================================================
# module analysis
# ==================================================================================================
BUILTINS = {"len", "sum", "min", "max", "abs", "enumerate", "range", "print", "open", "Stats"}


class Fn:
    def __init__(self, qual, node, parent=None, is_method=False):
        self.qual, self.node, self.parent, self.is_method = qual, node, parent, is_method
        self.nested = []          # qualified names of nested functions, in source order
        self.params = []          # [(python name, type)]
        self.effects = None
        self.tier = None
        self.mutates = None       # name of the (single) mutated parameter
        self.ret = None           # result type (after compilation)
        self.body = None          # statement list to translate (a slice for analyse_pgn.job / main.report)


def unparse(n):
    return ast.unparse(n)


def dump(n):
    return ast.dump(n, annotate_fields=False, include_attributes=False)


class Module:
    TRANSLATED_TOP = ["is_valid", "get_aggression_score", "get_positional_score", "get_pawn_pusher_score",
                      "get_material_score", "analyse_game"]
    NOT_TRANSLATED = ["print_text"]          # see the docstring
    SLICED = ["analyse_pgn", "main"]

    def __init__(self, text):
        self.text = text
        self.tree = ast.parse(text)
        self.fns = {}
        self.order = []
        self.fields = []          # [(python name, type, default expr node)]
        self.stats_cls = None
        self.scan()

    # ---- top level -------------------------------------------------------------------------------
    def scan(self):
        for st in self.tree.body:
            if isinstance(st, (ast.Import, ast.ImportFrom)):
                continue
            if isinstance(st, ast.ClassDef):
                if st.name != "Stats":
                    te(st, f"unknown class {st.name}")
                self.scan_stats(st)
            elif isinstance(st, ast.FunctionDef):
                if st.name in self.TRANSLATED_TOP or st.name in self.SLICED:
                    self.add_fn(st.name, st, None, False)
                elif st.name in self.NOT_TRANSLATED:
                    continue
                else:
                    te(st, f"unknown top-level function {st.name} (neither translated nor listed as not translated)")
            elif (isinstance(st, ast.If) and dump(st.test) == dump(ast.parse("__name__ == '__main__'", mode="eval").body)
                  and len(st.body) == 1 and dump(st.body[0]) == dump(ast.parse("main()").body[0]) and not st.orelse):
                continue
            elif isinstance(st, ast.Expr) and isinstance(st.value, ast.Constant) and isinstance(st.value.value, str):
                continue
            else:
                te(st, f"unsupported top-level statement {type(st).__name__}")
        for name in self.TRANSLATED_TOP + self.SLICED:
            if name not in self.fns:
                raise TranslateError(f"function {name} not found in style.py")
        if self.stats_cls is None:
            raise TranslateError("class Stats not found")

    def add_fn(self, qual, node, parent, is_method):
        if node.decorator_list:
            te(node, f"decorator on {qual}")
        f = Fn(qual, node, parent, is_method)
        a = node.args
        if a.vararg or a.kwarg or a.kwonlyargs or a.posonlyargs:
            te(node, f"unsupported parameter kind in {qual}")
        for i, arg in enumerate(a.args):
            if is_method and i == 0:
                if arg.arg != "self":
                    te(node, "first parameter of a method must be self")
                f.params.append(("self", "Stats"))
                continue
            if arg.annotation is None:
                f.params.append((arg.arg, None))       # only for the sliced functions
                continue
            ann = unparse(arg.annotation)
            if ann not in PARAM_TYPES:
                te(node, f"unsupported parameter annotation {ann} in {qual}")
            f.params.append((arg.arg, PARAM_TYPES[ann]))
        for d in a.defaults:
            if not (isinstance(d, ast.Constant) and d.value is False):
                te(node, f"unsupported default value in {qual}")
        self.fns[qual] = f
        self.order.append(qual)
        f.body = list(node.body)
        if qual not in self.SLICED:
            for st in node.body:
                if isinstance(st, ast.FunctionDef):
                    if parent is not None:
                        te(st, "doubly nested function")
                    q = f"{qual}.{st.name}"
                    self.add_fn(q, st, qual, False)
                    f.nested.append(q)
            f.body = [st for st in node.body if not isinstance(st, ast.FunctionDef)]
        return f

    def scan_stats(self, cls):
        self.stats_cls = cls
        decs = [unparse(d) for d in cls.decorator_list]
        if decs != ["dataclass"] or cls.bases or cls.keywords:
            te(cls, "class Stats must be a plain @dataclass")
        for st in cls.body:
            if isinstance(st, ast.AnnAssign) and isinstance(st.target, ast.Name):
                ann = unparse(st.annotation)
                if ann == "int":
                    ty = "Nat"
                elif ann == "list[int]":
                    ty = ("List", "Nat")
                else:
                    te(st, f"unsupported field type {ann}")
                if st.value is None:
                    te(st, "field without default")
                self.fields.append((st.target.id, ty, st.value))
            elif isinstance(st, ast.FunctionDef):
                self.add_fn(f"Stats.{st.name}", st, None, True)
            elif isinstance(st, ast.Expr) and isinstance(st.value, ast.Constant) and isinstance(st.value.value, str):
                continue
            else:
                te(st, f"unsupported statement in class Stats: {type(st).__name__}")
        names = [camel(n) for n, _, _ in self.fields]
        if len(set(names)) != len(names):
            te(cls, "field names collide after renaming")
        self.field_type = {n: t for n, t, _ in self.fields}

    # ---- effects ---------------------------------------------------------------------------------
    def callee_quals(self, fn, call):
        """the translated functions a Call node may invoke (None: not a call of a translated function)."""
        f = call.func
        if isinstance(f, ast.Name):
            if fn.parent is None and f"{fn.qual}.{f.id}" in self.fns:
                return [f"{fn.qual}.{f.id}"]
            if f.id in self.fns:
                return [f.id]
            if f.id in BUILTINS:
                return None
            # a local variable holding a function (taken from a `features` / `styles` list): any translated
            # function that this function mentions as a value
            return self.func_values(fn)
        if isinstance(f, ast.Attribute) and f"Stats.{f.attr}" in self.fns and isinstance(f.value, ast.Name) \
                and f.value.id in ("self", "stats"):
            return [f"Stats.{f.attr}"]
        return None

    def func_values(self, fn):
        res = []
        callfuncs = {id(n.func) for st in fn.node.body for n in ast.walk(st) if isinstance(n, ast.Call)}
        for st in fn.node.body:
            if isinstance(st, ast.FunctionDef):
                continue
            for n in ast.walk(st):
                if isinstance(n, ast.Name) and isinstance(n.ctx, ast.Load) and id(n) not in callfuncs:
                    q = f"{fn.qual}.{n.id}" if f"{fn.qual}.{n.id}" in self.fns else (n.id if n.id in self.fns else None)
                    if q and q not in res:
                        res.append(q)
        return res

    def stmt_effects(self, fn, stmts, stack=()):
        eff = set()
        for st in stmts:
            for n in ast.walk(st):
                if isinstance(n, ast.FunctionDef):
                    te(n, "nested function in a statement position that is not translated")
                if isinstance(n, ast.Div):
                    eff.add("zd")
                elif isinstance(n, ast.Subscript) and not isinstance(n.slice, ast.Slice) \
                        and not (isinstance(n.value, ast.Attribute) and n.value.attr == "headers"):
                    eff.add("idx")
                elif isinstance(n, ast.Assert):
                    eff.add("assert")
                elif isinstance(n, ast.Raise):
                    eff.add("runtime")
                elif isinstance(n, ast.Call):
                    qs = self.callee_quals(fn, n)
                    for q in qs or []:
                        eff |= self.effects(q, stack + (fn.qual,))
        return eff

    def effects(self, qual, stack=()):
        fn = self.fns[qual]
        if fn.effects is not None:
            return fn.effects
        if qual in stack:
            raise TranslateError(f"recursion through {qual}")
        fn.effects = self.stmt_effects(fn, fn.body, stack)
        return fn.effects

    def analyse(self):
        for q in self.order:
            self.effects(q)
        for q in self.order:
            fn = self.fns[q]
            fn.tier = tier_of(fn.effects)
        for q in self.order:                      # nested siblings share one type (they sit in one list)
            fn = self.fns[q]
            if fn.nested:
                t = max((self.fns[n].tier for n in fn.nested), key=lambda x: TIER_ORDER[x])
                for n in fn.nested:
                    self.fns[n].tier = t
        for q in self.order:
            self.fns[q].mutates = self.mutated_param(self.fns[q])

    def mutated_param(self, fn, stack=()):
        if fn.qual in stack:
            return None
        muts = set()
        pnames = [p for p, _ in fn.params]
        for st in fn.body:
            for n in ast.walk(st):
                tgt = None
                if isinstance(n, ast.AugAssign):
                    tgt = n.target
                elif isinstance(n, ast.Assign):
                    for t in n.targets:
                        b = base_name(t)
                        if b in pnames and not isinstance(t, ast.Name):
                            muts.add(b)
                elif isinstance(n, ast.Call):
                    qs = self.callee_quals(fn, n)
                    for q in qs or []:
                        g = self.fns[q]
                        m = self.mutated_param(g, stack + (fn.qual,))
                        if m is None:
                            continue
                        if g.is_method:
                            muts.add(n.func.value.id)
                        else:
                            i = [p for p, _ in g.params].index(m)
                            if i < len(n.args) and isinstance(n.args[i], ast.Name):
                                muts.add(n.args[i].id)
                if tgt is not None and not isinstance(tgt, ast.Name):
                    b = base_name(tgt)
                    if b in pnames:
                        muts.add(b)
        muts &= set(pnames)
        if len(muts) > 1:
            te(fn.node, f"{fn.qual} mutates more than one parameter")
        return next(iter(muts)) if muts else None


def base_name(t):
    while isinstance(t, (ast.Attribute, ast.Subscript)):
        t = t.value
    return t.id if isinstance(t, ast.Name) else None


# ==================================================================================================
# expressions
# ==================================================================================================
class E:
    """a translated expression: `binds` (evaluated first, in order), then the pure Lean `term` of type `ty`;
    `prop` is the Prop spelling of a comparison (used directly under `if`)."""

    def __init__(self, binds, term, ty, prop=None):
        self.binds, self.term, self.ty, self.prop = binds, term, ty, prop


_PATTERNS = [(ast.parse(p, mode="eval").body, ph, t, ty) for p, ph, t, ty in CHESS_MAP]
_META = {"C", "D"}


class Comp:
    """compiler of one function."""

    def __init__(self, mod, fn):
        self.mod, self.fn = mod, fn
        self.tier = fn.tier
        self.ntemp = 0
        self.used = {n.id for n in ast.walk(fn.node) if isinstance(n, ast.Name)} | {a.arg for a in ast.walk(fn.node) if isinstance(a, ast.arg)}
        self.ret_opt = False

    # ---- helpers ---------------------------------------------------------------------------------
    def fresh(self):
        while True:
            self.ntemp += 1
            n = f"t{self.ntemp}"
            if n not in self.used:
                return n

    def raising(self, term, node, callee_tier="err"):
        """a Lean term of an effectful operation, adapted to this function's monad."""
        if self.tier == "pure":
            te(node, f"internal: effect in a function analysed as pure ({self.fn.qual})")
        if self.tier == "exc" and callee_tier == "err":
            return f"Py.lift ({term})"
        return term

    def bind(self, term, ty, node, callee_tier="err"):
        t = self.fresh()
        return E([(t, self.raising(term, node, callee_tier), True)], t, ty)

    def throw(self, what):
        if self.tier == "exc":
            return "throw Py.Exc.runtime" if what == "runtime" else f"throw (Py.Exc.base Style.PyErr.{what})"
        if what == "runtime" or self.tier == "pure":
            raise TranslateError(f"internal: raise in a function of tier {self.tier}")
        return f"throw Style.PyErr.{what}"

    def block(self, lines):
        """a block (let-lines followed by a final term) as ONE parenthesised term."""
        if single_term(lines):
            return list(lines)
        if len(lines) == 1:
            return [f"({lines[0]})"]
        if self.tier == "pure":
            return ["("] + ind(lines) + [")"]
        return ["(do"] + ind(lines) + [")"]

    def ret_lines(self, binds, term):
        """`binds` then `pure term` (tail position); a trailing `let t ← m; pure t` is spelled `m`."""
        lines = bind_lines(binds)
        if self.tier == "pure":
            return lines + [term]
        if binds and binds[-1][2] and binds[-1][0] == term:
            last = binds[-1][1].split("\n")
            return bind_lines(binds[:-1]) + last
        return lines + [f"pure {paren(term)}"]

    # ---- numeric coercions -----------------------------------------------------------------------
    def to_q(self, e, node):
        if e.ty == "Q":
            return e.term
        if e.ty == "Nat":
            return f"(Style.Q.nat {e.term})"
        te(node, f"cannot use a value of type {e.ty} as a float")

    def to_int(self, e, node):
        if e.ty == "Int":
            return e.term
        if e.ty == "Nat":
            return f"({e.term} : Int)"
        te(node, f"cannot use a value of type {e.ty} as an int")

    def to_nat_summand(self, e, node):
        if e.ty == "Nat":
            return e.term
        if e.ty == "Bool":
            return f"(Style.b2n {e.term})"
        te(node, f"cannot add a value of type {e.ty} to a counter")

    # ---- the python-chess table ------------------------------------------------------------------
    def pmatch(self, pat, node, env, b):
        if isinstance(pat, ast.Name):
            if pat.id in _META:
                b[pat.id] = node
                return True
            want = {"board": "Board", "cboard": "CountBoard", "move": "Ply", "game": "Game"}.get(pat.id)
            if want is not None:
                if not isinstance(node, ast.Name) or node.id not in env:
                    return False
                ty = env[node.id]
                if want == "Board":
                    if not (isinstance(ty, tuple) and ty[0] == "Board"):
                        return False
                    b["g"] = ty[1]
                    b["hasboard"] = True
                    return True
                if ty != want:
                    return False
                b[{"CountBoard": "b", "Ply": "p", "Game": "g"}[want]] = lname(node.id)
                return True
            return isinstance(node, ast.Name) and node.id == pat.id and node.id not in env
        ok = self.pmatch_struct(pat, node, env, b)
        if ok:
            return True
        for l, r in env.get("$eqs", []):            # equalities known from enclosing `if A == B:` tests
            for x, y in ((l, r), (r, l)):
                if dump(node) == dump(x) and dump(node) != dump(y) and self.pmatch_struct(pat, y, env, b):
                    return True
        return False

    def pmatch_struct(self, pat, node, env, b):
        if type(pat) is not type(node):
            return False
        if isinstance(pat, ast.Name):
            return self.pmatch(pat, node, env, b)
        for name, pv in ast.iter_fields(pat):
            if name == "ctx":
                continue
            nv = getattr(node, name)
            if isinstance(pv, list):
                if not isinstance(nv, list) or len(pv) != len(nv):
                    return False
                for x, y in zip(pv, nv):
                    if isinstance(x, ast.AST):
                        if not (isinstance(y, ast.AST) and self.pmatch(x, y, env, b)):
                            return False
                    elif x != y:
                        return False
            elif isinstance(pv, ast.AST):
                if not (isinstance(nv, ast.AST) and self.pmatch(pv, nv, env, b)):
                    return False
            elif pv != nv:
                return False
        return True

    def chess(self, node, env):
        """translate `node` through CHESS_MAP, or return None."""
        cands = []
        for pat, phase, term, ty in _PATTERNS:
            b = {}
            if self.pmatch(pat, node, env, b):
                cands.append((phase, term, ty, b))
        if not cands:
            return None
        for phase, term, ty, b in cands:
            if phase is not None and phase != env.get("$phase"):
                continue
            if phase is None and b.get("hasboard"):
                continue
            if "p" not in b and "{p}" in term:
                if env.get("$ply") is None:
                    te(node, f"`{unparse(node)}` outside the move loop")
                b["p"] = env["$ply"]
            fill = {}
            for k in ("C", "D"):
                if k in b:
                    c = self.cx(b[k], env)
                    if c.binds:
                        te(node, "effectful argument of a python-chess call")
                    fill[k] = c.term
            for k in ("p", "g", "b"):
                if k in b:
                    fill[k] = b[k]
            t = {"ListPly": ("List", "Ply")}.get(ty, ty)
            return E([], term.format(**fill), t)
        te(node, f"`{unparse(node)}` is not available from the annotated game in board phase {env.get('$phase')!r}")

    # ---- expression dispatch ---------------------------------------------------------------------
    def cx(self, e, env):
        if isinstance(e, (ast.Attribute, ast.Call, ast.Subscript)):
            r = self.chess(e, env)
            if r is not None:
                return r
        m = getattr(self, "cx_" + type(e).__name__, None)
        if m is None:
            te(e, f"unsupported expression node {type(e).__name__}: `{unparse(e)}`")
        return m(e, env)

    def cx_Constant(self, e, env):
        v = e.value
        if v is True or v is False:
            return E([], "true" if v else "false", "Bool")
        if v is None:
            return E([], "none", "None")
        if isinstance(v, int):
            if v < 0:
                te(e, "negative literal")
            return E([], str(v), "Nat")
        if isinstance(v, float):
            src = ast.get_source_segment(self.mod.text, e)
            if src is None or not all(c in "0123456789." for c in src) or src.count(".") != 1:
                te(e, f"unsupported float literal {src!r}")
            whole, frac = src.split(".")
            if frac.strip("0") == "":
                return E([], f"(Style.Q.nat {int(whole or '0')})", "Q")
            return E([], f"(Style.Q.dec {int((whole + frac) or '0')} {10 ** len(frac)})", "Q")
        if isinstance(v, str):
            return E([], lean_string(v), "Str")
        te(e, f"unsupported constant {v!r}")

    def cx_Name(self, e, env):
        if e.id in env:
            ty = env[e.id]
            if ty == "Opaque" or (isinstance(ty, tuple) and ty[0] == "Board"):
                te(e, f"`{e.id}` (python-chess input) used in an untranslatable position")
            return E([], lname(e.id), ty)
        q = self.resolve_fn(e.id)
        if q is not None:
            g = self.mod.fns[q]
            if g.mutates:
                te(e, f"function value {q} mutates a parameter")
            return E([], lean_fn_name(q), ("Fun", tuple(t for _, t in g.params), g.ret, g.tier))
        te(e, f"unbound name `{e.id}`")

    def resolve_fn(self, name):
        owner = self.fn.qual if self.fn.parent is None else self.fn.parent
        if f"{owner}.{name}" in self.mod.fns:
            return f"{owner}.{name}"
        if name in self.mod.fns and name not in Module.SLICED:
            return name
        return None

    def cx_Attribute(self, e, env):
        if isinstance(e.value, ast.Name) and env.get(e.value.id) == "Stats":
            if e.attr not in self.mod.field_type:
                te(e, f"Stats has no field {e.attr}")
            return E([], f"{lname(e.value.id)}.{camel(e.attr)}", self.mod.field_type[e.attr])
        if isinstance(e.value, ast.Name) and env.get(e.value.id) == "Args" and e.attr == "verbose":
            return E([], "verbose", "Bool")
        te(e, f"unsupported attribute access `{unparse(e)}`")

    def cx_Subscript(self, e, env):
        v = self.cx(e.value, env)
        if isinstance(e.slice, ast.Slice):
            s = e.slice
            if s.upper is not None or s.step is not None or s.lower is None:
                te(e, "only `l[k:]` slices are supported")
            lo = self.cx(s.lower, env)
            if lo.ty != "Nat" or lo.binds or v.binds or not (isinstance(v.ty, tuple) and v.ty[0] == "List"):
                te(e, "unsupported slice")
            return E([], f"(List.drop {lo.term} {v.term})", v.ty)
        i = self.cx(e.slice, env)
        if v.ty != ("List", "Nat"):
            te(e, f"subscript of a value of type {v.ty}")
        if i.ty == "Nat":
            r = self.bind(f"Style.getAt {v.term} {i.term}", "Nat", e)
        elif i.ty == "Int":
            r = self.bind(f"Py.getAtI {v.term} {i.term}", "Nat", e)
        else:
            te(e, f"list index of type {i.ty}")
        return E(v.binds + i.binds + r.binds, r.term, "Nat")

    def cx_UnaryOp(self, e, env):
        a = self.cx(e.operand, env)
        if isinstance(e.op, ast.Not):
            if a.ty not in ("Bool", "Color"):       # chess.Color is bool: `not side` is the other colour
                te(e, f"`not` of a value of type {a.ty}")
            return E(a.binds, f"(!{a.term})", a.ty)
        te(e, f"unsupported unary operator {type(e.op).__name__}")

    def arith(self, op, a, b, node):
        binds = a.binds + b.binds
        if isinstance(op, ast.Div):
            r = self.bind(f"Style.Q.div {self.to_q(a, node)} {self.to_q(b, node)}", "Q", node)
            return E(binds + r.binds, r.term, "Q")
        if "Q" in (a.ty, b.ty):
            fn = {ast.Add: "Style.Q.add", ast.Mult: "Style.Q.mul"}.get(type(op))
            if fn is None:
                te(node, f"unsupported float operator {type(op).__name__}")
            return E(binds, f"({fn} {self.to_q(a, node)} {self.to_q(b, node)})", "Q")
        if isinstance(op, ast.Sub):
            return E(binds, f"({self.to_int(a, node)} - {self.to_int(b, node)})", "Int")
        sym = {ast.Add: "+", ast.Mult: "*"}.get(type(op))
        if sym is None:
            te(node, f"unsupported operator {type(op).__name__}")
        if "Int" in (a.ty, b.ty):
            return E(binds, f"({self.to_int(a, node)} {sym} {self.to_int(b, node)})", "Int")
        if isinstance(op, ast.Add) and a.ty == "Nat" and b.ty == "Bool":
            return E(binds, f"({a.term} + {self.to_nat_summand(b, node)})", "Nat")
        if a.ty == "Nat" and b.ty == "Nat":
            return E(binds, f"({a.term} {sym} {b.term})", "Nat")
        te(node, f"unsupported operand types {a.ty} {sym} {b.ty}")

    def cx_BinOp(self, e, env):
        return self.arith(e.op, self.cx(e.left, env), self.cx(e.right, env), e)

    def coerce_pair(self, a, b, node):
        """bring the two sides of a comparison / conditional to one type."""
        for x, y in ((a, b), (b, a)):
            if x.ty == "Str" and y.ty == "Result":
                lit = x.pyvalue if hasattr(x, "pyvalue") else None
                if lit not in RESULT_STRINGS:
                    te(node, f"Result header compared with {lit!r}: not one of the three results")
                x.term, x.ty = RESULT_STRINGS[lit], "Result"
        if a.ty == b.ty:
            return a.term, b.term, a.ty
        if {a.ty, b.ty} == {"Nat", "Int"}:
            return self.to_int(a, node), self.to_int(b, node), "Int"
        if {a.ty, b.ty} == {"Nat", "Q"}:
            return self.to_q(a, node), self.to_q(b, node), "Q"
        te(node, f"operands of types {a.ty} and {b.ty}")

    def cx_lit(self, e, env):
        r = self.cx(e, env)
        if isinstance(e, ast.Constant) and isinstance(e.value, str):
            r.pyvalue = e.value
        return r

    def compare1(self, op, a, b, node):
        binds = a.binds + b.binds
        if b.ty == "None" and isinstance(op, (ast.Eq, ast.NotEq)):
            if not (isinstance(a.ty, tuple) and a.ty[0] == "Opt"):
                te(node, "comparison with None of a value that is never None")
            t = f"(Option.isNone {a.term})"
            return E(binds, t if isinstance(op, ast.Eq) else f"(!{t})", "Bool")
        x, y, ty = self.coerce_pair(a, b, node)
        k = type(op)
        if ty in ("Nat", "Int"):
            sym = {ast.Eq: ("=", "=="), ast.NotEq: ("≠", "!="), ast.Lt: ("<", None), ast.LtE: ("≤", None),
                   ast.Gt: (">", None), ast.GtE: ("≥", None)}.get(k)
            if sym is None:
                te(node, f"unsupported comparison {k.__name__}")
            prop = f"{x} {sym[0]} {y}"
            term = f"({x} {sym[1]} {y})" if sym[1] else f"decide ({prop})"
            return E(binds, term, "Bool", prop)
        if ty == "Q":
            if k is ast.LtE:
                return E(binds, f"Style.Q.le {x} {y}", "Bool")
            if k is ast.GtE:
                return E(binds, f"Style.Q.le {y} {x}", "Bool")
            if k is ast.Eq:
                return E(binds, f"Py.qeq {x} {y}", "Bool")
            if k is ast.NotEq:
                return E(binds, f"(!Py.qeq {x} {y})", "Bool")
            te(node, f"unsupported float comparison {k.__name__}")
        if ty in ("Bool", "Color", "Kind", "Result"):
            if k is ast.Eq:
                return E(binds, f"({x} == {y})", "Bool")
            if k is ast.NotEq:
                return E(binds, f"({x} != {y})", "Bool")
        te(node, f"unsupported comparison {k.__name__} at type {ty}")

    def cx_Compare(self, e, env):
        if len(e.ops) != 1:
            te(e, "chained comparison")
        op, rhs = e.ops[0], e.comparators[0]
        a = self.cx_lit(e.left, env)
        if isinstance(op, (ast.In, ast.NotIn)):
            if not isinstance(rhs, ast.List) or not rhs.elts:
                te(e, "membership test in something that is not a non-empty list display")
            if a.binds:
                te(e, "effectful left operand of `in`")
            parts = []
            for x in rhs.elts:                     # x in [a, b]  ==  x == a or x == b
                c = self.compare1(ast.Eq(), E([], a.term, a.ty), self.cx_lit(x, env), e)
                if c.binds:
                    te(e, "effectful list element in a membership test")
                parts.append(c.term)
            t = "(" + " || ".join(parts) + ")"
            return E([], t if isinstance(op, ast.In) else f"(!{t})", "Bool")
        return self.compare1(op, a, self.cx_lit(rhs, env), e)

    def cx_BoolOp(self, e, env):
        vals = [self.cx(v, env) for v in e.values]
        for v in vals:
            if v.ty != "Bool":
                te(e, f"`and` / `or` operand of type {v.ty}")
        sym = "&&" if isinstance(e.op, ast.And) else "||"
        if not any(v.binds for v in vals[1:]):
            return E(vals[0].binds, "(" + f" {sym} ".join(v.term for v in vals) + ")", "Bool")
        # later operands can raise: Python evaluates them only when needed
        def chain(i):
            v = vals[i]
            if i == len(vals) - 1:
                return self.ret_lines(v.binds, v.term)
            rest = chain(i + 1)
            stop = "pure false" if sym == "&&" else "pure true"
            first, other = (rest, [stop]) if sym == "&&" else ([stop], rest)
            return bind_lines(v.binds) + [f"(if {v.term} then"] + ind(self.block(first)) + ["else"] + \
                ind(self.block(other)[:-1] + [self.block(other)[-1] + ")"])
        lines = chain(0)
        t = self.fresh()
        return E([(t, "\n".join(self.block(lines)), True)], t, "Bool")

    def cx_IfExp(self, e, env):
        c = self.cx(e.test, env)
        if c.ty != "Bool":
            te(e, "condition of type " + str(c.ty))
        a, b = self.cx_lit(e.body, env), self.cx_lit(e.orelse, env)
        x, y, ty = self.coerce_pair(E([], a.term, a.ty), E([], b.term, b.ty), e)
        ct = c.prop if c.prop else c.term
        if not a.binds and not b.binds:
            return E(c.binds, f"(if {ct} then {x} else {y})", ty)
        la, lb = self.block(self.ret_lines(a.binds, x)), self.block(self.ret_lines(b.binds, y))
        t = self.fresh()
        lines = [f"(if {ct} then"] + ind(la) + ["else"] + ind(lb[:-1] + [lb[-1] + ")"])
        return E(c.binds + [(t, "\n".join(lines), True)], t, ty)

    def cx_List(self, e, env):
        items = [self.cx(x, env) for x in e.elts]
        if not items:
            te(e, "empty list display")
        ty = items[0].ty
        for it in items:
            if it.ty != ty:
                if isinstance(ty, tuple) and ty[0] == "Tuple" and isinstance(it.ty, tuple) and it.ty[0] == "Tuple":
                    ty = unify_tuple(ty, it.ty, e)
                else:
                    te(e, "list display with items of different types")
        binds = [b for it in items for b in it.binds]
        return E(binds, "([" + ", ".join(it.term for it in items) + f"] : {lean_type(('List', ty))})", ("List", ty))

    def cx_Tuple(self, e, env):
        items = [self.cx(x, env) for x in e.elts]
        binds = [b for it in items for b in it.binds]
        return E(binds, "(" + ", ".join(it.term for it in items) + ")", ("Tuple", tuple(it.ty for it in items)))

    def cx_JoinedStr(self, e, env):
        binds = []
        for v in e.values:
            if isinstance(v, ast.FormattedValue):
                binds += self.cx(v.value, env).binds        # the layout is dropped, the evaluation is kept
            elif not isinstance(v, ast.Constant):
                te(e, "unsupported f-string part")
        return E(binds, '""', "Str")

    # ---- comprehensions --------------------------------------------------------------------------
    def comp_lambda(self, elt, gens, env):
        """`elt for T in ITER`  ->  (iter E, Lean lambda, element E)."""
        if len(gens) != 1 or gens[0].ifs or gens[0].is_async:
            te(elt, "unsupported comprehension shape")
        it = self.cx(gens[0].iter, env)
        if not (isinstance(it.ty, tuple) and it.ty[0] == "List"):
            te(elt, "comprehension over something that is not a list")
        env2 = dict(env)
        pat = self.bind_target(gens[0].target, it.ty[1], env2)
        body = self.cx(elt, env2)
        return it, pat, body

    def bind_target(self, tgt, ty, env):
        if isinstance(tgt, ast.Name):
            if tgt.id != "_":
                env[tgt.id] = ty
            return lname(tgt.id)
        if isinstance(tgt, ast.Tuple):
            if not (isinstance(ty, tuple) and ty[0] == "Tuple" and len(ty[1]) == len(tgt.elts)):
                te(tgt, f"cannot unpack a value of type {ty}")
            return "(" + ", ".join(self.bind_target(t, x, env) for t, x in zip(tgt.elts, ty[1])) + ")"
        te(tgt, "unsupported loop / comprehension target")

    def cx_ListComp(self, e, env):
        it, pat, body = self.comp_lambda(e.elt, e.generators, env)
        if body.binds:
            te(e, "effectful list comprehension")
        return E(it.binds, f"(List.map (fun {pat} => {body.term}) {it.term})", ("List", body.ty))

    # ---- calls -----------------------------------------------------------------------------------
    def cx_Call(self, e, env):
        if e.keywords:
            te(e, "keyword arguments")
        f = e.func
        if isinstance(f, ast.Name) and f.id not in env:
            h = getattr(self, "builtin_" + f.id, None)
            if h is not None and self.resolve_fn(f.id) is None:
                return h(e, env)
            q = self.resolve_fn(f.id)
            if q is not None:
                return self.call_fn(q, e, env)
            te(e, f"call of unknown function `{f.id}`")
        if isinstance(f, ast.Name):
            fv = env[f.id]
            if not (isinstance(fv, tuple) and fv[0] == "Fun"):
                te(e, f"call of `{f.id}` which is not a function")
            args = [self.cx(a, env) for a in e.args]
            self.check_args(fv[1], args, e)
            binds = [b for a in args for b in a.binds]
            term = f"{lname(f.id)} " + " ".join(a.term for a in args)
            if fv[3] == "pure":
                return E(binds, f"({term})", fv[2])
            r = self.bind(term, fv[2], e, fv[3])
            return E(binds + r.binds, r.term, fv[2])
        te(e, f"unsupported call `{unparse(e)}`")

    def check_args(self, ptypes, args, node):
        if len(ptypes) != len(args):
            te(node, "wrong number of arguments")
        for p, a in zip(ptypes, args):
            if p != a.ty:
                te(node, f"argument of type {a.ty} for a parameter of type {p}")

    def arg_E(self, a, env):
        """an argument expression; a Board in phase 'final' is handed over as its piece counts."""
        if isinstance(a, ast.Name) and isinstance(env.get(a.id), tuple) and env[a.id][0] == "Board":
            if env.get("$phase") != "final":
                te(a, "a Board is passed to a function before the end of the game")
            g = env[a.id][1]
            return E([], f"({g}.finalWhite, {g}.finalBlack)", "CountBoard")
        return self.cx(a, env)

    def call_fn(self, q, e, env, allow_mut=False):
        g = self.mod.fns[q]
        if g.mutates and not allow_mut:
            te(e, f"{q} mutates `{g.mutates}` and is called inside an expression")
        args = [self.arg_E(a, env) for a in e.args]
        ptypes = [t for _, t in g.params]
        if len(args) < len(ptypes) and len(ptypes) - len(args) <= len(g.node.args.defaults):
            for _ in range(len(ptypes) - len(args)):
                args.append(E([], "false", "Bool"))           # the only default value allowed is False
        self.check_args(ptypes, args, e)
        binds = [b for a in args for b in a.binds]
        term = lean_fn_name(q) + " " + " ".join(a.term for a in args)
        if g.ret is None:
            te(e, f"internal: {q} used before it is translated")
        if g.tier == "pure":
            return E(binds, f"({term})", g.ret)
        r = self.bind(term, g.ret, e, g.tier)
        return E(binds + r.binds, r.term, g.ret)

    def one_arg(self, e, env, n=1):
        if len(e.args) != n:
            te(e, f"`{unparse(e.func)}` with {len(e.args)} arguments")
        return [self.cx(a, env) for a in e.args]

    def builtin_len(self, e, env):
        (a,) = self.one_arg(e, env)
        if not (isinstance(a.ty, tuple) and a.ty[0] == "List"):
            te(e, "len of something that is not a list")
        return E(a.binds, f"(List.length {a.term})", "Nat")

    def builtin_abs(self, e, env):
        (a,) = self.one_arg(e, env)
        if a.ty == "Int":
            return E(a.binds, f"(Int.natAbs {a.term})", "Nat")
        if a.ty == "Nat":
            return a
        te(e, f"abs of a value of type {a.ty}")

    def builtin_min(self, e, env):
        a, b = self.one_arg(e, env, 2)
        x, y, ty = self.coerce_pair(E([], a.term, a.ty), E([], b.term, b.ty), e)
        fn = {"Nat": "Nat.min", "Q": "Style.Q.min"}.get(ty)
        if fn is None:
            te(e, f"min at type {ty}")
        return E(a.binds + b.binds, f"({fn} {x} {y})", ty)

    def builtin_max(self, e, env):
        if len(e.args) != 1:
            te(e, "only max(<list>) is supported")
        a = e.args[0]
        v = self.cx(a, env)
        lit = env.get("$lits", {}).get(a.id) if isinstance(a, ast.Name) else (a if isinstance(a, ast.List) else None)
        if v.ty != ("List", "Nat") or v.binds or lit is None or not lit.elts:
            te(e, "max of something that is not (a variable bound to) a non-empty list display of ints")
        return E([], f"(Py.listMax {v.term})", "Nat")

    def builtin_range(self, e, env):
        if len(e.args) == 1:
            a, b = E([], "0", "Nat"), self.cx(e.args[0], env)
        else:
            a, b = self.one_arg(e, env, 2)
        for x in (a, b):
            if x.ty != "Nat" or x.binds:
                te(e, "range bounds must be pure non-negative ints")
        return E([], f"(Py.range {a.term} {b.term})", ("List", "Nat"))

    def builtin_enumerate(self, e, env):
        (a,) = self.one_arg(e, env)
        if not (isinstance(a.ty, tuple) and a.ty[0] == "List"):
            te(e, "enumerate of something that is not a list")
        return E(a.binds, f"(Py.enumerate {a.term})", ("List", ("Tuple", ("Nat", a.ty[1]))))

    def builtin_sum(self, e, env):
        if len(e.args) != 1:
            te(e, "sum with a start value")
        a = e.args[0]
        if isinstance(a, ast.GeneratorExp):
            it, pat, body = self.comp_lambda(a.elt, a.generators, env)
            if body.ty != "Nat":
                te(e, f"sum over a generator of {body.ty}")
            if not body.binds:
                return E(it.binds, f"(Py.sumGen (fun {pat} => {body.term}) {it.term})", "Nat")
            lam = [f"(fun {pat} =>"] + ind(self.block(self.ret_lines(body.binds, body.term))[:-1] +
                                           [self.block(self.ret_lines(body.binds, body.term))[-1] + ")"])
            if self.tier == "exc":
                te(e, "effectful generator in a function that raises RuntimeError")
            r = self.bind("Py.sumGenM\n" + "\n".join(ind(lam)) + f"\n  {it.term} 0", "Nat", e)
            return E(it.binds + r.binds, r.term, "Nat")
        v = self.cx(a, env)
        if v.ty == ("List", "Nat"):
            return E(v.binds, f"(Py.sumNat {v.term})", "Nat")
        if v.ty == ("List", "Q"):
            return E(v.binds, f"(Py.sumQ {v.term})", "Q")
        te(e, f"sum of a value of type {v.ty}")

    def builtin_Stats(self, e, env):
        if e.args:
            te(e, "Stats(..) with arguments")
        return E([], "Stats.default", "Stats")


def paren(t):
    if " " not in t or (t.startswith("(") and t.endswith(")") and balanced(t)):
        return t
    return f"({t})"


def single_term(lines):
    t = "\n".join(lines).strip()
    return t.startswith("(") and t.endswith(")") and balanced(t) and not lines[0].startswith(" ")


def balanced(s):
    d = 0
    instr = False
    for i, c in enumerate(s):
        if c == '"' and (i == 0 or s[i - 1] != "\\"):
            instr = not instr
        if instr:
            continue
        if c == "(":
            d += 1
        elif c == ")":
            d -= 1
            if d == 0 and i != len(s) - 1:
                return False
    return d == 0


def bind_lines(binds):
    out = []
    for name, term, eff in binds:
        parts = term.split("\n")
        out.append(f"let {name} {'←' if eff else ':='} {parts[0]}")
        out += ind(parts[1:])
    return out


def lean_string(s):
    out = []
    for c in s:
        if c in '"\\':
            out.append("\\" + c)
        elif c == "\n":
            out.append("\\n")
        elif 32 <= ord(c) < 127:
            out.append(c)
        else:
            out.append("\\u{%x}" % ord(c))
    return '"' + "".join(out) + '"'


def lean_fn_name(q):
    return q


def unify_tuple(a, b, node):
    if len(a[1]) != len(b[1]):
        te(node, "tuples of different lengths in one list")
    out = []
    for x, y in zip(a[1], b[1]):
        if x == y:
            out.append(x)
        else:
            te(node, f"tuple components of types {x} and {y} in one list")
    return ("Tuple", tuple(out))


# ==================================================================================================
# statements (continuation-passing: `k(env)` gives the lines of what follows)
# ==================================================================================================
def terminates(stmts):
    """does control never fall off the end of `stmts`?"""
    if not stmts:
        return False
    s = stmts[-1]
    if isinstance(s, (ast.Return, ast.Raise, ast.Continue)):
        return True
    if isinstance(s, ast.If):
        return terminates(s.body) and terminates(s.orelse)
    return False


class StmtComp(Comp):
    def assigned(self, stmts, env):
        """names bound before (`env`) that the statements may rebind, in binding order."""
        names = set()
        for st in stmts:
            for n in ast.walk(st):
                if isinstance(n, (ast.Assign, ast.AugAssign, ast.AnnAssign)):
                    for t in (n.targets if isinstance(n, ast.Assign) else [n.target]):
                        for x in ast.walk(t):
                            if isinstance(x, ast.Name) and isinstance(x.ctx, ast.Store):
                                names.add(x.id)
                        b = base_name(t)
                        if b:
                            names.add(b)
                elif isinstance(n, ast.For):
                    for x in ast.walk(n.target):
                        if isinstance(x, ast.Name):
                            names.add(x.id)
                elif isinstance(n, ast.Call):
                    for q in self.mod.callee_quals(self.fn, n) or []:
                        g = self.mod.fns[q]
                        if g.mutates:
                            if g.is_method:
                                names.add(n.func.value.id)
                            else:
                                i = [p for p, _ in g.params].index(g.mutates)
                                if i < len(n.args) and isinstance(n.args[i], ast.Name):
                                    names.add(n.args[i].id)
                    if isinstance(n.func, ast.Attribute) and n.func.attr == "push":
                        names.add("$push")
        return [v for v in env if v in names and not v.startswith("$")], "$push" in names

    def tuple_of(self, names):
        if not names:
            return "()"
        if len(names) == 1:
            return lname(names[0])
        return "(" + ", ".join(lname(n) for n in names) + ")"

    def tuple_type(self, names, env):
        if not names:
            return "Unit"
        if len(names) == 1:
            return env[names[0]]
        return ("Tuple", tuple(env[n] for n in names))

    def let_pat(self, names, rhs_first, eff):
        """`let (a, b) := rhs`"""
        pat = self.tuple_of(names) if names else "_"
        return f"let {pat} {'←' if eff else ':='} {rhs_first}"

    def cs(self, stmts, env, k):
        if not stmts:
            return k(env)
        s, rest = stmts[0], stmts[1:]
        m = getattr(self, "cs_" + type(s).__name__, None)
        if m is None:
            te(s, f"unsupported statement {type(s).__name__}")
        return m(s, rest, env, k)

    def cs_Pass(self, s, rest, env, k):
        return self.cs(rest, env, k)

    # ---- assignments -----------------------------------------------------------------------------
    def assign_name(self, name, e, env, node):
        """lines for `name = e` and the new environment."""
        if name in env and env[name] != e.ty and not name.startswith("$"):
            if not ({env[name], e.ty} <= {"Nat"}):
                te(node, f"`{name}` changes type from {env[name]} to {e.ty}")
        binds = list(e.binds)
        env2 = dict(env)
        env2[name] = e.ty
        if binds and binds[-1][0] == e.term and binds[-1][2]:
            binds[-1] = (lname(name), binds[-1][1], True)
            return bind_lines(binds), env2
        ann = f" : {lean_type(e.ty)}" if e.ty in ("Int",) else ""
        return bind_lines(binds) + [f"let {lname(name)}{ann} := {strip_parens(e.term)}"], env2

    def cs_Assign(self, s, rest, env, k):
        if len(s.targets) != 1:
            te(s, "multiple assignment targets")
        return self.assign(s.targets[0], s.value, s, rest, env, k)

    def cs_AnnAssign(self, s, rest, env, k):
        if s.value is None:
            te(s, "annotation without value")
        return self.assign(s.target, s.value, s, rest, env, k)

    def assign(self, tgt, value, s, rest, env, k):
        if not isinstance(tgt, ast.Name):
            te(s, f"unsupported assignment target `{unparse(tgt)}`")
        # python-chess inputs
        if dump(value).find("'FEN'") >= 0:
            # the game's start position: exactly `game.headers["FEN"] if "FEN" in game.headers else <standard start>`;
            # the value is only ever handed to chess.Board (checked at its uses)
            games = [n for n, t in env.items() if t == "Game"]
            want = [f"{g}.headers['FEN'] if 'FEN' in {g}.headers else '{STANDARD_START}'" for g in games]
            if unparse(value) not in want:
                te(s, f"unexpected computation of the start position: `{unparse(value)}`")
            env2 = dict(env)
            env2[tgt.id] = "Opaque"
            return self.cs(rest, env2, k)
        if isinstance(value, ast.Call) and unparse(value.func) == "chess.Board":
            if len(value.args) != 1 or not isinstance(value.args[0], ast.Name) or env.get(value.args[0].id) != "Opaque":
                te(s, "chess.Board(..) of something that is not the game's FEN")
            games = [n for n, t in env.items() if t == "Game"]
            if len(games) != 1:
                te(s, "chess.Board(..) without exactly one game in scope")
            env2 = dict(env)
            env2[tgt.id] = ("Board", lname(games[0]))
            env2["$phase"] = "init"
            return self.cs(rest, env2, k)
        e = self.cx(value, env)
        lines, env2 = self.assign_name(tgt.id, e, env, s)
        if isinstance(value, ast.List):
            lits = dict(env2.get("$lits", {}))
            lits[tgt.id] = value
            env2["$lits"] = lits
        elif tgt.id in env2.get("$lits", {}):
            lits = dict(env2["$lits"])
            del lits[tgt.id]
            env2["$lits"] = lits
        return lines + self.cs(rest, env2, k)

    def cs_AugAssign(self, s, rest, env, k):
        if not isinstance(s.op, (ast.Add, ast.Div)):
            te(s, f"unsupported augmented assignment operator {type(s.op).__name__}")
        tgt = s.target
        if isinstance(tgt, ast.Name):
            if tgt.id not in env:
                te(s, f"unbound name `{tgt.id}`")
            e = self.arith(s.op, self.cx(ast.Name(tgt.id, ast.Load()), env), self.cx(s.value, env), s)
            lines, env2 = self.assign_name(tgt.id, e, env, s)
            return lines + self.cs(rest, env2, k)
        if not isinstance(s.op, ast.Add):
            te(s, "unsupported augmented assignment")
        if isinstance(tgt, ast.Attribute) and isinstance(tgt.value, ast.Name) and env.get(tgt.value.id) == "Stats":
            obj = lname(tgt.value.id)
            cur = self.cx(tgt, env)
            v = self.cx(s.value, env)
            if cur.ty != "Nat":
                te(s, "`+=` on a list field")
            e = self.arith(s.op, cur, v, s)
            if e.ty != "Nat":
                te(s, f"counter `{unparse(tgt)}` would become {e.ty}")
            # `obj.f += v`  =  Stats.aug_f obj v  (= { obj with f := obj.f + v }, emitted with the class)
            return bind_lines(e.binds) + \
                [f"let {obj} := Stats.aug_{camel(tgt.attr)} {obj} {self.to_nat_summand(v, s)}"] + self.cs(rest, env, k)
        if isinstance(tgt, ast.Subscript) and isinstance(tgt.value, ast.Attribute) and isinstance(tgt.value.value, ast.Name) \
                and env.get(tgt.value.value.id) == "Stats" and not isinstance(tgt.slice, ast.Slice):
            obj = lname(tgt.value.value.id)
            lst = self.cx(tgt.value, env)
            i = self.cx(tgt.slice, env)
            v = self.cx(s.value, env)
            if lst.ty != ("List", "Nat") or v.ty != "Nat" or v.binds:
                te(s, "unsupported `l[i] += v`")
            if i.ty == "Nat":
                r = self.bind(f"Py.augAdd {lst.term} {i.term} {v.term}", lst.ty, s)
            elif i.ty == "Int":
                r = self.bind(f"Py.augAddI {lst.term} {i.term} {v.term}", lst.ty, s)
            else:
                te(s, f"list index of type {i.ty}")
            return bind_lines(i.binds + r.binds) + \
                [f"let {obj} := Stats.set_{camel(tgt.value.attr)} {obj} {r.term}"] + self.cs(rest, env, k)
        te(s, f"unsupported augmented assignment target `{unparse(tgt)}`")

    # ---- expression statements -------------------------------------------------------------------
    def cs_Expr(self, s, rest, env, k):
        v = s.value
        if isinstance(v, ast.Constant) and isinstance(v.value, str):
            return self.cs(rest, env, k)                                   # docstring
        if not isinstance(v, ast.Call):
            te(s, "expression statement that is not a call")
        f = v.func
        if isinstance(f, ast.Name) and f.id == "print" and "print" not in env:
            binds = []
            for a in v.args:
                binds += self.cx(a, env).binds
            for kw in v.keywords:
                if kw.arg != "end" or not isinstance(kw.value, ast.Constant):
                    te(s, "unsupported print keyword")
            return bind_lines(binds) + self.cs(rest, env, k)
        if isinstance(f, ast.Attribute) and isinstance(f.value, ast.Name):
            obj = f.value.id
            ty = env.get(obj)
            if isinstance(ty, tuple) and ty[0] == "Board" and f.attr == "push":
                if len(v.args) != 1 or not isinstance(v.args[0], ast.Name) or lname(v.args[0].id) != env.get("$ply") \
                        or env.get("$phase") != "pre":
                    te(s, "board.push(..) outside its place in the move loop")
                env2 = dict(env)
                env2["$phase"] = "post"
                return self.cs(rest, env2, k)
            if ty == "Stats" and f"Stats.{f.attr}" in self.mod.fns:
                q = f"Stats.{f.attr}"
                g = self.mod.ensure(q)
                call = ast.Call(ast.Name(q, ast.Load()), [ast.Name(obj, ast.Load())] + list(v.args), [])
                ast.copy_location(call, v)
                e = self.call_fn(q, call, env, allow_mut=True)
                if g.mutates != "self" or g.ret != "Stats":
                    te(s, f"method {q} called as a statement does not mutate self")
                lines, env2 = self.assign_name(obj, e, env, s)
                return lines + self.cs(rest, env2, k)
        if isinstance(f, ast.Name):
            q = self.resolve_fn(f.id)
            if q is not None:
                g = self.mod.ensure(q)
                if not g.mutates:
                    te(s, f"call of {q} whose result is dropped")
                i = [p for p, _ in g.params].index(g.mutates)
                if not isinstance(v.args[i], ast.Name):
                    te(s, "mutated argument is not a variable")
                e = self.call_fn(q, v, env, allow_mut=True)
                lines, env2 = self.assign_name(v.args[i].id, e, env, s)
                return lines + self.cs(rest, env2, k)
        te(s, f"unsupported call statement `{unparse(v)}`")

    # ---- control ---------------------------------------------------------------------------------
    def cond(self, test, env):
        c = self.cx(test, env)
        if c.ty != "Bool":
            if c.ty == "Nat":                       # truthiness of an int
                return c.binds, f"{c.term} ≠ 0"
            te(test, f"condition of type {c.ty}")
        return c.binds, (c.prop if c.prop else strip_parens(c.term))

    def branch_env(self, test, env, positive):
        """inside `if A == B:` the two sides are known equal (used for `board.king(not side)`)."""
        if positive and isinstance(test, ast.Compare) and len(test.ops) == 1 and isinstance(test.ops[0], ast.Eq):
            env2 = dict(env)
            env2["$eqs"] = list(env.get("$eqs", [])) + [(test.left, test.comparators[0])]
            return env2
        return env

    def if_term(self, c, a, b):
        a, b = self.block(a), self.block(b)
        return [f"(if {c} then"] + ind(a) + ["else"] + ind(b[:-1] + [b[-1] + ")"])

    def cs_If(self, s, rest, env, k):
        binds, c = self.cond(s.test, env)
        pre = bind_lines(binds)
        envT, envF = self.branch_env(s.test, env, True), env
        tb, fb = terminates(s.body), terminates(s.orelse)
        if not rest or (tb and fb):
            if rest:
                te(rest[0], "unreachable statements")
            return pre + self.if_term(c, self.cs(s.body, envT, k), self.cs(s.orelse, envF, k))
        if tb:
            return pre + self.if_term(c, self.cs(s.body, envT, k), self.cs(list(s.orelse) + rest, envF, k))
        if fb:
            return pre + self.if_term(c, self.cs(list(s.body) + rest, envT, k), self.cs(s.orelse, envF, k))
        names, pushes = self.assigned(list(s.body) + list(s.orelse), env)
        if pushes:
            te(s, "board.push(..) inside a branch")
        # branches in which nothing can raise are compiled as plain `let x := if ..` even inside a monadic function
        saved = self.tier
        if not self.mod.stmt_effects(self.fn, list(s.body) + list(s.orelse)) and not binds_effectful(binds):
            self.tier = "pure"
        eff = self.tier != "pure"
        kk = (lambda e2: [("pure " if eff else "") + self.tuple_of(names)])
        try:
            t = self.if_term(c, self.cs(s.body, envT, kk), self.cs(s.orelse, envF, kk))
        finally:
            self.tier = saved
        env2 = self.strip_lits(env, names)
        if not eff and len(names) > 1:
            # a pure join of several variables: bind the tuple, then its components by projection
            j = self.fresh()
            projs = [f"let {lname(n)} := {j}" + ".2" * i + (".1" if i < len(names) - 1 else "") for i, n in enumerate(names)]
            return pre + [f"let {j} := {t[0]}"] + ind(t[1:]) + projs + self.cs(rest, env2, k)
        return pre + [self.let_pat(names, t[0], eff)] + ind(t[1:]) + self.cs(rest, env2, k)

    def strip_lits(self, env, names):
        if any(n in env.get("$lits", {}) for n in names):
            env = dict(env)
            env["$lits"] = {a: b for a, b in env["$lits"].items() if a not in names}
        return env

    def cs_Assert(self, s, rest, env, k):
        if s.msg is not None:
            te(s, "assert with a message")
        binds, c = self.cond(s.test, env)
        return bind_lines(binds) + self.if_term(c, self.cs(rest, env, k), [self.throw("assertion")])

    def cs_Raise(self, s, rest, env, k):
        if not (isinstance(s.exc, ast.Call) and unparse(s.exc.func) == "RuntimeError" and s.cause is None):
            te(s, "only `raise RuntimeError(..)` is supported")
        return [self.throw("runtime")]            # the message text is dropped

    def cs_Return(self, s, rest, env, k):
        fn = self.fn
        if fn.mutates:
            if s.value is not None and not (isinstance(s.value, ast.Constant) and s.value.value is None):
                te(s, f"{fn.qual} mutates `{fn.mutates}` and returns a value")
            return self.ret_lines([], lname(fn.mutates))
        if s.value is None or (isinstance(s.value, ast.Constant) and s.value.value is None):
            if not self.ret_opt:
                te(s, "return without a value")
            return self.ret_lines([], "none")
        e = self.cx(s.value, env)
        if self.ret_inner is None:
            self.ret_inner = e.ty
        elif self.ret_inner != e.ty:
            te(s, f"{fn.qual} returns values of types {self.ret_inner} and {e.ty}")
        if self.ret_opt:
            return self.ret_lines(e.binds, f"(some {e.term})")
        return self.ret_lines(e.binds, e.term)

    def cs_Continue(self, s, rest, env, k):
        if not self.loop_k:
            te(s, "continue outside a loop")
        return self.loop_k[-1](env)

    def cs_For(self, s, rest, env, k):
        if s.orelse:
            te(s, "for .. else")
        for n in ast.walk(s):
            if isinstance(n, (ast.Break, ast.Return)):
                te(n, "break / return inside a loop")
        it = self.cx(s.iter, env)
        if not (isinstance(it.ty, tuple) and it.ty[0] == "List"):
            te(s, "loop over something that is not a list")
        names, pushes = self.assigned(s.body, env)
        env_in = self.strip_lits(dict(env), names)
        pat = self.bind_target(s.target, it.ty[1], env_in)
        moves = any(isinstance(n, ast.Attribute) and n.attr == "mainline_moves" for n in ast.walk(s.iter))
        if moves:
            if env.get("$phase") != "init":
                te(s, "move loop without a fresh board")
            plies = [x.id for x in ast.walk(s.target) if isinstance(x, ast.Name) and env_in.get(x.id) == "Ply"]
            if len(plies) != 1:
                te(s, "move loop target")
            env_in["$phase"], env_in["$ply"] = "pre", lname(plies[0])
        elif pushes:
            te(s, "board.push(..) in a loop that is not the move loop")
        eff = self.tier != "pure"
        st_ty = self.tuple_type(names, env)

        def k_body(e2):
            if moves and e2.get("$phase") != "post":
                te(s, "an iteration of the move loop must push exactly one move")
            return [("pure " if eff else "") + self.tuple_of(names)]
        self.loop_k.append(k_body)
        body = self.cs(s.body, env_in, k_body)
        self.loop_k.pop()
        st = self.fresh()
        x = self.fresh()
        inner = ([f"let {self.tuple_of(names)} := {st}"] if names else []) + [f"let {pat} := {x}"] + body
        fold = "List.foldlM" if eff else "List.foldl"
        if len(names) > 1:
            # a loop that carries several variables: its body becomes a definition of its own,
            # `<function>.loopK_body <captured variables> <state> <item>`
            self.nloops += 1
            hname = f"{lean_fn_name(self.fn.qual)}.loop{self.nloops}_body"
            bound = set(names) | {n.id for n in ast.walk(s.target) if isinstance(n, ast.Name)}
            free = []
            for n in ast.walk(ast.Module(body=s.body, type_ignores=[])):
                if isinstance(n, ast.Name) and n.id in env and n.id not in bound and n.id not in free \
                        and not n.id.startswith("$") and env[n.id] != "Opaque" \
                        and not (isinstance(env[n.id], tuple) and env[n.id][0] == "Board"):
                    free.append(n.id)
            free = [v for v in env if v in free]
            params = " ".join(f"({lname(v)} : {lean_type(env[v])})" for v in free)
            head = f"def {hname} {params} ({st} : {lean_type(st_ty)}) ({x} : {lean_type(it.ty[1])}) : " \
                   f"{monad_type(self.tier, st_ty)} :=" + (" do" if eff else "")
            doc = f"/-- the body of the `for {unparse(s.target)} in {unparse(s.iter)}` loop of `{self.fn.qual}` " \
                  f"(style.py line {s.lineno}); state: ({', '.join(names)}). -/"
            self.hoisted.append([doc, head] + ind(inner))
            call = " ".join([hname] + [lname(v) for v in free])
            lines = bind_lines(it.binds) + [self.let_pat(names, f"{fold} ({call}) {self.tuple_of(names)} {it.term}", eff)]
        else:
            head = [f"(fun ({st} : {lean_type(st_ty)}) ({x} : {lean_type(it.ty[1])}) =>"]
            lam = head + ind(self.block(inner)[:-1] + [self.block(inner)[-1] + ")"])
            lines = bind_lines(it.binds) + [self.let_pat(names, fold, eff)] + ind(lam, 4) + \
                [f"    {self.tuple_of(names)} {it.term}"]
        env2 = self.strip_lits(dict(env), names)
        if moves:
            env2["$phase"] = "final"
        return lines + self.cs(rest, env2, k)


def binds_effectful(binds):
    return any(b[2] for b in binds)


def strip_parens(t):
    if t.startswith("(") and t.endswith(")") and balanced(t) and "\n" not in t:
        inner, d = t[1:-1], 0
        for i, c in enumerate(inner):
            d += (c == "(") - (c == ")")
            if d == 0 and inner[i:i + 3] == " : ":
                return t                  # a type ascription keeps its parentheses
        return inner
    return t


# ==================================================================================================
# functions, slices, the Stats class
# ==================================================================================================
def stmt_is_call_of(st, name):
    return isinstance(st, ast.Expr) and isinstance(st.value, ast.Call) and isinstance(st.value.func, ast.Name) \
        and st.value.func.id == name


class Emitter(Module):
    def __init__(self, text):
        super().__init__(text)
        self.analyse()
        self.done = {}            # qual -> list of lines
        self.sequence = []

    def ensure(self, q):
        fn = self.fns[q]
        if q not in self.done:
            if q in Module.SLICED:
                raise TranslateError(f"{q} is only translated in slices and cannot be called")
            self.compile_fn(fn)
        return fn

    def params_text(self, params):
        return " ".join("(verbose : Bool)" if t == "Args" else f"({lname(p)} : {lean_type(t)})" for p, t in params)

    def compile_fn(self, fn, results=None):
        if fn.qual in self.done:
            return
        self.done[fn.qual] = None           # in progress
        for n in fn.nested:
            self.ensure(n)
        c = StmtComp(self, fn)
        c.loop_k, c.ret_inner, c.nloops, c.hoisted = [], None, 0, []
        for p, t in fn.params:
            if t is None:
                te(fn.node, f"parameter `{p}` of {fn.qual} has no annotation")
        env = {p: t for p, t in fn.params}
        rets = []
        for st in fn.body:
            rets += [n for n in ast.walk(st) if isinstance(n, ast.Return)]
        nones = [r for r in rets if r.value is None or (isinstance(r.value, ast.Constant) and r.value.value is None)]
        valued = [r for r in rets if r not in nones]
        c.ret_opt = bool(nones and valued) and not fn.mutates and results is None

        def k_end(e2):
            if results is not None:
                for r in results:
                    if r not in e2:
                        te(fn.node, f"slice result `{r}` is not bound")
                return c.ret_lines([], c.tuple_of(results))
            if fn.mutates:
                return c.ret_lines([], lname(fn.mutates))
            if c.ret_opt:
                return c.ret_lines([], "none")
            te(fn.node, f"control can fall off the end of {fn.qual}")
        if results is not None:
            c.loop_k.append(k_end)          # `continue` in a sliced loop body ends the slice
        lines = c.cs(fn.body, env, k_end)
        if results is not None:
            fn.ret = fn.slice_ret
        elif fn.mutates:
            fn.ret = dict(fn.params)[fn.mutates]
        else:
            if c.ret_inner is None:
                te(fn.node, f"{fn.qual} returns nothing")
            fn.ret = ("Opt", c.ret_inner) if c.ret_opt else c.ret_inner
        head = f"def {lean_fn_name(fn.qual)} {self.params_text(fn.params)} : {monad_type(fn.tier, fn.ret)} :="
        if fn.tier == "pure":
            text = [head] + ind(lines)
        else:
            text = [head + " do"] + ind(lines)
        src = f"/-- `{fn.qual}` (style.py line {fn.node.lineno})" + \
            (f"; raises: {', '.join(sorted(fn.effects))}" if fn.effects else "; cannot raise") + ". -/"
        pre = []
        for h in c.hoisted:
            pre += h + [""]
        self.done[fn.qual] = pre + [src] + text
        self.sequence.append(fn.qual)

    # ---- class Stats -----------------------------------------------------------------------------
    def emit_stats(self):
        dummy = Fn("Stats", self.stats_cls)
        dummy.tier, dummy.effects, dummy.params = "pure", set(), []
        c = StmtComp(self, dummy)
        c.loop_k, c.ret_inner, c.nloops, c.hoisted = [], None, 0, []
        vals = []
        for name, ty, value in self.fields:
            if ty == "Nat":
                e = c.cx(value, {})
                if e.ty != "Nat" or not isinstance(value, ast.Constant):
                    te(value, f"default of int field {name}")
                vals.append(e.term)
                continue
            # field(default_factory=<list expression>.copy): a fresh copy of that list for every Stats()
            ok = isinstance(value, ast.Call) and unparse(value.func) == "field" and not value.args \
                and len(value.keywords) == 1 and value.keywords[0].arg == "default_factory"
            fac = value.keywords[0].value if ok else None
            if ok and isinstance(fac, ast.Attribute) and fac.attr == "copy" and isinstance(fac.value, ast.ListComp):
                lst = fac.value
            elif ok and isinstance(fac, ast.Lambda) and not fac.args.args and isinstance(fac.body, (ast.ListComp, ast.List)):
                lst = fac.body
            else:
                te(value, f"default of list field {name}: only `field(default_factory=[..].copy)` or a lambda returning "
                          f"a fresh list display is a per-object list (anything else may be SHARED between Stats objects)")
            e = c.cx(lst, {})
            if e.ty != ("List", "Nat") or e.binds:
                te(value, f"default of list field {name}")
            vals.append(e.term)
        lines = ["/-- `Stats()`: the dataclass defaults, in field order, through the positional constructor of the model's",
                 "structure (style.py line %d). -/" % self.stats_cls.lineno,
                 "def Stats.default : Style.Stats :=", "  Style.Stats.mk"]
        for (name, ty, _), v in zip(self.fields, vals):
            lines.append(f"    {v}   -- {name}")
        lines += ["", "/-- the field names of the dataclass, renamed (`a_b` -> `aB`), in order. -/",
                  "def Stats.fieldNames : List String :=",
                  "  [" + ", ".join(lean_string(camel(n)) for n, _, _ in self.fields) + "]",
                  "", "/-- the fields of type `list[int]`. -/",
                  "def Stats.listFields : List String :=",
                  "  [" + ", ".join(lean_string(camel(n)) for n, t, _ in self.fields if t != "Nat") + "]"]
        lines += ["", "/-! `obj.f += v` on an int field, and the store half of `obj.l[i] += v` on a list field -/"]
        for n, t, _ in self.fields:
            f = camel(n)
            if t == "Nat":
                lines.append(f"def Stats.aug_{f} (s : Style.Stats) (v : Nat) : Style.Stats := {{ s with {f} := s.{f} + v }}")
            else:
                lines.append(f"def Stats.set_{f} (s : Style.Stats) (l : List Nat) : Style.Stats := {{ s with {f} := l }}")
        return lines

    # ---- slices ----------------------------------------------------------------------------------
    def slice_fn(self, qual, owner, stmts, params, results, ret):
        fn = Fn(qual, owner.node, None, False)
        fn.params, fn.body, fn.nested = params, stmts, []
        fn.slice_ret = ret
        self.fns[qual] = fn
        self.effects(qual)
        fn.tier = tier_of(fn.effects)
        fn.mutates = None
        self.compile_fn(fn, results=results)

    def slice_analyse_pgn(self):
        fn = self.fns["analyse_pgn"]
        loops = [n for n in ast.walk(fn.node) if isinstance(n, ast.For) and any(stmt_is_call_of(s, "analyse_game") for s in n.body)]
        if len(loops) != 1:
            te(fn.node, "analyse_pgn: expected exactly one loop that calls analyse_game")
        body = loops[0].body
        i = next(j for j, s in enumerate(body) if stmt_is_call_of(s, "analyse_game"))
        j = next((j for j in range(i, len(body)) if isinstance(body[j], ast.Assert)), None)
        if j is None:
            te(body[i], "analyse_pgn: no assert after analyse_game")
        # what surrounds the slice must be the known glue (filter test before, --games cut-off after)
        before = [unparse(s) for s in body[:i]]
        after = [unparse(s) for s in body[j + 1:]]
        if before != ["is_right = conditions(player, side, game)", "if not is_right:\n    continue"]:
            te(body[0], "analyse_pgn: unexpected statements before analyse_game: " + " | ".join(before))
        if after != ["if games and count >= games:\n    return"]:
            te(body[j], "analyse_pgn: unexpected statements after the assert: " + " | ".join(after))
        call = body[i].value
        if [unparse(a) for a in call.args] != ["game", "side", "stats"]:
            te(call, "analyse_pgn: unexpected arguments of analyse_game")
        # the model's Result type relies on this guard of analyse_pgn:
        guard = False
        for n in ast.walk(fn.node):
            if isinstance(n, ast.If) and len(n.body) == 1 and isinstance(n.body[0], ast.Continue):
                for c in ast.walk(n.test):
                    if isinstance(c, ast.Compare) and len(c.ops) == 1 and isinstance(c.ops[0], ast.NotIn) \
                            and unparse(c.left) == "game.headers['Result']" and isinstance(c.comparators[0], ast.List) \
                            and all(isinstance(x, ast.Constant) and x.value in RESULT_STRINGS for x in c.comparators[0].elts):
                        guard = True
        if not guard:
            te(fn.node, "analyse_pgn: the guard that skips games whose Result is not 1-0 / 0-1 / 1/2-1/2 is missing")
        self.slice_fn("analyse_pgn.job", fn, body[i:j + 1],
                      [("game", "Game"), ("side", "Color"), ("stats", "Stats"), ("count", "Nat")],
                      ["stats", "count"], ("Tuple", ("Stats", "Nat")))

    def slice_main(self):
        fn = self.fns["main"]
        styles = [s for s in fn.node.body if isinstance(s, ast.Assign) and unparse(s.targets[0]) == "styles"]
        loops = [n for n in fn.node.body if isinstance(n, ast.For) and unparse(n.target) == "(name, stats, _)"]
        if len(styles) != 1 or len(loops) != 1:
            te(fn.node, "main: expected one `styles = [..]` and one `for name, stats, _ in filters` loop")
        body = loops[0].body
        i = next((j for j, s in enumerate(body) if isinstance(s, ast.If) and unparse(s.test).startswith("stats.num_games")), None)
        j = next((j for j, s in enumerate(body) if isinstance(s, ast.For)), None)
        if i is None or j is None or j < i:
            te(loops[0], "main: report loop has an unexpected shape")
        for s in body[:i] + body[j + 1:]:          # only printing around the slice
            for n in ast.walk(s):
                if isinstance(n, (ast.Div, ast.Subscript, ast.Assert, ast.Raise, ast.Assign, ast.AugAssign)) or \
                        (isinstance(n, ast.Call) and unparse(n.func) not in ("print", "len")):
                    te(s, "main: unexpected computation around the report")
        self.slice_fn("main.styles", fn, [styles[0], ast.Return(ast.Name("styles", ast.Load()))], [], None, None)
        self.slice_fn("main.report", fn, [styles[0]] + body[i:j + 1],
                      [("stats", "Stats"), ("args", "Args")], [], "Unit")


# ==================================================================================================
# the fixed library prelude (Python built-ins used by the script; NOT generated from style.py)
# ==================================================================================================
PRELUDE = r"""namespace Py

/-- Python exception classes of the translated code: the model's three plus `RuntimeError`. -/
inductive Exc where
  | base (e : Style.PyErr)
  | runtime
  deriving DecidableEq, Repr, Inhabited

/-- a callee that can only raise the model's three classes, called from code that can also `raise RuntimeError`. -/
def lift {α : Type} : Except Style.PyErr α → Except Exc α
  | .ok a => .ok a
  | .error e => .error (.base e)

/-- `enumerate(l)` as the list of `(index, item)` pairs, indices starting at `i`. -/
def enumerateFrom {α : Type} : Nat → List α → List (Nat × α)
  | _, [] => []
  | i, x :: xs => (i, x) :: enumerateFrom (i + 1) xs

def enumerate {α : Type} (l : List α) : List (Nat × α) := enumerateFrom 0 l

/-- `range(a, b)` for non-negative literals. -/
def range (a b : Nat) : List Nat := List.range' a (b - a)

/-- `l[i]` for an `int` index that may be negative (Python counts from the end then). -/
def getAtI (l : List Nat) (i : Int) : Except Style.PyErr Nat :=
  if 0 ≤ i then Style.getAt l i.toNat
  else if 0 ≤ i + (l.length : Int) then Style.getAt l (i + (l.length : Int)).toNat
  else .error .index

/-- `l[i] += v` (non-negative index): load (IndexError), add, store. -/
def augAdd (l : List Nat) (i : Nat) (v : Nat) : Except Style.PyErr (List Nat) :=
  if h : i < l.length then .ok (l.set i (l[i] + v)) else .error .index

/-- `l[i] += v` for an `int` index that may be negative. -/
def augAddI (l : List Nat) (i : Int) (v : Nat) : Except Style.PyErr (List Nat) :=
  if 0 ≤ i then augAdd l i.toNat v
  else if 0 ≤ i + (l.length : Int) then augAdd l (i + (l.length : Int)).toNat v
  else .error .index

/-- `sum(l)` of floats: `0 + l[0] + l[1] + …`, left to right. -/
def sumQ (l : List Style.Q) : Style.Q := l.foldl Style.Q.add (Style.Q.nat 0)

/-- `sum(l)` of ints, left to right. -/
def sumNat (l : List Nat) : Nat := l.foldl (· + ·) 0

/-- `sum(f(x) for x in xs)`, ints, `f` cannot raise. -/
def sumGen {α : Type} (f : α → Nat) (xs : List α) : Nat := xs.foldl (fun acc x => acc + f x) 0

/-- `sum(f(x) for x in xs)`, ints, `f` may raise: the items are produced and added one at a time. -/
def sumGenM {α : Type} (f : α → Except Style.PyErr Nat) : List α → Nat → Except Style.PyErr Nat
  | [], acc => .ok acc
  | x :: xs, acc =>
    match f x with
    | .error e => .error e
    | .ok v => sumGenM f xs (acc + v)

/-- `max(l)` of a non-empty list of non-negative ints. -/
def listMax (l : List Nat) : Nat := l.foldl Nat.max 0

/-- float comparison `a == b`. -/
def qeq (a b : Style.Q) : Bool := decide (a.num * b.den = b.num * a.den)

/-- the piece counts of one board: `(white, black)`. -/
abbrev CountBoard := Style.PieceCounts × Style.PieceCounts

/-- `board.pieces(_, colour)` of a final board. -/
def counts (b : CountBoard) (c : Style.Color) : Style.PieceCounts := if c == Style.WHITE then b.1 else b.2

end Py
"""


def generate(text):
    em = Emitter(text)
    out = ["-- GENERATED by tools/py2lean_style.py from tools/style/style.py on every run. Do not edit.",
           "import Rawr.Model.Style",
           "set_option linter.unusedVariables false",
           "namespace Rawr.PyStyle",
           "open Rawr",
           "",
           "/-! ## Library mapping (fixed text): the Python built-ins the script uses -/",
           PRELUDE.strip("\n"),
           "",
           "/-! ## class Stats -/"]
    out += em.emit_stats()
    order = [q for q in em.order if q not in Module.SLICED]
    for q in order:
        em.ensure(q)
    em.slice_analyse_pgn()
    em.slice_main()
    out += ["", "/-! ## functions (in dependency order) -/"]
    for q in em.sequence:
        out += [""] + em.done[q]
    out += ["", "end Rawr.PyStyle", ""]
    return "\n".join(out), em


def main():
    try:
        text = open(SRC).read()
        lean, em = generate(text)
    except TranslateError as ex:
        print("TRANSLATE-ERROR " + str(ex))
        sys.exit(3)
    except SyntaxError as ex:
        print(f"TRANSLATE-ERROR style.py does not parse: {ex}")
        sys.exit(3)
    except Exception as ex:        # an unexpected shape of the AST is an unsupported construct, not a crash
        import traceback
        tb = traceback.extract_tb(ex.__traceback__)[-1]
        print(f"TRANSLATE-ERROR unsupported construct (internal {type(ex).__name__}: {ex} at {os.path.basename(tb.filename)}:{tb.lineno})")
        sys.exit(3)
    os.makedirs(os.path.dirname(OUT), exist_ok=True)
    old = open(OUT).read() if os.path.exists(OUT) else None
    if old != lean:
        with open(OUT, "w") as f:
            f.write(lean)
    print(f"py2lean_style: {len(em.sequence)} definitions from {SRC} -> {OUT}" + ("" if old != lean else " (unchanged)"))
    print("  translated: Stats (fields/defaults), " + ", ".join(em.sequence))
    print("  not translated: print_text; analyse_pgn and main outside the slices analyse_pgn.job / main.styles / main.report")


if __name__ == "__main__":
    main()
