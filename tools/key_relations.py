#!/usr/bin/env python3
"""C04, distinctness clause: search the Zobrist key table of /repo's CURRENT zobrist.rs for short XOR relations.

A set S of keys with XOR(S) = 0 means that two positions whose key components differ exactly by S have the SAME position key.
781 64-bit keys are necessarily linearly dependent over GF(2), so long relations exist; a SHORT one (<= 5 terms) means that two
positions differing in a handful of components (a piece on one of two squares, a castling right, an en-passant file, the side to
move) collide. Relations of up to 4 terms are searched exhaustively; 5-term relations exhaustively when --full (thorough tier),
otherwise those containing at least one castling / en-passant / side key.

Output: one JSON object on stdout: {"keys": 781, "searched": "...", "relations": [[label, ...], ...]}
Run with the tooling interpreter (numpy): python3-vt tools/key_relations.py [--full]
"""
import json
import os
import sys

import numpy as np

sys.path.insert(0, os.path.dirname(os.path.abspath(__file__)))
import extract  # noqa: E402

PIECES = "PNBRQK"


def labels_and_keys():
    src = extract.strip_comments(extract.read("src/chess/zobrist.rs"))
    keys = extract.num_array(src, "KEYS", 768, "zobrist.rs")
    ep = extract.num_array(src, "KEYS_EP", 8, "zobrist.rs")
    ca = extract.num_array(src, "KEYS_CASTLING", 4, "zobrist.rs")
    _, turn = extract.const_block(src, "KEYS_TURN", "zobrist.rs")
    turn = extract.num(turn.strip().rstrip(";").strip())
    labs = []
    for i in range(768):
        colour, rest = divmod(i, 384)
        piece, sq = divmod(rest, 64)
        labs.append(f"{'wb'[colour]}{PIECES[piece]}@{'abcdefgh'[sq % 8]}{sq // 8 + 1}")
    labs += [f"ep:{'abcdefgh'[f]}" for f in range(8)] + ["castle:K", "castle:Q", "castle:k", "castle:q", "turn"]
    return labs, [int(k) for k in keys] + [int(k) for k in ep] + [int(k) for k in ca] + [int(turn)]


def main():
    full = "--full" in sys.argv
    labs, keys = labels_and_keys()
    n = len(keys)
    K = np.array(keys, dtype=np.uint64)
    rel = set()
    # 1 term (a zero key) and 2 terms (duplicates)
    for i in range(n):
        if keys[i] == 0:
            rel.add((i,))
    order = np.argsort(K, kind="stable")
    for a, b in zip(order[:-1], order[1:]):
        if K[a] == K[b]:
            rel.add(tuple(sorted((int(a), int(b)))))
    # pairs
    I, J = np.triu_indices(n, 1)
    P = K[I] ^ K[J]
    po = np.argsort(P, kind="stable")
    Ps, Is, Js = P[po], I[po], J[po]
    # 3 terms: k_c = k_a ^ k_b
    idx = np.searchsorted(Ps, K)
    idx[idx >= len(Ps)] = len(Ps) - 1
    for c in np.nonzero(Ps[idx] == K)[0]:
        a, b = int(Is[idx[c]]), int(Js[idx[c]])
        if int(c) not in (a, b):
            rel.add(tuple(sorted((a, b, int(c)))))
    # 4 terms: equal pair XORs with disjoint pairs
    eq = np.nonzero(Ps[:-1] == Ps[1:])[0]
    for t in eq:
        s = {int(Is[t]), int(Js[t]), int(Is[t + 1]), int(Js[t + 1])}
        if len(s) == 4:
            rel.add(tuple(sorted(s)))
    # 5 terms: k_c ^ (pair) = (pair)
    firsts = range(n) if full else range(768, n)
    for c in firsts:
        T = K[c] ^ Ps
        idx = np.searchsorted(Ps, T)
        idx[idx >= len(Ps)] = len(Ps) - 1
        hit = np.nonzero(Ps[idx] == T)[0]
        for h in hit:
            s = {c, int(Is[h]), int(Js[h]), int(Is[idx[h]]), int(Js[idx[h]])}
            if len(s) == 5:
                rel.add(tuple(sorted(s)))
    out = {"keys": n,
           "searched": "all XOR relations of up to 4 keys; 5-key relations: " + ("all" if full else "those containing a castling, en-passant or side-to-move key"),
           "relations": [[labs[i] for i in r] for r in sorted(rel, key=lambda r: (len(r), r))][:50]}
    print(json.dumps(out))


if __name__ == "__main__":
    try:
        main()
    except extract.ExtractError as e:
        print(json.dumps({"error": str(e)}))
        sys.exit(3)
