#!/usr/bin/env python3
"""Run registered checks against a candidate change: apply the patch to /repo, run ./check for the given
properties (quick tier unless --tier), print which ones raise a VIOLATION, and ALWAYS restore /repo.
usage: tools/trial.py <patch.diff> [--tier quick] [--repo <scratch worktree>] C01 C08 ...   (no property list = all 20)
--repo: apply to and check a scratch worktree instead of /repo (RAWR_REPO), e.g. while something else reads /repo."""
import json, os, subprocess, sys, time
VERIF = os.path.dirname(os.path.dirname(os.path.abspath(__file__)))
REPO = "/repo"
def main():
    global REPO
    args = sys.argv[1:]
    tier = "quick"
    if "--repo" in args:
        i = args.index("--repo"); REPO = os.path.abspath(args[i + 1]); del args[i:i + 2]
    env = dict(os.environ, RAWR_REPO=REPO)
    if "--tier" in args:
        i = args.index("--tier"); tier = args[i + 1]; del args[i:i + 2]
    patch = os.path.abspath(args[0])
    props = args[1:] or ["C%02d" % i for i in range(1, 21)]
    st = subprocess.run(["git", "-C", REPO, "status", "--porcelain", "--untracked-files=no"], capture_output=True, text=True).stdout.strip()
    if st:
        print("refusing: /repo has uncommitted changes:\n" + st); return 2
    r = subprocess.run(["git", "-C", REPO, "apply", patch], capture_output=True, text=True)
    if r.returncode != 0:
        print("patch does not apply: " + r.stderr); return 2
    out = {}
    # evidence files must describe the UNCHANGED tree: keep the current ones aside and put them back afterwards
    import shutil, tempfile
    keep = tempfile.mkdtemp(prefix="evidence_keep_")
    evd = os.path.join(VERIF, "evidence")
    if os.path.isdir(evd):
        shutil.copytree(evd, os.path.join(keep, "evidence"))
    try:
        for p in props:
            t0 = time.time()
            q = subprocess.run([os.path.join(VERIF, "check"), p, "--tier", tier], cwd=VERIF, capture_output=True, text=True, timeout=7200, env=env)
            lines = [l for l in q.stdout.splitlines() if l.startswith(("VIOLATION", "KNOWN-FINDING", "CHECK-ERROR"))]
            out[p] = {"rc": q.returncode, "lines": lines, "secs": round(time.time() - t0, 1)}
            print(p, q.returncode, "; ".join(l[:160] for l in lines), flush=True)
            if q.returncode not in (0, 1):
                print(q.stdout[-800:], q.stderr[-800:])
    finally:
        subprocess.run(["git", "-C", REPO, "checkout", "--", "."], check=True)
        if os.path.isdir(os.path.join(keep, "evidence")):
            shutil.rmtree(evd, ignore_errors=True)
            shutil.copytree(os.path.join(keep, "evidence"), evd)
        shutil.rmtree(keep, ignore_errors=True)
        # put the translated files back in step with the restored sources
        subprocess.run([sys.executable, os.path.join(VERIF, "tools", "rust2lean.py")], capture_output=True, env=env)
        subprocess.run([sys.executable, os.path.join(VERIF, "tools", "rust2lean_imp.py")], capture_output=True, env=env)
        subprocess.run([sys.executable, os.path.join(VERIF, "tools", "rust2lean_search.py")], capture_output=True, env=env)
        subprocess.run([sys.executable, os.path.join(VERIF, "tools", "rust2lean_text.py")], capture_output=True, env=env)
        subprocess.run([sys.executable, os.path.join(VERIF, "tools", "py2lean_style.py")], capture_output=True, env=env)
        subprocess.run([sys.executable, os.path.join(VERIF, "tools", "rust2lean_session.py")], capture_output=True, env=env)
        # extract.py's outputs (constants, tables) and the harness' path dependency are rewritten by every check as well: put the
        # committed text back so that nothing of the trial stays in the working tree (every check regenerates them anyway)
        subprocess.run(["git", "-C", VERIF, "checkout", "--", "lean/Rawr/Generated", "harness/Cargo.toml"], capture_output=True)
    print(json.dumps({"patch": patch, "tier": tier, "caught_by": [p for p, v in out.items() if v["rc"] == 1], "results": out}))
    return 0
if __name__ == "__main__":
    sys.exit(main())
