#!/usr/bin/env python3
"""Rust -> Lean translator for the IMPERATIVE core functions of kz04px/rawr.

Regenerates lean/Rawr/Generated/RustImp.lean from the CURRENT sources on every run.  Every definition
`Rawr.R.<fn>` in that file is obtained by parsing the Rust function body (tokenizer, expression parser with the
Rust operator precedences, statement parser) and compiling it statement by statement into a Lean term over the
model's data representation (`Position` record, `BB`, squares as `Nat`, `Option` monad for `unwrap`).
`lean/Rawr/Proofs/RustImpAgree*.lean` proves `R.<fn> = <model function>`; a change to the Rust text of one of
these functions changes the emitted definition and breaks the agreement theorem on the next run.

The mapping is generic (no per-function templates): per function we only choose the Lean name/binders and the
callee table.  Unknown constructs raise TranslateError (exit status 3, line `TRANSLATE-ERROR ...`).
Deliberately dropped: `debug_assert!`/`debug_assert_eq!`/`debug_assert_ne!` statements, `#[...]` attributes,
comments, numeric `as` casts, `&`/`*` (reference/dereference), `.0` (newtype projection).

Statement -> term mapping
  let x = e;                         let x := e
  x op= e; / self.f op= e;           let x := x op e        /  let s := { s with f := s.f op e }
  self.pieces[i] op= e (i variable)  let s := Position.setPiece s i (Position.piece s i op e)
  (a, b) = (c, d);                   let s := { s with a := c, b := d }            (simultaneous)
  if c {..} [else if ..] [else ..]   let v := if c then (..; v) else v             (v = the mutated variable)
  if let Some(x) = e {..}            let v := match e with | some x => (..; v) | none => v
  if e.is_some() {.. e.unwrap() ..}  the same `match`, e.unwrap() being the bound variable
  for x in bb {..}                   let v := (toList bb).foldl (fun v x => ..; v) v
  for i in 0..n {..}                 let v := (List.range n).foldl (fun v i => ..; v) v
  for x in bb { if c { return r; } } if (toList bb).any (fun x => c) then r else <rest>
  if c { return r; } <rest>          if c then r else <rest>
  if .. { .. return r; .. } <rest>   match (<the if, with `some r` for return and `none` for fall-through>) with
                                       | some r => r | none => <rest>
  e.unwrap()  (unguarded)            `let e_u <- e` in the Option monad just before the statement (the function
                                     then returns `Option _`; `none` = the optimised build panics)
  a.is_some() && a.unwrap() == b     a.isSome && a == some b
  obj.mutating_method(..);           let obj := R.method obj ..      (or `let obj <- ..` if it can panic)
  if c { x = e1; y = e2; }           let x := if c then e1 else x; let y := if c then e2 else y   (independent e_i)
  if c {..}  updating x and y        let st := if c then (..; (x, y)) else (x, y); let x := st.1; let y := st.2
  let (a, b) = { ..; (e1, e2) };     let a_b := (..; (e1, e2)); let a := a_b.1; let b := a_b.2
  let x = if c {..} else {..};       let x := if c then .. else ..
  let mut n = 0; / Vec::with_capacity(..)   the type is taken from the later uses (i32 -> Int, Vec<Mv> -> List Mv)
  v.push(e);                         let v := v ++ [e]
Functions with a callback parameter `func: impl FnMut(Piece, Square, Square, Piece)` are compiled to the LIST of the
callback invocations in order (`List GMv`):
  func(a, b, c, d);                  [gm a b c d]                      (consecutive calls: one list literal)
  s1; s2                             calls1 ++ calls2                  (each compound statement is `let callsK := ..`)
  if c {..} [else {..}]              if c then .. else .. / []
  for x in bb {..}                   (toList bb).flatMap (fun x => ..)   (`map` when the body is a single call)
  obj.method(|a, b, c, d| { body })  let v := (R.method obj).foldl (fun v g => let a := g.piece; ..; body) v
                                     (`return;` in the closure body ends that invocation)
Functions whose bodies START with the same statements (compared as syntax trees; move_generator / count_moves) have
the shared statements compiled once, as `R.<name>_prefix`, returning the tuple of the variables used afterwards.
"""
import os
import re
import sys

REPO = os.environ.get("RAWR_REPO", "/repo")
VERIF = os.environ.get("RAWR_VERIF", os.path.dirname(os.path.dirname(os.path.abspath(__file__))))
OUT = os.environ.get("RAWR_IMP_OUT", os.path.join(VERIF, "lean", "Rawr", "Generated", "RustImp.lean"))


class TranslateError(Exception):
    pass


class NeedMonad(Exception):
    pass


# --------------------------------------------------------------------------------------------- lexer
TOK = re.compile(r"""\s*(?:
   (?P<str>"(?:[^"\\]|\\.)*")
  |(?P<num>0x[0-9a-fA-F_]+(?:u64|u32|u8|i32|usize)?|\d[\d_]*(?:u64|u32|u8|i32|usize)?)
  |(?P<life>'[A-Za-z_][A-Za-z0-9_]*(?!'))
  |(?P<id>[A-Za-z_][A-Za-z0-9_]*)
  |(?P<op><<=|>>=|\.\.=|::|->|=>|<<|>>|<=|>=|==|!=|&&|\|\||\+=|-=|\*=|/=|%=|\^=|\|=|&=|\.\.|[-+*/%&|^!<>=.,;:(){}\[\]\#?@])
)""", re.X)


def strip_comments(src):
    return re.sub(r"//[^\n]*", "", src)


def tokenize(src):
    pos, out = 0, []
    n = len(src)
    while pos < n:
        if src[pos:].strip() == "":
            break
        m = TOK.match(src, pos)
        if not m:
            raise TranslateError("cannot tokenize near: " + src[pos:pos + 40].strip())
        kind = m.lastgroup
        out.append((kind, m.group(kind)))
        pos = m.end()
    return out


# --------------------------------------------------------------------------------------------- parser
ASSIGN_OPS = ("=", "^=", "|=", "&=", "+=", "-=", "*=", "/=", "%=", "<<=", ">>=")
DROPPED_MACROS = ("debug_assert", "debug_assert_eq", "debug_assert_ne")


class Parser:
    """Rust subset -> AST (nested tuples)."""

    def __init__(self, toks, what):
        self.t, self.i, self.what = toks, 0, what

    def err(self, msg):
        ctx = " ".join(v for _, v in self.t[max(0, self.i - 4):self.i + 6])
        raise TranslateError(f"{self.what}: {msg} near `{ctx}`")

    def peek(self, k=0):
        return self.t[self.i + k][1] if self.i + k < len(self.t) else None

    def peekkind(self, k=0):
        return self.t[self.i + k][0] if self.i + k < len(self.t) else None

    def eat(self, x=None):
        tok = self.peek()
        if tok is None or (x is not None and tok != x):
            self.err(f"expected {x!r}, got {tok!r}")
        self.i += 1
        return tok

    def ident(self):
        if self.peekkind() != "id":
            self.err("identifier expected")
        return self.eat()

    # ---- types
    def type_(self):
        while self.peek() in ("&", "mut") or self.peekkind() == "life":
            self.eat()
        if self.peek() == "(":
            self.eat("(")
            items = []
            while self.peek() != ")":
                items.append(self.type_())
                if self.peek() == ",":
                    self.eat(",")
            self.eat(")")
            return ("tuple", items)
        if self.peek() == "impl":
            # impl FnMut(A, B, ..)
            self.eat("impl")
            name = self.ident()
            args = []
            self.eat("(")
            while self.peek() != ")":
                args.append(self.type_())
                if self.peek() == ",":
                    self.eat(",")
            self.eat(")")
            return ("fn", name, args)
        name = self.ident()
        while self.peek() == "::":
            self.eat("::")
            name = self.ident()
        args = []
        if self.peek() == "<":
            self.eat("<")
            while self.peek() != ">":
                args.append(self.type_())
                if self.peek() == ",":
                    self.eat(",")
            self.eat(">")
        return ("ty", name, args)

    # ---- function header
    def function(self):
        self.eat("fn")
        name = self.ident()
        generics = []
        if self.peek() == "<":
            self.eat("<")
            while self.peek() != ">":
                self.eat("const")
                g = self.ident()
                self.eat(":")
                generics.append((g, self.type_()))
                if self.peek() == ",":
                    self.eat(",")
            self.eat(">")
        self.eat("(")
        params = []
        selfkind = None
        while self.peek() != ")":
            if self.peek() == "&" and self.peek(1) == "self":
                self.eat(), self.eat()
                selfkind = "ref"
            elif self.peek() == "&" and self.peek(1) == "mut" and self.peek(2) == "self":
                self.eat(), self.eat(), self.eat()
                selfkind = "mut"
            elif self.peek() == "self":
                self.eat()
                selfkind = "ref"
            else:
                if self.peek() == "mut":
                    self.eat()
                p = self.ident()
                self.eat(":")
                params.append((p, self.type_()))
            if self.peek() == ",":
                self.eat(",")
        self.eat(")")
        ret = None
        if self.peek() == "->":
            self.eat("->")
            ret = self.type_()
        body = self.block()
        return {"name": name, "generics": generics, "self": selfkind, "params": params, "ret": ret, "body": body}

    # ---- statements
    def skip_attribute(self):
        self.eat("#")
        self.eat("[")
        depth = 1
        while depth:
            t = self.eat()
            depth += (t == "[") - (t == "]")

    def skip_macro_args(self):
        self.eat("(")
        depth = 1
        while depth:
            t = self.eat()
            depth += (t == "(") - (t == ")")

    def block(self):
        self.eat("{")
        stmts = []
        while self.peek() != "}":
            s = self.statement()
            if s is not None:
                stmts.append(s)
        self.eat("}")
        for s in stmts[:-1]:
            if s[0] == "tail":
                self.err("expression without `;` in the middle of a block")
        return stmts

    def pattern(self):
        if self.peek() == "(":
            self.eat("(")
            names = []
            while self.peek() != ")":
                if self.peek() == "mut":
                    self.eat()
                names.append(self.ident())
                if self.peek() == ",":
                    self.eat(",")
            self.eat(")")
            return ("ptuple", names)
        if self.peek() == "mut":
            self.eat()
        return ("pvar", self.ident())

    def statement(self):
        t = self.peek()
        if t == "#":
            self.skip_attribute()
            return None
        if t == ";":
            self.eat()
            return None
        if self.peekkind() == "id" and self.peek(1) == "!" and self.peek(2) == "(":
            name = self.eat()
            self.eat("!")
            if name not in DROPPED_MACROS:
                self.err(f"macro {name}! is not supported")
            self.skip_macro_args()
            if self.peek() == ";":
                self.eat(";")
            return None
        if t == "let":
            self.eat("let")
            mutable = self.peek() == "mut"
            pat = self.pattern()
            ty = None
            if self.peek() == ":":
                self.eat(":")
                ty = self.type_()
            self.eat("=")
            e = self.expr()
            self.eat(";")
            return ("let", pat, mutable, ty, e)
        if t == "if":
            s = self.if_()
            if self.peek() == ";":
                self.eat(";")
            return s
        if t == "for":
            self.eat("for")
            pat = self.pattern()
            self.eat("in")
            it = self.expr(nostruct=True)
            body = self.block()
            return ("for", pat, it, body)
        if t == "return":
            self.eat("return")
            e = None
            if self.peek() != ";":
                e = self.expr()
            self.eat(";")
            return ("return", e)
        if t in ("while", "loop", "match", "break", "continue"):
            self.err(f"`{t}` is not supported")
        e = self.expr()
        if self.peek() in ASSIGN_OPS:
            op = self.eat()
            rhs = self.expr()
            if self.peek() != "}":
                self.eat(";")
            return ("assign", op, e, rhs)
        if self.peek() == ";":
            self.eat(";")
            return ("expr", e)
        if self.peek() == "}":
            return ("tail", e)
        self.err("statement not recognised")

    def if_(self):
        branches = []
        els = None
        while True:
            self.eat("if")
            if self.peek() == "let":
                self.eat("let")
                ctor = self.ident()
                if ctor != "Some":
                    self.err("only `if let Some(x) = e` is supported")
                self.eat("(")
                v = self.ident()
                self.eat(")")
                self.eat("=")
                e = self.expr(nostruct=True)
                cond = ("iflet", v, e)
            else:
                cond = ("cond", self.expr(nostruct=True))
            blk = self.block()
            branches.append((cond, blk))
            if self.peek() == "else":
                self.eat("else")
                if self.peek() == "if":
                    continue
                els = self.block()
            break
        return ("if", branches, els)

    # ---- expressions
    LEVELS = [["||"], ["&&"], ["==", "!=", "<", ">", "<=", ">="], ["|"], ["^"], ["&"], ["<<", ">>"], ["+", "-"],
              ["*", "/", "%"]]

    def expr(self, nostruct=False):
        old = getattr(self, "nostruct", False)
        self.nostruct = nostruct
        try:
            e = self.binary(0)
            if self.peek() == "..":
                self.eat("..")
                hi = self.binary(0)
                e = ("range", e, hi)
            return e
        finally:
            self.nostruct = old

    def binary(self, lvl):
        if lvl == len(self.LEVELS):
            return self.cast()
        left = self.binary(lvl + 1)
        while self.peek() in self.LEVELS[lvl]:
            op = self.eat()
            right = self.binary(lvl + 1)
            if lvl == 2 and self.peek() in self.LEVELS[2]:
                self.err("chained comparison")
            left = ("binary", op, left, right)
        return left

    def cast(self):
        e = self.unary()
        while self.peek() == "as":
            self.eat("as")
            e = ("cast", e, self.type_())
        return e

    def unary(self):
        t = self.peek()
        if t == "!":
            self.eat()
            return ("unary", "!", self.unary())
        if t == "-":
            self.eat()
            return ("unary", "-", self.unary())
        if t == "&":
            self.eat()
            if self.peek() == "mut":
                self.eat()
            return self.unary()            # a reference: same value in the model
        if t == "*":
            self.eat()
            return self.unary()            # a dereference: same value in the model
        return self.postfix()

    def args(self):
        self.eat("(")
        old = self.nostruct
        self.nostruct = False
        a = []
        while self.peek() != ")":
            a.append(self.expr())
            if self.peek() == ",":
                self.eat(",")
        self.eat(")")
        self.nostruct = old
        return a

    def turbofish(self):
        g = []
        if self.peek() == "::" and self.peek(1) == "<":
            self.eat("::")
            self.eat("<")
            while self.peek() != ">":
                g.append(self.eat())
                if self.peek() == ",":
                    self.eat(",")
            self.eat(">")
        return g

    def postfix(self):
        e = self.primary()
        while True:
            t = self.peek()
            if t == ".":
                self.eat(".")
                if self.peekkind() == "num":
                    e = ("field", e, self.eat())
                    continue
                name = self.ident()
                g = self.turbofish()
                if self.peek() == "(":
                    e = ("mcall", e, name, g, self.args())
                else:
                    if g:
                        self.err("generic arguments on a field")
                    e = ("field", e, name)
            elif t == "(":
                e = ("call", e, self.args())
            elif t == "[":
                self.eat("[")
                old = self.nostruct
                self.nostruct = False
                idx = self.expr()
                self.nostruct = old
                self.eat("]")
                e = ("index", e, idx)
            elif t == "?":
                self.err("`?` is not supported")
            else:
                return e

    def primary(self):
        kind, tok = self.peekkind(), self.peek()
        if tok == "(":
            self.eat("(")
            if self.peek() == ")":
                self.eat(")")
                return ("unit",)
            old = self.nostruct
            self.nostruct = False
            e = self.expr()
            if self.peek() == ",":
                items = [e]
                while self.peek() == ",":
                    self.eat(",")
                    if self.peek() == ")":
                        break
                    items.append(self.expr())
                self.eat(")")
                self.nostruct = old
                return ("tuple", items)
            self.eat(")")
            self.nostruct = old
            return ("paren", e)
        if kind == "num":
            return ("num", self.eat())
        if kind == "str":
            return ("str", self.eat())
        if tok == "if":
            return ("ifexpr", self.if_())
        if tok == "{":
            return ("blockexpr", self.block())
        if tok == "|":
            # closure |a, b| body
            self.eat("|")
            ps = []
            while self.peek() != "|":
                ps.append(self.ident())
                if self.peek() == ",":
                    self.eat(",")
            self.eat("|")
            if self.peek() == "{":
                body = self.block()
            else:
                body = [("tail", self.expr())]
            return ("closure", ps, body)
        if kind == "id":
            segs = [self.eat()]
            gen = []
            while self.peek() == "::":
                if self.peek(1) == "<":
                    gen = self.turbofish()
                    break
                self.eat("::")
                segs.append(self.ident())
            if self.peek() == "{" and not self.nostruct and segs[-1][0].isupper():
                self.eat("{")
                fields = []
                while self.peek() != "}":
                    f = self.ident()
                    if self.peek() == ":":
                        self.eat(":")
                        v = self.expr()
                    else:
                        v = ("path", [f], [])
                    fields.append((f, v))
                    if self.peek() == ",":
                        self.eat(",")
                self.eat("}")
                return ("struct", segs, fields)
            return ("path", segs, gen)
        self.err(f"unexpected token {tok!r}")


def find_fn(src, name, what):
    """tokens of `fn name ... { body }` (first occurrence outside `#[cfg(test)]`)."""
    cut = src.find("#[cfg(test)]")
    if cut >= 0:
        src = src[:cut]
    m = re.search(r"\bfn\s+" + re.escape(name) + r"\b", src)
    if not m:
        raise TranslateError(f"{what}: fn {name} not found")
    i = src.index("{", m.end())
    depth, j = 1, i + 1
    while depth:
        if j >= len(src):
            raise TranslateError(f"{what}: unbalanced braces in fn {name}")
        c = src[j]
        depth += (c == "{") - (c == "}")
        j += 1
    return tokenize(src[m.start():j])


# --------------------------------------------------------------------------------------------- types
# model representation:  BB = BitVec 64 (Bitboard, u64 hash), Sq/Nat = Nat, Int = i32, Pc = Nat (Piece),
# Colour = Bool (true = Black), Side = Bool (true = Them), Score = Int x Int, Pos = Position, Mv, ("Opt", t)
LEAN_TY = {"BB": "BB", "Sq": "Nat", "Nat": "Nat", "Int": "Int", "Bool": "Bool", "Pc": "Pc", "Colour": "Bool",
           "Side": "Bool", "Score": "Score", "Pos": "Position", "Mv": "Mv", "Str": "String", "GMv": "GMv"}


def lean_ty(t):
    if isinstance(t, tuple) and t[0] == "Opt":
        return "Option " + lean_ty_atom(t[1])
    if isinstance(t, tuple) and t[0] == "Tup":
        return " × ".join(lean_ty_atom(x) for x in t[1])
    if isinstance(t, tuple) and t[0] == "List":
        return "List " + lean_ty_atom(t[1])
    if t in LEAN_TY:
        return LEAN_TY[t]
    raise TranslateError(f"no Lean type for {t!r}")


def lean_ty_atom(t):
    s = lean_ty(t)
    return f"({s})" if " " in s else s


def conv_type(t):
    if t is None:
        return "Unit"
    if t[0] == "tuple":
        if not t[1]:
            return "Unit"
        return ("Tup", [conv_type(x) for x in t[1]])
    if t[0] == "fn":
        return ("Fn", [conv_type(x) for x in t[2]])
    _, name, args = t
    simple = {"Bitboard": "BB", "u64": "BB", "Square": "Sq", "bool": "Bool", "i32": "Int", "usize": "Nat", "u8": "Nat",
              "Piece": "Pc", "Colour": "Colour", "Side": "Side", "Score": "Score", "Position": "Pos", "Self": "Pos",
              "Mv": "Mv", "str": "Str"}
    if name in simple and not args:
        return simple[name]
    if name == "Option" and len(args) == 1:
        return ("Opt", conv_type(args[0]))
    if name == "Result" and len(args) == 2 and conv_type(args[0]) == "Unit" and conv_type(args[1]) == "Str":
        return ("Opt", "Str")               # Ok(()) = none, Err(msg) = some msg
    if name == "Vec" and len(args) == 1:
        return ("List", conv_type(args[0]))
    raise TranslateError(f"type {name}<{args}> is not supported")


POS_FIELDS = {"halfmoves": ("halfmoves", "Int"), "fullmoves": ("fullmoves", "Int"), "turn": ("black", "Colour"),
              "ep": ("ep", ("Opt", "Sq")), "us_ksc": ("usK", "Bool"), "us_qsc": ("usQ", "Bool"),
              "them_ksc": ("themK", "Bool"), "them_qsc": ("themQ", "Bool"), "hash": ("hash", "BB"),
              "is_frc": ("frc", "Bool")}
POS_ARRAYS = {"colours": ("c", 2, "BB"), "pieces": ("p", 6, "BB"), "castle_files": ("cf", 4, "Nat")}
MV_FIELDS = {"from": ("src", "Sq"), "to": ("dst", "Sq"), "promo": ("promo", "Pc")}
ENUMS = {("Piece", "Pawn"): ("0", "Pc", 0), ("Piece", "Knight"): ("1", "Pc", 1), ("Piece", "Bishop"): ("2", "Pc", 2),
         ("Piece", "Rook"): ("3", "Pc", 3), ("Piece", "Queen"): ("4", "Pc", 4), ("Piece", "King"): ("5", "Pc", 5),
         ("Piece", "None"): ("6", "Pc", 6),
         ("Colour", "White"): ("false", "Colour", 0), ("Colour", "Black"): ("true", "Colour", 1),
         ("Side", "Us"): ("false", "Side", 0), ("Side", "Them"): ("true", "Side", 1)}
# tables that stay model constants (translated separately by tools/extract.py)
TABLES = {"KEYS": ("Rawr.genKeys.piece", 1, "BB"), "KEYS_EP": ("Rawr.genKeys.ep", 1, "BB"),
          "KEYS_CASTLING": ("Rawr.genKeys.castling", 1, "BB"),
          "PIECE_VALUES": ("Rawr.genEvalTables.pieceValue", 1, "Score"),
          "PASSED_PAWNS": ("Rawr.genEvalTables.passed", 1, "Score"), "PST": ("Rawr.genEvalTables.pst", 2, "Score")}
CONSTS = {"KEYS_TURN": ("Rawr.genKeys.turn", "BB"), "ROOK_OPEN_FILE": ("Rawr.genEvalTables.rookOpenFile", "Score"),
          "KING_PAWN_SHIELD": ("Rawr.genEvalTables.kingPawnShield", "Score")}
# primitive methods: (receiver type, name) -> (lean function, argument types, result type)
PRIM_METHODS = {
    ("BB", "north"): ("Rawr.north", [], "BB"), ("BB", "south"): ("Rawr.south", [], "BB"),
    ("BB", "east"): ("Rawr.east", [], "BB"), ("BB", "west"): ("Rawr.west", [], "BB"),
    ("BB", "north_east"): ("Rawr.northEast", [], "BB"), ("BB", "north_west"): ("Rawr.northWest", [], "BB"),
    ("BB", "south_east"): ("Rawr.southEast", [], "BB"), ("BB", "south_west"): ("Rawr.southWest", [], "BB"),
    ("BB", "north_north"): ("Rawr.northNorth", [], "BB"), ("BB", "adjacent"): ("Rawr.adjacent", [], "BB"),
    ("BB", "flip"): ("Rawr.flipBB", [], "BB"), ("BB", "lsb"): ("Rawr.lsb", [], "Sq"), ("BB", "hsb"): ("Rawr.hsb", [], "Sq"),
    ("BB", "is_set"): ("Rawr.BB.isSet", ["Sq"], "Bool"), ("BB", "is_occupied"): ("Rawr.BB.isOcc", [], "Bool"),
    ("BB", "is_empty"): ("Rawr.BB.isEmpty", [], "Bool"),
    ("Sq", "file"): ("Rawr.fileOf", [], "Nat"), ("Sq", "rank"): ("Rawr.rankOf", [], "Nat"),
    ("Sq", "flip"): ("Rawr.flipSq", [], "Sq"), ("Sq", "maybe_flip"): ("Rawr.maybeFlip", ["Bool"], "Sq"),
}
# primitive free functions / constructors: path -> (lean function, argument types, result type)
PRIM_FUNS = {
    "Bitboard::from_square": ("Rawr.bit", ["Sq"], "BB"),
    "Square::from_coords": ("Rawr.fromCoords", ["Nat", "Nat"], "Sq"),
    "rays::knights": ("Rawr.knights", ["BB"], "BB"),
    "rays::ray_ne": ("Rawr.rayNE", ["Sq", "BB"], "BB"), "rays::ray_nw": ("Rawr.rayNW", ["Sq", "BB"], "BB"),
    "rays::ray_se": ("Rawr.raySE", ["Sq", "BB"], "BB"), "rays::ray_sw": ("Rawr.raySW", ["Sq", "BB"], "BB"),
    "rays::ray_n": ("Rawr.rayN", ["Sq", "BB"], "BB"), "rays::ray_s": ("Rawr.rayS", ["Sq", "BB"], "BB"),
    "rays::ray_e": ("Rawr.rayE", ["Sq", "BB"], "BB"), "rays::ray_w": ("Rawr.rayW", ["Sq", "BB"], "BB"),
    "magic::bishop_moves": ("Rawr.bishopMoves", ["Sq", "BB"], "BB"),
    "magic::rook_moves": ("Rawr.rookMoves", ["Sq", "BB"], "BB"),
    "magic::queen_moves": ("Rawr.queenMoves", ["Sq", "BB"], "BB"),
    "get_open_files": ("Rawr.openFiles", ["BB"], "BB"), "get_passed_pawns": ("Rawr.passedPawns", ["BB", "BB"], "BB"),
    "get_king_shield": ("Rawr.kingShield", ["Sq"], "BB"), "line_between": ("Rawr.lineBetween", ["Sq", "Sq"], "BB"),
}
LEAN_KEYWORDS = {"from", "at", "end", "open", "then", "do", "fun", "show", "have", "with", "in", "let", "if", "else",
                 "match", "by", "where", "namespace", "section", "def", "theorem", "example", "instance", "structure",
                 "class", "import", "mut", "for", "return", "unless", "try", "catch", "finally", "using", "deriving",
                 "infix", "prefix", "notation", "macro", "syntax", "local", "private", "protected", "variable",
                 "universe", "Type", "Prop", "Sort", "set_option", "attribute", "export", "extends", "abbrev",
                 "opaque", "axiom", "inductive", "mutual", "partial", "unsafe", "noncomputable", "nomatch", "nofun",
                 "calc", "exists", "forall", "true", "false"}


def lname(x):
    return x + "_" if x in LEAN_KEYWORDS else x


def square_index(name):
    if not re.fullmatch(r"[A-H][1-8]", name):
        raise TranslateError("SquareIdx::" + name + " unknown")
    return (int(name[1]) - 1) * 8 + (ord(name[0]) - ord("A"))


class Ex:
    """a translated expression: Lean text, model type, compile-time constant (for indices)."""

    def __init__(self, text, ty, const=None, optsrc=None):
        self.text, self.ty, self.const, self.optsrc = text, ty, const, optsrc


def is_opt(t):
    return isinstance(t, tuple) and t[0] == "Opt"


# --------------------------------------------------------------------------------------------- translator
class Ctx:
    def __init__(self, tr, monadic, rettype):
        self.tr = tr
        self.monadic = monadic
        self.rettype = rettype
        self.env = {}            # rust name -> (lean name, type, mutable)
        self.unwrapped = {}      # lean text of an Option expression -> lean name of its content
        self.guards = set()      # Option expressions known to be `some` (by `.is_some() &&`)
        self.pending = []        # binds to emit before the current statement
        self.shortcircuit = 0
        self.names = set()
        self.in_closure = False
        self.closure_fall = None

    def child(self):
        c = Ctx(self.tr, self.monadic, self.rettype)
        c.env = dict(self.env)
        c.unwrapped = dict(self.unwrapped)
        c.guards = set(self.guards)
        c.names = self.names
        c.in_closure = self.in_closure
        c.closure_fall = self.closure_fall
        return c

    def fresh(self, base):
        n, k = base, 1
        while n in self.names or any(v[0] == n for v in self.env.values()):
            k += 1
            n = f"{base}{k}"
        self.names.add(n)
        return n


class FnInfo:
    def __init__(self, lean, params, ret, monadic, mutself, hasself):
        self.lean, self.params, self.ret, self.monadic, self.mutself, self.hasself = lean, params, ret, monadic, mutself, hasself


class Translator:
    def __init__(self):
        self.fns = {}        # rust key ("Position::flip", "zobrist::ep_key", ...) -> FnInfo
        self.out = []

    # ------------------------------------------------------------------ expressions
    def ex(self, e, c):
        k = e[0]
        m = getattr(self, "ex_" + k, None)
        if m is None:
            raise TranslateError("expression form not supported: " + k)
        return m(e, c)

    def ex_paren(self, e, c):
        return self.ex(e[1], c)

    def ex_unit(self, e, c):
        return Ex("()", "Unit")

    def ex_num(self, e, c):
        tok = e[1]
        m = re.fullmatch(r"(0x[0-9a-fA-F_]+|\d[\d_]*?)(u64|u32|u8|i32|usize)?", tok)
        body, suf = m.group(1).replace("_", ""), m.group(2)
        val = int(body, 16) if body.startswith("0x") else int(body)
        if suf == "u64":
            return Ex(body + "#64", "BB", val)
        ty = {"i32": "Int", "u8": "Nat", "usize": "Nat", "u32": "Nat", None: "Lit"}[suf]
        return Ex(body, ty, val)

    def ex_str(self, e, c):
        return Ex(e[1], "Str")

    def ex_path(self, e, c):
        segs, gen = e[1], e[2]
        if len(segs) == 1 and not gen:
            n = segs[0]
            if n == "self":
                if "self" not in c.env:
                    raise TranslateError("`self` outside a method")
                return Ex(c.env["self"][0], "Pos")
            if n in c.env:
                ln, ty, _ = c.env[n]
                return Ex(ln, ty)
            if n == "None":
                return Ex("none", ("Opt", "?"))
            if n in CONSTS:
                return Ex(CONSTS[n][0], CONSTS[n][1])
            if n in ("true", "false"):
                return Ex(n, "Bool", 1 if n == "true" else 0)
            raise TranslateError("unknown identifier " + n)
        if len(segs) == 2 and (segs[0], segs[1]) in ENUMS and not gen:
            t, ty, v = ENUMS[(segs[0], segs[1])]
            return Ex(t, ty, v)
        if len(segs) == 2 and segs[0] == "SquareIdx" and not gen:
            v = square_index(segs[1])
            return Ex(str(v), "SqIdx", v)
        raise TranslateError("path not supported: " + "::".join(segs))

    def coerce(self, x, ty, what):
        """check an argument against the expected model type (literals adapt)."""
        if x.ty == ty:
            return x
        if x.ty == "Lit" and ty in ("Nat", "Sq", "Int", "Pc"):
            return Ex(x.text, ty, x.const)
        if x.ty == "Lit" and ty == "BB":
            return Ex(x.text + "#64", "BB", x.const)
        if {x.ty, ty} <= {"Nat", "Sq"}:
            return Ex(x.text, ty, x.const)
        if ty == "Bool" and x.ty in ("Colour", "Side"):
            return Ex(x.text, ty, x.const)
        if is_opt(ty) and is_opt(x.ty) and (x.ty[1] == "?" or x.ty[1] == ty[1]):
            return Ex(x.text, ty)
        if isinstance(ty, tuple) and ty[0] == "List" and isinstance(x.ty, tuple) and x.ty[0] == "List" and x.ty[1] in ("?", ty[1]):
            return Ex(x.text, ty)
        raise TranslateError(f"{what}: expected {ty}, got {x.ty} (`{x.text}`)")

    def app(self, f, args):
        return "(" + " ".join([f] + [a.text for a in args]) + ")"

    def ex_call(self, e, c):
        f, args = e[1], e[2]
        if f[0] != "path":
            raise TranslateError("call of a non-path")
        segs, gen = f[1], f[2]
        key = "::".join(segs)
        # constructors
        if key == "Some" and len(args) == 1:
            a = self.ex(args[0], c)
            return Ex(f"(some {a.text})", ("Opt", a.ty))
        if key == "Err" and len(args) == 1:
            a = self.ex(args[0], c)
            return Ex(f"(some {a.text})", ("Opt", a.ty))
        if key == "Ok" and len(args) == 1 and args[0][0] == "unit":
            return Ex("none", ("Opt", "?"))
        if key in ("Bitboard", "Self_Bitboard") and len(args) == 1:
            a = self.ex(args[0], c)
            return self.coerce(a, "BB", "Bitboard(..)")
        if key == "Square" and len(args) == 1:
            a = self.ex(args[0], c)
            return self.coerce(a, "Sq", "Square(..)")
        if key == "Bitboard::empty" and not args:
            return Ex("0#64", "BB", 0)
        if key in ("Bitboard::from_index", "Square::from_index") and len(args) == 1:
            a = self.ex(args[0], c)
            if a.ty != "SqIdx":
                raise TranslateError(key + " of a non-constant")
            return Ex(f"(Rawr.bit {a.text})", "BB") if key.startswith("Bitboard") else Ex(a.text, "Sq", a.const)
        if key == "Vec::with_capacity" and len(args) == 1:
            return Ex("[]", ("List", "?"))
        if key == "Score::default" and not args:
            return Ex("((0, 0) : Score)", "Score")
        if key == "rays::pawns" and len(gen) == 1 and gen[0] in ("true", "false") and len(args) == 1:
            a = self.coerce(self.ex(args[0], c), "BB", key)
            return Ex(f"(Rawr.pawnsAtt {gen[0]} {a.text})", "BB")
        if key in PRIM_FUNS and not gen:
            fn, tys, rt = PRIM_FUNS[key]
            if len(tys) != len(args):
                raise TranslateError(key + ": wrong number of arguments")
            as_ = [self.coerce(self.ex(a, c), t, key) for a, t in zip(args, tys)]
            return Ex(self.app(fn, as_), rt)
        # local closure variable (callback)
        if len(segs) == 1 and segs[0] in c.env and isinstance(c.env[segs[0]][1], tuple) and c.env[segs[0]][1][0] == "Fn":
            raise TranslateError("callback call in expression position")
        # translated functions
        for cand in (key, "Position::" + segs[-1] if segs[0] == "Self" else None, segs[-1] if len(segs) == 2 else None):
            if cand and cand in self.fns:
                info = self.fns[cand]
                if info.hasself:
                    raise TranslateError(key + ": method called as a function")
                return self.call_fn(info, None, args, gen, c, key)
        raise TranslateError("function not in the translated set: " + key)

    def call_fn(self, info, recv, args, gen, c, key):
        if len(args) + len(gen) != len(info.params):
            raise TranslateError(key + ": wrong number of arguments")
        as_ = [self.coerce(self.ex(a, c), t, key) for a, (_, t) in zip(args, info.params)]
        for g, (_, t) in zip(gen, info.params[len(args):]):
            as_.append(self.coerce(self.ex(("path", [g], []), c), t, key))
        text = self.app("R." + info.lean, ([recv] if recv is not None else []) + as_)
        if info.monadic:
            return self.bind(text, info.ret, info.lean + "_r", c, key)
        return Ex(text, info.ret)

    def bind(self, text, ty, base, c, what):
        """`text : Option ty` must be `some`: bind its content in the Option monad (or raise NeedMonad)."""
        if text in c.unwrapped:
            return Ex(c.unwrapped[text], ty)
        if not c.monadic:
            raise NeedMonad(what)
        if c.shortcircuit:
            raise TranslateError(what + ": a possibly panicking sub-expression on the right of `&&`/`||` is not supported")
        v = c.fresh(base)
        c.pending.append(f"let {v} ← {text}")
        c.unwrapped[text] = v
        return Ex(v, ty)

    def ex_mcall(self, e, c):
        recv_ast, name, gen, args = e[1], e[2], e[3], e[4]
        if name == "unwrap" and not args:
            r = self.ex(recv_ast, c)
            if not is_opt(r.ty):
                raise TranslateError("unwrap of a non-Option")
            base = re.sub(r"[^A-Za-z0-9_]", "_", r.text.split(".")[-1]).strip("_") or "v"
            return self.bind(r.text, r.ty[1], base + "_u", c, "unwrap of " + r.text)
        r = self.ex(recv_ast, c)
        if is_opt(r.ty) and name in ("is_some", "is_none") and not args:
            return Ex(f"(Option.{'isSome' if name == 'is_some' else 'isNone'} {r.text})", "Bool", optsrc=(name, r.text))
        if r.ty == "BB" and name == "count" and not args:
            return Ex(f"((Rawr.count {r.text} : Nat) : Int)", "Int")
        if r.ty == "Score" and name in ("mg", "eg") and not args:
            return Ex(f"{r.text}.{1 if name == 'mg' else 2}", "Int")
        if (r.ty, name) in PRIM_METHODS and not gen:
            fn, tys, rt = PRIM_METHODS[(r.ty, name)]
            if len(tys) != len(args):
                raise TranslateError(name + ": wrong number of arguments")
            as_ = [self.coerce(self.ex(a, c), t, name) for a, t in zip(args, tys)]
            return Ex(self.app(fn, [r] + as_), rt)
        if r.ty == "Pos":
            key = "Position::" + name
            if key in self.fns:
                info = self.fns[key]
                if info.mutself:
                    raise TranslateError(name + ": mutating method in expression position")
                return self.call_fn(info, r, args, gen, c, key)
        raise TranslateError(f"method not in the translated set: {r.ty}.{name}")

    def ex_field(self, e, c):
        base, f = e[1], e[2]
        if f == "0":
            b = self.ex(base, c)
            if b.ty in ("BB", "Sq"):
                return b                     # newtype projection
            raise TranslateError(".0 of " + str(b.ty))
        b = self.ex(base, c)
        if b.ty == "Pos":
            if f in POS_FIELDS:
                lf, ty = POS_FIELDS[f]
                return Ex(f"{b.text}.{lf}", ty)
            raise TranslateError("Position field not supported here: " + f)
        if b.ty == "Mv":
            if f in MV_FIELDS:
                lf, ty = MV_FIELDS[f]
                return Ex(f"{b.text}.{lf}", ty)
        raise TranslateError(f"field {f} of {b.ty}")

    def array_ref(self, e, c):
        """`obj.colours[i]` etc.: (object Ex, array name, index Ex or ("side", Ex))."""
        base, idx = e[1], e[2]
        if base[0] == "field" and base[2] in POS_ARRAYS:
            obj = self.ex(base[1], c)
            if obj.ty != "Pos":
                raise TranslateError("array field of a non-Position")
            if base[2] == "colours" and idx[0] == "cast":
                inner = self.ex(idx[1], c)
                if inner.ty == "Side" and inner.const is None:
                    return obj, base[2], ("side", inner)
            i = self.ex(idx, c)
            if i.ty == "Side" or i.ty == "Colour" or i.ty == "Bool":
                raise TranslateError("array index of enum type without `as usize`")
            return obj, base[2], i
        return None

    def ex_index(self, e, c):
        ar = self.array_ref(e, c)
        if ar is not None:
            obj, arr, i = ar
            pre, n, ty = POS_ARRAYS[arr]
            if isinstance(i, tuple):
                return Ex(f"(Rawr.Position.side {obj.text} {i[1].text})", ty)
            if i.const is not None:
                if not 0 <= i.const < n:
                    raise TranslateError(f"{arr}[{i.const}] out of range")
                return Ex(f"{obj.text}.{pre}{i.const}", ty)
            if arr == "pieces":
                return Ex(f"(Rawr.Position.piece {obj.text} {i.text})", ty)
            raise TranslateError(f"{arr}[variable] is not supported")
        # constant tables
        idxs, base = [e[2]], e[1]
        while base[0] == "index":
            idxs.insert(0, base[2])
            base = base[1]
        if base[0] == "path" and len(base[1]) == 1 and base[1][0] in TABLES:
            fn, arity, ty = TABLES[base[1][0]]
            if arity != len(idxs):
                raise TranslateError(base[1][0] + ": wrong number of indices")
            as_ = []
            for i in idxs:
                x = self.ex(i, c)
                if x.ty not in ("Nat", "Sq", "Lit", "Pc"):
                    raise TranslateError(f"table index of type {x.ty}")
                as_.append(x)
            return Ex(self.app(fn, as_), ty)
        raise TranslateError("indexing not supported")

    def ex_cast(self, e, c):
        x = self.ex(e[1], c)
        t = conv_type(e[2])
        if t not in ("Nat", "Int", "BB"):
            raise TranslateError("cast to " + str(t))
        if x.ty in ("Colour", "Side", "Bool"):
            if x.const is not None:
                return Ex(str(x.const), "Nat", x.const)
            return Ex(f"(Rawr.col {x.text})", "Nat")
        if x.ty in ("Pc", "SqIdx"):
            return Ex(x.text, "Nat", x.const)
        if x.ty == "Int" and e[2][0] == "ty" and e[2][1] in ("usize", "u64", "u8"):
            return Ex(f"(Int.toNat {x.text})", "Nat")    # i32 -> unsigned (the counts are non-negative)
        if x.ty in ("Nat", "Sq", "Int", "Lit"):
            return x                          # numeric casts: the model keeps squares/files as Nat, i32 as Int
        raise TranslateError(f"cast of {x.ty}")

    def ex_unary(self, e, c):
        op = e[1]
        x = self.ex(e[2], c)
        if op == "!":
            if x.ty in ("Bool", "Colour", "Side"):
                return Ex(f"(!{x.text})", x.ty, None if x.const is None else 1 - x.const)
            if x.ty == "BB":
                return Ex(f"(~~~{x.text})", "BB")
        if op == "-" and x.ty in ("Int", "Lit"):
            return Ex(f"(-{x.text})", "Int")
        raise TranslateError(f"unary {op} on {x.ty}")

    def guard_facts(self, e, c):
        """Option expressions (Lean text) known to be `some` when the Rust condition `e` is true."""
        if e[0] == "paren":
            return self.guard_facts(e[1], c)
        if e[0] == "binary" and e[1] == "&&":
            return self.guard_facts(e[2], c) | self.guard_facts(e[3], c)
        if e[0] == "mcall" and e[2] == "is_some" and not e[4]:
            try:
                return {self.ex(e[1], c.child()).text}
            except (TranslateError, NeedMonad):
                return set()
        return set()

    def guarded_unwrap(self, e, c):
        """`X.unwrap()` with X known to be `some` (and not yet bound): the Lean text of X, else None."""
        while e[0] == "paren":
            e = e[1]
        if e[0] == "mcall" and e[2] == "unwrap" and not e[4]:
            try:
                t = self.ex(e[1], c.child()).text
            except (TranslateError, NeedMonad):
                return None
            if t in c.guards and t not in c.unwrapped:
                return self.ex(e[1], c)
        return None

    BITOPS = {"|": "|||", "&": "&&&", "^": "^^^", "<<": "<<<", ">>": ">>>"}

    def ex_binary(self, e, c):
        op, l, r = e[1], e[2], e[3]
        if op in ("&&", "||"):
            a = self.ex(l, c)
            facts = self.guard_facts(l, c) if op == "&&" else set()
            old = set(c.guards)
            c.guards |= facts
            c.shortcircuit += 1
            try:
                b = self.ex(r, c)
            finally:
                c.shortcircuit -= 1
                c.guards = old
            a, b = self.coerce(a, "Bool", op), self.coerce(b, "Bool", op)
            return Ex(f"({a.text} {op} {b.text})", "Bool")
        if op in ("==", "!="):
            # Option known to be some:  X.unwrap() == y   ~>   X == some y
            for x, y in ((l, r), (r, l)):
                g = self.guarded_unwrap(x, c)
                if g is not None and op == "==":
                    o = self.ex(y, c)
                    o = self.coerce(o, g.ty[1], "==")
                    return Ex(f"({g.text} == some {o.text})", "Bool")
            a, b = self.ex(l, c), self.ex(r, c)
            # comparison with an enum constant of a two-valued enum: the model represents Colour/Side by a Bool
            for x, y in ((a, b), (b, a)):
                if y.ty in ("Colour", "Side") and y.const is not None and x.ty == y.ty and x.const is None:
                    pos = (y.const == 1) == (op == "==")
                    return Ex(x.text if pos else f"(!{x.text})", "Bool")
            if a.ty == "Lit":
                a = self.coerce(a, b.ty, op)
            b = self.coerce(b, a.ty, op)
            if a.ty not in ("Sq", "Nat", "Pc", "Int", "BB", "Bool") and not is_opt(a.ty):
                raise TranslateError(f"{op} on {a.ty}")
            return Ex(f"({a.text} {op} {b.text})", "Bool")
        a, b = self.ex(l, c), self.ex(r, c)
        if op in ("<", ">", "<=", ">="):
            if a.ty == "Lit":
                a = self.coerce(a, b.ty, op)
            b = self.coerce(b, a.ty, op)
            if a.ty not in ("Sq", "Nat", "Int"):
                raise TranslateError(f"{op} on {a.ty}")
            return Ex(f"({a.text} {op} {b.text})", "Bool")
        if op in ("|", "&", "^"):
            if a.ty == "BB" or b.ty == "BB":
                a, b = self.coerce(a, "BB", op), self.coerce(b, "BB", op)
                return Ex(f"({a.text} {self.BITOPS[op]} {b.text})", "BB")
            raise TranslateError(f"{op} on {a.ty}, {b.ty}")
        if op in ("<<", ">>"):
            if a.ty == "BB" and b.ty in ("Lit", "Nat", "Sq"):
                return Ex(f"({a.text} {self.BITOPS[op]} {b.text})", "BB")
            raise TranslateError(f"{op} on {a.ty}, {b.ty}")
        if op in ("+", "-", "*", "/", "%"):
            if a.ty == "Score" and b.ty == "Score" and op in ("+", "-"):
                return Ex(f"(Rawr.Score.{'add' if op == '+' else 'sub'} {a.text} {b.text})", "Score")
            if a.ty == "Score" and b.ty in ("Int", "Lit") and op == "*":
                return Ex(f"(Rawr.Score.mul {a.text} {b.text})", "Score")
            if a.ty == "Lit" and b.ty == "Lit":
                ty = "Lit"
            elif a.ty == "Lit":
                ty = b.ty
            elif b.ty == "Lit":
                ty = a.ty
            elif a.ty == b.ty or {a.ty, b.ty} <= {"Nat", "Sq", "Pc"}:
                ty = a.ty if a.ty == b.ty else "Nat"
            else:
                raise TranslateError(f"{op} on {a.ty}, {b.ty}")
            if ty not in ("Nat", "Sq", "Int", "Lit", "Pc"):
                raise TranslateError(f"{op} on {ty}")
            const = None
            if a.const is not None and b.const is not None and ty in ("Nat", "Lit") and op in ("+", "*"):
                const = a.const + b.const if op == "+" else a.const * b.const
            if op == "/" and ty == "Int":
                return Ex(f"(Int.tdiv {a.text} {b.text})", "Int")       # Rust's `/` on i32 truncates
            if op == "%" and ty == "Int":
                return Ex(f"(Int.tmod {a.text} {b.text})", "Int")
            if op in ("/", "%") and ty == "Lit":
                raise TranslateError("division of untyped literals")
            return Ex(f"({a.text} {op} {b.text})", ty, const)
        raise TranslateError("operator " + op)

    def ex_tuple(self, e, c):
        xs = [self.ex(x, c) for x in e[1]]
        return Ex("(" + ", ".join(x.text for x in xs) + ")", ("Tup", [x.ty for x in xs]))

    # ------------------------------------------------------------------ statements
    @staticmethod
    def has_return(block):
        for s in block:
            if s[0] == "return":
                return True
            if s[0] == "if" and (any(Translator.has_return(b) for _, b in s[1]) or (s[2] is not None and Translator.has_return(s[2]))):
                return True
            if s[0] == "for" and Translator.has_return(s[3]):
                return True
        return False

    @staticmethod
    def always_returns(block, value_pos):
        if not block:
            return False
        s = block[-1]
        if s[0] == "return":
            return True
        if s[0] == "tail" and value_pos:
            return True
        if s[0] == "if" and s[2] is not None:
            return all(Translator.always_returns(b, value_pos) for _, b in s[1]) and Translator.always_returns(s[2], value_pos)
        return False

    def root_var(self, lhs, c):
        """the Rust variable that an lvalue / receiver expression modifies."""
        while lhs[0] in ("field", "index", "paren"):
            lhs = lhs[1]
        if lhs[0] == "path" and len(lhs[1]) == 1:
            return lhs[1][0]
        raise TranslateError("lvalue not supported")

    def assigned(self, block, c, declared=None):
        """outer variables assigned in a block, in order of first assignment."""
        declared = set(declared or ())
        out = []

        def add(v):
            if v not in declared and v not in out:
                out.append(v)
        for s in block:
            if s[0] == "let":
                pat = s[1]
                for n in ([pat[1]] if pat[0] == "pvar" else pat[1]):
                    declared.add(n)
            elif s[0] == "assign":
                lhs = s[2]
                if lhs[0] == "tuple":
                    for x in lhs[1]:
                        add(self.root_var(x, c))
                else:
                    add(self.root_var(lhs, c))
            elif s[0] in ("expr", "tail") and self.is_push(s[1], c):
                add(s[1][1][1][0])
            elif s[0] in ("expr", "tail") and self.is_closure_call(s[1], c):
                clo = s[1][4][0]
                for v in self.assigned(clo[2], c, set(declared) | set(clo[1])):
                    add(v)
            elif s[0] == "expr":
                e = s[1]
                if e[0] == "mcall":
                    info = self.method_info(e, c)
                    if info is not None and info.mutself:
                        add(self.root_var(e[1], c))
                    elif info is None:
                        cb = self.callback_of(e, c)
                        if cb:
                            add(cb)
                elif e[0] == "call":
                    cb = self.callback_of(e, c)
                    if cb:
                        add(cb)
            elif s[0] == "if":
                for _, b in s[1]:
                    for v in self.assigned(b, c, declared):
                        add(v)
                if s[2] is not None:
                    for v in self.assigned(s[2], c, declared):
                        add(v)
            elif s[0] == "for":
                pat = s[1]
                inner = set(declared) | set([pat[1]] if pat[0] == "pvar" else pat[1])
                for v in self.assigned(s[3], c, inner):
                    add(v)
        return out

    def callback_of(self, e, c):
        return None

    def method_info(self, e, c):
        if e[0] != "mcall":
            return None
        name = e[2]
        key = "Position::" + name
        if key in self.fns:
            try:
                r = self.ex(e[1], c.child())
            except (TranslateError, NeedMonad):
                return None
            if r.ty == "Pos":
                return self.fns[key]
        return None

    def flush(self, c, ind, lines):
        for p in c.pending:
            lines.append(" " * ind + p)
        c.pending = []

    def invalidate(self, c, leanvar, field=None):
        """forget Option contents that were read from `leanvar` (optionally only from one field)."""
        pref = leanvar + "." + (field or "")
        for k in list(c.unwrapped):
            if k == leanvar or k.startswith(pref) or re.search(r"\b" + re.escape(leanvar) + r"\b", k) and field is None:
                del c.unwrapped[k]
        for k in list(c.guards):
            if k == leanvar or k.startswith(pref):
                c.guards.discard(k)

    def letline(self, name, ty, text, bind=False):
        ann = ""
        try:
            if ty not in ("Lit", "Unit") and not (is_opt(ty) and ty[1] == "?"):
                ann = " : " + lean_ty(ty)
        except TranslateError:
            ann = ""
        return f"let {name}{ann} {'←' if bind else ':='} {text}"

    def do_assign(self, s, c, ind, lines):
        op, lhs, rhs = s[1], s[2], s[3]
        if lhs[0] == "tuple":
            if op != "=" or rhs[0] != "tuple" or len(rhs[1]) != len(lhs[1]):
                raise TranslateError("tuple assignment form not supported")
            rv = [self.ex(x, c) for x in rhs[1]]
            self.flush(c, ind, lines)
            objs, ups = set(), []
            for x, v in zip(lhs[1], rv):
                obj, lf, ty = self.static_field(x, c)
                objs.add(obj)
                ups.append((lf, self.coerce(v, ty, "assignment").text))
            if len(objs) != 1 or len({u[0] for u in ups}) != len(ups):
                raise TranslateError("tuple assignment to different objects / the same field twice")
            obj = objs.pop()
            lines.append(" " * ind + f"let {obj} : Position := {{ {obj} with " + ", ".join(f"{f} := {v}" for f, v in ups) + " }")
            for f, _ in ups:
                self.invalidate(c, obj, f)
            return
        binop = None if op == "=" else op[:-1]

        def combine(cur):
            """value to store: rhs, or `cur op rhs`."""
            r = self.ex(rhs, c)
            if binop is None:
                return self.coerce(r, cur.ty, "assignment")
            if cur.ty == "Bool" and binop in ("&", "|"):
                r = self.coerce(r, "Bool", op)
                return Ex(f"({cur.text} {binop * 2} {r.text})", "Bool")
            if cur.ty == "Score" and binop in ("+", "-"):
                r = self.coerce(r, "Score", op)
                return Ex(f"(Rawr.Score.{'add' if binop == '+' else 'sub'} {cur.text} {r.text})", "Score")
            if cur.ty == "BB" and binop in ("|", "&", "^"):
                r = self.coerce(r, "BB", op)
                return Ex(f"({cur.text} {self.BITOPS[binop]} {r.text})", "BB")
            if cur.ty in ("Int", "Nat") and binop in ("+", "-", "*"):
                r = self.coerce(r, cur.ty, op)
                return Ex(f"({cur.text} {binop} {r.text})", cur.ty)
            raise TranslateError(f"{op} on {cur.ty}")
        if lhs[0] == "path" and len(lhs[1]) == 1:
            n = lhs[1][0]
            if n not in c.env:
                raise TranslateError("assignment to unknown variable " + n)
            ln, ty, mut = c.env[n]
            if not mut:
                raise TranslateError("assignment to immutable variable " + n)
            v = combine(Ex(ln, ty))
            self.flush(c, ind, lines)
            lines.append(" " * ind + self.letline(ln, ty, v.text))
            self.invalidate(c, ln)
            return
        if lhs[0] == "field":
            obj, lf, ty = self.static_field(lhs, c)
            v = combine(Ex(f"{obj}.{lf}", ty))
            self.flush(c, ind, lines)
            lines.append(" " * ind + f"let {obj} : Position := {{ {obj} with {lf} := {v.text} }}")
            self.invalidate(c, obj, lf)
            return
        if lhs[0] == "index":
            ar = self.array_ref(lhs, c)
            if ar is None:
                raise TranslateError("assignment to this indexed place is not supported")
            objx, arr, i = ar
            obj = objx.text
            self.check_mut_obj(lhs, c)
            pre, n, ty = POS_ARRAYS[arr]
            if isinstance(i, tuple):
                raise TranslateError("assignment to colours[side]")
            if i.const is not None:
                if not 0 <= i.const < n:
                    raise TranslateError(f"{arr}[{i.const}] out of range")
                lf = f"{pre}{i.const}"
                v = combine(Ex(f"{obj}.{lf}", ty))
                self.flush(c, ind, lines)
                lines.append(" " * ind + f"let {obj} : Position := {{ {obj} with {lf} := {v.text} }}")
                return
            if arr != "pieces":
                raise TranslateError(f"assignment to {arr}[variable]")
            v = combine(Ex(f"(Rawr.Position.piece {obj} {i.text})", ty))
            self.flush(c, ind, lines)
            lines.append(" " * ind + f"let {obj} : Position := Rawr.Position.setPiece {obj} {i.text} {v.text}")
            return
        raise TranslateError("assignment target not supported")

    def check_mut_obj(self, lhs, c):
        n = self.root_var(lhs, c)
        if n not in c.env or not c.env[n][2]:
            raise TranslateError("assignment through an immutable binding: " + n)

    def static_field(self, x, c):
        """an lvalue that is a statically known Position field: (object lean name, lean field, type)."""
        self.check_mut_obj(x, c)
        if x[0] == "field":
            obj = self.ex(x[1], c)
            if obj.ty != "Pos" or x[2] not in POS_FIELDS:
                raise TranslateError("assignment to field " + x[2])
            lf, ty = POS_FIELDS[x[2]]
            return obj.text, lf, ty
        if x[0] == "index":
            ar = self.array_ref(x, c)
            if ar is not None:
                obj, arr, i = ar
                pre, n, ty = POS_ARRAYS[arr]
                if not isinstance(i, tuple) and i.const is not None and 0 <= i.const < n:
                    return obj.text, f"{pre}{i.const}", ty
        raise TranslateError("lvalue is not a static Position field")

    def wrap(self, c, text):
        return f"pure {text}" if c.monadic else text

    def unpack(self, st, vars_, names, tys, c, ind, lines):
        """`let a := st.1; let b := st.2.1; ...` for a tuple of updated variables."""
        for k, (v, n, t) in enumerate(zip(vars_, names, tys)):
            proj = ".2" * k + (".1" if k < len(names) - 1 else "")
            lines.append(" " * ind + self.letline(n, t, st + proj))

    def tuple_of(self, names):
        return names[0] if len(names) == 1 else "(" + ", ".join(names) + ")"

    def block(self, stmts, c, ind, mode, fall):
        """Translate a statement list.
        mode 'value'  : the block computes the function result (`return e` / tail expression), `fall()` gives the
                        term for falling off the end (None = not allowed);
        mode 'effect' : the block updates variables; `fall()` gives the final term (the tuple of updated variables);
        mode 'join'   : like 'value' but `return e` yields `some e` and falling through yields `none`.
        Returns the list of Lean lines (indented by `ind`)."""
        lines = []
        i = 0
        while i < len(stmts):
            s = stmts[i]
            rest = stmts[i + 1:]
            k = s[0]
            if k == "let":
                self.do_let(s, c, ind, lines, rest, mode, fall)
            elif k == "assign":
                self.do_assign(s, c, ind, lines)
            elif k == "expr":
                self.do_expr_stmt(s[1], c, ind, lines)
            elif k == "return" and s[1] is None and mode == "effect" and getattr(c, "in_closure", False):
                if rest:
                    raise TranslateError("statements after `return`")
                self.flush(c, ind, lines)
                lines.append(" " * ind + c.closure_fall())
                return lines
            elif k in ("return", "tail"):
                if mode == "effect":
                    if k == "tail" and s[1][0] == "unit":
                        i += 1
                        continue
                    raise TranslateError("`return`/value in a block that only updates variables")
                if rest:
                    raise TranslateError("statements after `return`")
                if s[1] is None:
                    raise TranslateError("`return;` is not supported here")
                v = self.ex(s[1], c)
                v = self.coerce(v, c.rettype, "return value")
                self.flush(c, ind, lines)
                if mode == "join":
                    lines.append(" " * ind + f"some {v.text}")
                else:
                    lines.append(" " * ind + self.wrap(c, v.text))
                return lines
            elif k == "if":
                done = self.do_if(s, rest, c, ind, lines, mode, fall)
                if done:
                    return lines
            elif k == "for":
                done = self.do_for(s, rest, c, ind, lines, mode, fall)
                if done:
                    return lines
            else:
                raise TranslateError("statement kind " + k)
            i += 1
        f = fall()
        if f is None:
            raise TranslateError("control reaches the end of a block that must produce a value")
        self.flush(c, ind, lines)
        lines.append(" " * ind + f)
        return lines

    def do_let(self, s, c, ind, lines, rest=None, mode=None, fall=None):
        _, pat, mutable, ty, e = s
        if pat[0] == "pvar" and e[0] == "ifexpr":
            # let x = if .. { a } else { b };
            name = pat[1]
            ln = lname(name)
            sub = c.child()
            sub.rettype = None
            txt, vty = self.if_value(e[1], c, ind + 4)
            self.flush(c, ind, lines)
            lines.append(" " * ind + self.letline(ln, vty, "").rstrip())
            lines.extend(txt)
            c.env[name] = (ln, vty, mutable)
            self.invalidate(c, ln)
            return
        if pat[0] == "ptuple" and e[0] == "blockexpr":
            # let (a, b) = { ...; (x, y) };
            blk = e[1]
            if not blk or blk[-1][0] != "tail" or blk[-1][1][0] != "tuple" or len(blk[-1][1][1]) != len(pat[1]):
                raise TranslateError("let (..) = { .. } without a final tuple")
            sub = c.child()
            tys = []

            def fin():
                xs = [self.ex(x, sub) for x in blk[-1][1][1]]
                tys.extend(x.ty for x in xs)
                return "(" + ", ".join(x.text for x in xs) + ")"
            inner = self.block(blk[:-1], sub, ind + 4, "effect", fin)
            names = [lname(n) for n in pat[1]]
            self.flush(c, ind, lines)
            tmp = c.fresh("_".join(names))
            lines.append(" " * ind + f"let {tmp} : {lean_ty(('Tup', tys))} :=")
            lines.extend(inner)
            for k2, (n, ln, t) in enumerate(zip(pat[1], names, tys)):
                proj = ".1" if k2 == 0 else ".2" + ".1" * 0
                if len(names) != 2:
                    raise TranslateError("only pairs are supported in let (..) = {..}")
                lines.append(" " * ind + self.letline(ln, t, f"{tmp}{proj}"))
                c.env[n] = (ln, t, mutable)
            return
        if pat[0] != "pvar":
            raise TranslateError("tuple pattern in let")
        name = pat[1]
        v = self.ex(e, c)
        vty = v.ty
        if ty is not None:
            vty = conv_type(ty)
            v = self.coerce(v, vty, "let")
        if vty == "Lit" or vty == ("List", "?"):
            # `let mut count = 0;` / `let mut v = Vec::with_capacity(..)`: the type is fixed by the later uses
            cands = ["Int", "Nat"] if vty == "Lit" else [("List", "Mv")]
            chosen = None
            for cand in cands if rest is not None else []:
                trial = c.child()
                trial.names = set(c.names)
                trial.env[name] = (lname(name), cand, mutable)
                try:
                    self.block(rest, trial, ind, mode, fall)
                    chosen = cand
                    break
                except (TranslateError, NeedMonad):
                    continue
            if chosen is None:
                raise TranslateError(f"let {name}: cannot determine the type of `{v.text}` from its uses")
            vty = chosen
            v = Ex(v.text, vty, v.const)
        if vty == "SqIdx":
            vty = "Sq"
        ln = lname(name)
        self.flush(c, ind, lines)
        lines.append(" " * ind + self.letline(ln, vty, v.text))
        c.env[name] = (ln, vty, mutable)
        self.invalidate(c, ln)
        # an immutable copy of an Option that is already unwrapped / guarded stays so
        if is_opt(vty) and v.text in c.unwrapped:
            c.unwrapped[ln] = c.unwrapped[v.text]

    def do_expr_stmt(self, e, c, ind, lines):
        if self.is_closure_call(e, c):
            return self.closure_loop(e, c, ind, lines)
        if self.is_push(e, c):
            n = e[1][1][0]
            ln, ty, mut = c.env[n]
            if not mut:
                raise TranslateError("push on an immutable binding")
            v = self.coerce(self.ex(e[4][0], c), ty[1], "push")
            self.flush(c, ind, lines)
            lines.append(" " * ind + self.letline(ln, ty, f"({ln} ++ [{v.text}])"))
            return
        if e[0] == "mcall":
            info = self.method_info(e, c)
            if info is not None and info.mutself:
                n = self.root_var(e[1], c)
                if e[1][0] != "path" or n not in c.env or not c.env[n][2]:
                    raise TranslateError("mutating method call on a non-variable / immutable binding")
                ln = c.env[n][0]
                args, gen = e[4], e[3]
                if len(args) + len(gen) != len(info.params):
                    raise TranslateError(e[2] + ": wrong number of arguments")
                as_ = [self.coerce(self.ex(a, c), t, e[2]) for a, (_, t) in zip(args, info.params)]
                for g, (_, t) in zip(gen, info.params[len(args):]):
                    as_.append(self.coerce(self.ex(("path", [g], []), c), t, e[2]))
                self.flush(c, ind, lines)
                text = self.app("R." + info.lean, [Ex(ln, "Pos")] + as_)
                if info.monadic:
                    if not c.monadic:
                        raise NeedMonad(e[2])
                    lines.append(" " * ind + f"let {ln} : Position ← {text}")
                else:
                    lines.append(" " * ind + f"let {ln} : Position := {text}")
                self.invalidate(c, ln)
                return
        raise TranslateError("expression statement not supported (only mutating method calls are)")

    # ---- if
    def cond_head(self, cond, c, sub):
        """translate an `if` head. Returns ('if', condtext) or ('match', scrutinee text, bound lean var)."""
        if cond[0] == "iflet":
            _, v, e = cond
            x = self.ex(e, c)
            if not is_opt(x.ty):
                raise TranslateError("if let Some(..) on a non-Option")
            lv = lname(v)
            sub.env[v] = (lv, x.ty[1], False)
            return ("match", x.text, lv)
        e = cond[1]
        inner = e
        while inner[0] == "paren":
            inner = inner[1]
        if inner[0] == "mcall" and inner[2] == "is_some" and not inner[4]:
            x = self.ex(inner[1], c)
            if is_opt(x.ty) and x.text not in c.unwrapped:
                base = re.sub(r"[^A-Za-z0-9_]", "_", x.text.split(".")[-1]).strip("_") or "v"
                lv = c.fresh(base + "_v")
                sub.unwrapped[x.text] = lv
                return ("match", x.text, lv)
        x = self.coerce(self.ex(e, c), "Bool", "if condition")
        sub.guards |= self.guard_facts(e, c)
        return ("if", x.text)

    def do_if(self, s, rest, c, ind, lines, mode, fall):
        """returns True when the `if` consumed the rest of the block."""
        _, branches, els = s
        blocks = [b for _, b in branches] + ([els] if els is not None else [])
        any_ret = any(self.has_return(b) for b in blocks)
        value_pos = mode in ("value", "join")
        if not any_ret:
            if value_pos and not rest and els is not None and all(b and b[-1][0] == "tail" for b in blocks):
                # the if-expression is the value of the block
                self.chain(branches, els, c, ind, lines, lambda blk, sub, ind2: self.block(blk, sub, ind2, mode, lambda: None), None)
                return True
            self.effect_if(branches, els, c, ind, lines)
            return False
        if not value_pos and not (mode == "effect" and getattr(c, "in_closure", False)):
            raise TranslateError("`return` inside a block that only updates variables")
        all_ret = all(self.always_returns(b, not rest) for _, b in branches) and (els is None or self.always_returns(els, not rest))
        if all_ret:
            if els is not None and rest:
                raise TranslateError("unreachable statements after an if whose branches all return")

            def tail(sub, ind2):
                return self.block(rest, sub, ind2, mode, fall)
            self.chain(branches, els, c, ind, lines, lambda blk, sub, ind2: self.block(blk, sub, ind2, mode, lambda: None),
                       None if els is not None else tail)
            return True
        # some branch may fall through and some may return: join through an Option
        if mode != "value" or c.monadic or getattr(c, "in_closure", False):
            raise TranslateError("mixed return / fall-through `if` is only supported at the top level of a pure function")
        r = c.fresh("early")
        jl = []
        self.chain(branches, els, c, ind + 4, jl, lambda blk, sub, ind2: self.block(blk, sub, ind2, "join", lambda: "none"),
                   lambda sub, ind2: [" " * ind2 + "none"])
        self.flush(c, ind, lines)
        lines.append(" " * ind + f"let {r} : Option ({lean_ty(c.rettype)}) :=")
        lines.extend(jl)
        lines.append(" " * ind + f"match {r} with")
        lines.append(" " * ind + f"| some {r}_v => {r}_v")
        lines.append(" " * ind + "| none =>")
        lines.extend(self.block(rest, c, ind + 4, mode, fall))
        return True

    def chain(self, branches, els, c, ind, lines, body, tail, prefix=""):
        """emit `if c1 then B1 else if c2 then B2 ... else T` as lines; `body(block, ctx, ind)` translates a branch,
        `tail(ctx, ind)` the final else (when there is no Rust `else`).  In a monadic function the branches are
        `(do ...)` blocks of a do-`if`, exactly as the hand-written model writes them."""
        (cond, blk), more = branches[0], branches[1:]
        sub = c.child()
        head = self.cond_head(cond, c, sub)
        if prefix and (c.pending or head[0] != "if"):
            lines.append(" " * ind + "else" + (" (do" if c.monadic else ""))
            ind += 4
            prefix = ""
            close_outer = c.monadic
        else:
            close_outer = False
        self.flush(c, ind, lines)
        op, cl = (" (do", ")") if c.monadic else ("", "")

        def branch(blines):
            lines.extend(blines)
            lines[-1] += cl

        def else_part(ind2):
            if more:
                self.chain(more, els, c, ind2, lines, body, tail, prefix="else ")
            elif els is not None:
                lines.append(" " * ind2 + "else" + op)
                branch(body(els, c.child(), ind2 + 4))
            else:
                lines.append(" " * ind2 + "else" + op)
                branch(tail(c.child(), ind2 + 4))
        if head[0] == "if":
            lines.append(" " * ind + f"{prefix}if {head[1]} then" + op)
            branch(body(blk, sub, ind + 4))
            else_part(ind)
        else:
            lines.append(" " * ind + f"match {head[1]} with")
            lines.append(" " * ind + f"| some {head[2]} =>" + op)
            branch(body(blk, sub, ind + 4))
            lines.append(" " * ind + "| none =>" + op)
            if more:
                self.chain(more, els, c, ind + 4, lines, body, tail)
                lines[-1] += cl
            elif els is not None:
                branch(body(els, c.child(), ind + 4))
            else:
                branch(tail(c.child(), ind + 4))
        if close_outer:
            lines[-1] += ")"

    def effect_if(self, branches, els, c, ind, lines):
        blocks = [b for _, b in branches] + ([els] if els is not None else [])
        vars_ = []
        for b in blocks:
            for v in self.assigned(b, c):
                if v not in vars_:
                    vars_.append(v)
        for v in vars_:
            if v not in c.env:
                raise TranslateError("assignment to unknown variable " + v)
        if not vars_:
            # no effect (only dropped debug assertions inside): check that the conditions are translatable, drop
            for cond, b in branches:
                sub = c.child()
                self.cond_head(cond, c.child(), sub)
                self.block(b, sub, ind, "effect", lambda: "()")
            if els is not None:
                self.block(els, c.child(), ind, "effect", lambda: "()")
            c.pending = []
            return
        names = [c.env[v][0] for v in vars_]
        tup = self.tuple_of(names)
        if len(vars_) > 1 and len(branches) == 1 and els is None and branches[0][0][0] == "cond" and \
                all(st[0] == "assign" and st[1] == "=" and st[2][0] == "path" and len(st[2][1]) == 1 for st in branches[0][1]) and \
                len({st[2][1][0] for st in branches[0][1]}) == len(branches[0][1]) and \
                not (self.used_names([st[3] for st in branches[0][1]], set()) & set(vars_)):
            # `if c { x = e1; y = e2; }` with independent right-hand sides: one conditional per variable
            sub = c.child()
            head = self.cond_head(branches[0][0], c, sub)
            rhs = [(st[2][1][0], self.ex(st[3], sub)) for st in branches[0][1]]
            if head[0] == "if" and not c.pending and not sub.pending:
                for v, e in rhs:
                    ln, ty, mut = c.env[v]
                    if not mut:
                        raise TranslateError("assignment to immutable variable " + v)
                    e = self.coerce(e, ty, "assignment")
                    lines.append(" " * ind + self.letline(ln, ty, f"if {head[1]} then {e.text} else {ln}"))
                    self.invalidate(c, ln)
                return
            c.pending = []
        # in a monadic function, an `if` without panicking sub-expressions stays a pure `let`
        snap = (list(c.pending), dict(c.unwrapped), set(c.names), c.monadic)
        body_lines = None
        for monadic in ((False, True) if c.monadic else (False,)):
            c.pending, c.unwrapped, c.monadic = list(snap[0]), dict(snap[1]), monadic
            c.names.clear()
            c.names.update(snap[2])
            fin = self.wrap(c, tup)
            try:
                body_lines = []
                self.chain(branches, els, c, ind + 4, body_lines,
                           lambda blk, sub, ind2: self.block(blk, sub, ind2, "effect", lambda: fin),
                           lambda sub, ind2: [" " * ind2 + fin])
                break
            except NeedMonad:
                if not snap[3] or monadic:
                    c.monadic = snap[3]
                    raise
        used_monadic = c.monadic
        c.monadic = snap[3]
        self.flush(c, ind, lines)
        if len(names) == 1:
            ty = c.env[vars_[0]][1]
            lines.append(" " * ind + self.letline(names[0], ty, "", bind=used_monadic).rstrip())
            lines.extend(body_lines)
        else:
            st = c.fresh("st")
            tys = [c.env[v][1] for v in vars_]
            lines.append(" " * ind + self.letline(st, ("Tup", tys), "", bind=used_monadic).rstrip())
            lines.extend(body_lines)
            self.unpack(st, vars_, names, tys, c, ind, lines)
        for n in names:
            self.invalidate(c, n)

    def if_value(self, ifs, c, ind):
        """`if` used as an expression (all branches end in a value, no returns): lines + type."""
        _, branches, els = ifs
        if els is None:
            raise TranslateError("if-expression without else")
        tys = []

        def body(blk, sub, ind2):
            if not blk or blk[-1][0] != "tail":
                raise TranslateError("if-expression branch without a value")
            return self.block(blk[:-1], sub, ind2, "effect", lambda: self._val(blk[-1][1], sub, tys))
        lines = []
        self.chain(branches, els, c, ind, lines, body, None)
        ts = {repr(t) for t in tys if t != "Lit"}
        if len(ts) != 1:
            raise TranslateError("if-expression branches of different types")
        return lines, [t for t in tys if t != "Lit"][0]

    def _val(self, e, c, tys):
        v = self.ex(e, c)
        tys.append(v.ty)
        if v.ty == "Lit":
            raise TranslateError("bare literal as if-expression value")
        return v.text

    # ---- for
    def do_for(self, s, rest, c, ind, lines, mode, fall):
        _, pat, it, body = s
        if pat[0] != "pvar":
            raise TranslateError("tuple pattern in for")
        x = pat[1]
        lx = lname(x)
        if it[0] == "range":
            lo, hi = self.ex(it[1], c), self.ex(it[2], c)
            if lo.const != 0:
                raise TranslateError("range loops must start at 0")
            hi = self.coerce(hi, "Nat", "range bound")
            lst, xty = f"(List.range {hi.text})", "Nat"
        else:
            b = self.ex(it, c)
            if b.ty != "BB":
                raise TranslateError("for-loop over a non-bitboard")
            lst, xty = f"(Rawr.toList {b.text})", "Sq"
        if self.has_return(body):
            # for x in bb { if c { return r; } }
            if mode not in ("value", "join") or len(body) != 1 or body[0][0] != "if" or len(body[0][1]) != 1 or body[0][2] is not None:
                raise TranslateError("for-loop with return: only `for x in bb { if c { return r; } }` is supported")
            (cond, blk) = body[0][1][0]
            if cond[0] != "cond" or len(blk) != 1 or blk[0][0] != "return" or blk[0][1] is None:
                raise TranslateError("for-loop with return: only `for x in bb { if c { return r; } }` is supported")
            sub = c.child()
            sub.env[x] = (lx, xty, False)
            sub.shortcircuit += 1
            ct = self.coerce(self.ex(cond[1], sub), "Bool", "condition")
            outer = c.child()
            rv = self.coerce(self.ex(blk[0][1], outer), c.rettype, "return value")   # must not mention the loop variable
            if outer.pending or sub.pending:
                raise TranslateError("possibly panicking expression in a loop with return")
            self.flush(c, ind, lines)
            lines.append(" " * ind + f"if ({lst}).any (fun {lx} => {ct.text}) then")
            lines.append(" " * (ind + 4) + (f"some {rv.text}" if mode == "join" else self.wrap(c, rv.text)))
            lines.append(" " * ind + "else")
            lines.extend(self.block(rest, c.child(), ind + 4, mode, fall))
            return True
        sub = c.child()
        sub.env[x] = (lx, xty, False)
        vars_ = self.assigned(body, sub, {x})
        for v in vars_:
            if v not in c.env:
                raise TranslateError("assignment to unknown variable " + v)
        if not vars_:
            raise TranslateError("for-loop without effect")
        names = [c.env[v][0] for v in vars_]
        tup = self.tuple_of(names)
        sub.monadic_loop = True
        saved = sub.monadic
        sub.monadic = False                    # no panicking expressions inside a fold
        try:
            inner = self.block(body, sub, ind + 4, "effect", lambda: tup)
        except NeedMonad as ex:
            raise TranslateError("possibly panicking expression inside a loop: " + str(ex))
        sub.monadic = saved
        self.flush(c, ind, lines)
        if len(names) == 1:
            ty = c.env[vars_[0]][1]
            lines.append(" " * ind + self.letline(names[0], ty, f"{lst}.foldl (fun {tup} {lx} =>"))
            lines.extend(inner)
            lines[-1] += f") {tup}"
        else:
            raise TranslateError("for-loop updating several variables")
        for n in names:
            self.invalidate(c, n)
        return False

    # ------------------------------------------------------------------ callbacks: the list of invocations
    def is_cb_call(self, e, c):
        return e[0] == "call" and e[1][0] == "path" and len(e[1][1]) == 1 and e[1][1][0] in c.env \
            and isinstance(c.env[e[1][1][0]][1], tuple) and c.env[e[1][1][0]][1][0] == "Fn"

    def has_calls(self, block, c):
        for s in block:
            if s[0] in ("expr", "tail") and self.is_cb_call(s[1], c):
                return True
            if s[0] == "if" and (any(self.has_calls(b, c) for _, b in s[1]) or (s[2] is not None and self.has_calls(s[2], c))):
                return True
            if s[0] == "for" and self.has_calls(s[3], c):
                return True
        return False

    def cb_item(self, e, c):
        """`func(piece, from, to, promo)` -> `Rawr.gm piece from to promo`."""
        tys = c.env[e[1][1][0]][1][1]
        if tys != ["Pc", "Sq", "Sq", "Pc"] or len(e[2]) != 4:
            raise TranslateError("callback of an unexpected type")
        as_ = [self.coerce(self.ex(a, c), t, "callback argument") for a, t in zip(e[2], tys)]
        if c.pending:
            raise TranslateError("possibly panicking expression in a callback argument")
        return self.app("Rawr.gm", as_)

    def emit_block(self, stmts, c, ind):
        """A block that calls the callback: the Lean term (lines) of the LIST of its invocations, in order.
        `func(a,b,c,d);` is `[gm a b c d]`, a sequence is `++`, `if` is `if`, `for x in bb` is `flatMap` over
        `toList bb` (`map` when the body is a single invocation), statements without invocation are `let`s."""
        lines, parts = [], []
        i = 0
        while i < len(stmts):
            s = stmts[i]
            k = s[0]
            if k in ("expr", "tail") and self.is_cb_call(s[1], c):
                items = []
                while i < len(stmts) and stmts[i][0] in ("expr", "tail") and self.is_cb_call(stmts[i][1], c):
                    items.append(self.cb_item(stmts[i][1], c))
                    i += 1
                parts.append(("lit", "[" + ", ".join(items) + "]"))
                continue
            if k == "if" and self.has_calls([s], c):
                _, branches, els = s
                blocks = [b for _, b in branches] + ([els] if els is not None else [])
                if any(self.has_return(b) for b in blocks) or any(self.assigned(b, c) for b in blocks):
                    raise TranslateError("an `if` that calls the callback may not assign outer variables or return")
                il = []
                self.chain(branches, els, c, ind + 4, il, lambda blk, sub, ind2: self.emit_block(blk, sub, ind2),
                           lambda sub, ind2: [" " * ind2 + "[]"])
                parts.append(("term", il))
            elif k == "for" and self.has_calls([s], c):
                _, pat, it, body = s
                if pat[0] != "pvar":
                    raise TranslateError("tuple pattern in for")
                x, lx = pat[1], lname(pat[1])
                b = self.ex(it, c)
                if b.ty != "BB":
                    raise TranslateError("for-loop over a non-bitboard")
                sub = c.child()
                sub.env[x] = (lx, "Sq", False)
                if self.has_return(body) or self.assigned(body, sub, {x}):
                    raise TranslateError("a loop that calls the callback may not assign outer variables or return")
                inner = self.emit_block(body, sub, ind + 8)
                single = inner[-1].strip()
                if single.startswith("[(Rawr.gm ") and single.endswith(")]") and single.count("Rawr.gm") == 1 \
                        and all(l.strip().startswith("let ") and l.startswith(" " * (ind + 8) + "let ") for l in inner[:-1]) \
                        and getattr(sub, "last_emit_single", False):
                    inner[-1] = inner[-1].replace(single, single[1:-1])
                    head = f"(Rawr.toList {b.text}).map (fun {lx} =>"
                else:
                    head = f"(Rawr.toList {b.text}).flatMap (fun {lx} =>"
                inner[-1] += ")"
                parts.append(("term", [" " * (ind + 4) + head] + inner))
            elif k == "let":
                self.do_let(s, c, ind, lines)
            elif k == "assign":
                self.do_assign(s, c, ind, lines)
            elif k == "if":
                if any(self.has_return(b) for _, b in s[1]) or (s[2] is not None and self.has_return(s[2])):
                    raise TranslateError("`return` in a function with a callback")
                self.effect_if(s[1], s[2], c, ind, lines)
            elif k == "for":
                if self.do_for(s, stmts[i + 1:], c, ind, lines, "effect", lambda: None):
                    raise TranslateError("for-loop with return in a function with a callback")
            else:
                raise TranslateError("statement not supported in a function with a callback: " + k)
            if c.pending:
                raise TranslateError("possibly panicking expression in a function with a callback")
            if parts and parts[-1][0] == "term":
                nm = c.fresh("calls")
                lines.append(" " * ind + f"let {nm} : List GMv :=")
                lines.extend(parts[-1][1])
                parts[-1] = ("name", nm)
            i += 1
        c.last_emit_single = len(parts) == 1 and parts[0][0] == "lit"
        if not parts:
            lines.append(" " * ind + "[]")
        elif len(parts) == 1 and parts[0][0] == "name" and lines and lines[-1] is not None and self._last_is(lines, parts[0][1], ind):
            # a single compound item at the very end: no need to name it
            self._inline_last(lines, parts[0][1], ind)
        else:
            lines.append(" " * ind + " ++ ".join(t[1] for t in parts))
        return lines

    @staticmethod
    def _last_is(lines, nm, ind):
        head = " " * ind + f"let {nm} : List GMv :="
        idx = max(k for k, l in enumerate(lines) if l == head) if head in lines else -1
        if idx < 0:
            return False
        return all(l.startswith(" " * (ind + 1)) for l in lines[idx + 1:])

    @staticmethod
    def _inline_last(lines, nm, ind):
        head = " " * ind + f"let {nm} : List GMv :="
        idx = max(k for k, l in enumerate(lines) if l == head)
        body = [l[4:] for l in lines[idx + 1:]]
        del lines[idx:]
        lines.extend(body)

    # ------------------------------------------------------------------ closures passed to a callback-taking method
    def closure_loop(self, e, c, ind, lines):
        """`obj.method(|a, b, c, d| { body })` where `method` takes a callback: the body runs once per invocation,
        in order: a fold over the list of invocations (`return;` in the body ends that invocation)."""
        info = self.method_info(e, c)
        recv = self.ex(e[1], c)
        clo = e[4][0]
        ps, body = clo[1], clo[2]
        if len(ps) != 4:
            raise TranslateError("closure of an unexpected arity")
        g = c.fresh("g")
        sub = c.child()
        binds = []
        for pn, (proj, ty) in zip(ps, ((".piece", "Pc"), (".mv.src", "Sq"), (".mv.dst", "Sq"), (".mv.promo", "Pc"))):
            lp = lname(pn)
            sub.env[pn] = (lp, ty, False)
            binds.append(" " * (ind + 4) + self.letline(lp, ty, g + proj))
        vars_ = self.assigned(body, sub, set(ps))
        for v in vars_:
            if v not in c.env:
                raise TranslateError("assignment to unknown variable " + v)
        if len(vars_) != 1:
            raise TranslateError("the closure must update exactly one captured variable")
        names = [c.env[v][0] for v in vars_]
        tup = self.tuple_of(names)
        saved = sub.monadic
        sub.monadic = False
        sub.in_closure = True
        sub.closure_fall = lambda: tup
        try:
            inner = self.block(body, sub, ind + 4, "effect", lambda: tup)
        except NeedMonad as ex:
            raise TranslateError("possibly panicking expression inside a closure: " + str(ex))
        sub.monadic = saved
        self.flush(c, ind, lines)
        ty = c.env[vars_[0]][1]
        text = self.app("R." + info.lean, [recv])
        lines.append(" " * ind + self.letline(names[0], ty, f"{text}.foldl (fun {tup} {g} =>"))
        lines.extend(binds)
        lines.extend(inner)
        lines[-1] += f") {tup}"
        self.invalidate(c, names[0])

    def is_closure_call(self, e, c):
        if e[0] == "mcall" and len(e[4]) == 1 and e[4][0][0] == "closure":
            info = self.method_info(e, c)
            return info is not None and getattr(info, "callback", False)
        return False

    def is_push(self, e, c):
        return e[0] == "mcall" and e[2] == "push" and len(e[4]) == 1 and e[1][0] == "path" and len(e[1][1]) == 1 \
            and e[1][1][0] in c.env and isinstance(c.env[e[1][1][0]][1], tuple) and c.env[e[1][1][0]][1][0] == "List"

    def ex_struct(self, e, c):
        segs, fields = e[1], e[2]
        if segs != ["Mv"] or [f for f, _ in fields] != ["from", "to", "promo"]:
            raise TranslateError("struct literal not supported: " + "::".join(segs))
        vals = [self.coerce(self.ex(v, c), MV_FIELDS[f][1], "Mv field") for f, v in fields]
        return Ex("({ " + ", ".join(f"{MV_FIELDS[f][0]} := {v.text}" for (f, _), v in zip(fields, vals)) + " } : Mv)", "Mv")

    # ------------------------------------------------------------------ functions
    def function(self, src, rust_name, what, key, lean_name, self_name="s"):
        """translate one Rust function; registers it under `key` and appends its Lean definition."""
        toks = find_fn(src, rust_name, what)
        fn = Parser(toks, f"{what}::{rust_name}").function()
        try:
            text, info = self.compile_fn(fn, lean_name, self_name, False, what)
        except NeedMonad:
            text, info = self.compile_fn(fn, lean_name, self_name, True, what)
        self.fns[key] = info
        self.out.append(text)

    @staticmethod
    def used_names(node, acc):
        if isinstance(node, tuple):
            if len(node) == 3 and node[0] == "path" and isinstance(node[1], list) and len(node[1]) == 1:
                acc.add(node[1][0])
            for x in node:
                Translator.used_names(x, acc)
        elif isinstance(node, list):
            for x in node:
                Translator.used_names(x, acc)
        return acc

    def functions_sharing_prefix(self, specs, prefix_lean, self_name="s"):
        """Several Rust functions whose bodies start with the same statements (compared as syntax trees): the shared
        statements are compiled ONCE, as `R.<prefix_lean>`, returning the tuple of the variables used later; each
        function then starts from that tuple.  specs: (source text, rust name, file, key, lean name)."""
        fns = [Parser(find_fn(src, rn, what), f"{what}::{rn}").function() for src, rn, what, _, _ in specs]
        k = 0
        while all(len(f["body"]) > k for f in fns) and all(f["body"][k] == fns[0]["body"][k] for f in fns):
            k += 1
        while k > 0 and fns[0]["body"][k - 1][0] != "let":
            k -= 1
        if k < 2 or any(f["self"] != "ref" or f["generics"] for f in fns):
            raise TranslateError("no shared statement prefix in " + ", ".join(sp[1] for sp in specs))
        used = set()
        for f in fns:
            self.used_names(f["body"][k:], used)
        pf = dict(fns[0], name=prefix_lean, params=[], body=fns[0]["body"][:k], ret=("ty", "Prefix", []))
        holder = [used]
        text, info = self.compile_fn_prefix(pf, prefix_lean, self_name, specs[0][2], holder)
        live = holder[1]
        self.out.append(text)
        for f, (src, rn, what, key, lean_name) in zip(fns, specs):
            g = dict(f, body=f["body"][k:])
            text, info = self.compile_fn(g, lean_name, self_name, False, what, prefix=(prefix_lean, live))
            self.fns[key] = info
            self.out.append(text)

    def compile_fn_prefix(self, fn, lean_name, self_name, what, holder):
        fn = dict(fn, ret=None)
        return self.compile_fn(fn, lean_name, self_name, False, what, prefix_live=holder)

    def compile_fn(self, fn, lean_name, self_name, monadic, what, prefix=None, prefix_live=None):
        """`prefix` = (lean name of the compiled shared prefix, [(rust name, lean name, type, mutable)]): the body of
        `fn` is then only the part AFTER the shared statements; `prefix_live` (a list to fill) makes this call compile
        the shared statements themselves, returning the tuple of the variables named in `prefix_live[0]`."""
        ret = conv_type(fn["ret"])
        mutself = fn["self"] == "mut"
        if mutself:
            if ret != "Unit":
                raise TranslateError("&mut self method with a return value")
            ret = "Pos"
        if ret == "Unit" and not any(t[0] == "fn" for _, t in fn["params"]) and prefix_live is None:
            raise TranslateError("function without a result")
        c = Ctx(self, monadic, ret)
        binders = []
        if fn["self"]:
            c.env["self"] = (self_name, "Pos", mutself)
            c.names.add(self_name)
            binders.append(f"({self_name} : Position)")
        params = []
        callback = None
        for p, t in fn["params"]:
            ty = conv_type(t)
            if isinstance(ty, tuple) and ty[0] == "Fn":
                if callback or ret != "Unit" or mutself:
                    raise TranslateError("callback parameter in an unsupported position")
                callback = p
                c.env[p] = (p, ty, False)
                continue
            lp = lname(p)
            c.env[p] = (lp, ty, False)
            c.names.add(lp)
            params.append((lp, ty))
            binders.append(f"({lp} : {lean_ty(ty)})")
        for g, t in fn["generics"]:
            ty = conv_type(t)
            c.env[g] = (g, ty, False)
            c.names.add(g)
            params.append((g, ty))
            binders.append(f"({g} : {lean_ty(ty)})")
        fall = (lambda: self.wrap(c, self_name)) if mutself else (lambda: None)
        pre_lines = []
        if prefix is not None:
            pname, live = prefix
            if monadic:
                raise TranslateError("shared prefix in a possibly panicking function")
            pre_lines.append(f"  let pre := (R.{pname} {self_name})")
            c.names.add("pre")
            for k, (rn, ln, ty, mut) in enumerate(live):
                proj = ".2" * k + (".1" if k < len(live) - 1 else "")
                pre_lines.append("  " + self.letline(ln, ty, "pre" + proj))
                c.env[rn] = (ln, ty, mut)
                c.names.add(ln)
        try:
            if prefix_live is not None:
                used = prefix_live[0]
                outer = set(c.env)

                def fin():
                    live = [(rn, c.env[rn][0], c.env[rn][1], c.env[rn][2]) for rn in c.env if rn not in outer and rn in used]
                    if len(live) < 2:
                        raise TranslateError("shared prefix with fewer than two live variables")
                    prefix_live.append(live)
                    return "(" + ", ".join(l[1] for l in live) + ")"
                if monadic or callback:
                    raise TranslateError("shared prefix: unsupported function kind")
                lines = self.block(fn["body"], c, 2, "effect", fin)
                ret = ("Tup", [l[2] for l in prefix_live[1]])
            elif callback:
                if monadic:
                    raise TranslateError("possibly panicking expression in a function with a callback")
                ret = ("List", "GMv")          # the callback invocations, in order
                c.rettype = ret
                lines = self.emit_block(fn["body"], c, 2)
            else:
                lines = self.block(fn["body"], c, 2, "value", fall)
        except TranslateError as ex:
            raise TranslateError(f"{what}::{fn['name']}: {ex}")
        rty = lean_ty(ret)
        if monadic:
            rty = "Option " + (f"({rty})" if " " in rty else rty)
        head = f"def {lean_name} {' '.join(binders)} : {rty} :=" + (" do" if monadic else "")
        lines = pre_lines + lines
        info = FnInfo(lean_name, params, ret, monadic, mutself, bool(fn["self"]))
        info.callback = bool(callback)
        return head + "\n" + "\n".join(lines) + "\n", info


# --------------------------------------------------------------------------------------------- driver
GETTERS = ["get_turn", "get_us", "get_them", "get_white", "get_black", "get_side", "get_empty", "get_occupied",
           "get_pawns", "get_knights", "get_bishops", "get_rooks", "get_queens", "get_kings", "get_piece"]


def read(rel):
    return strip_comments(open(os.path.join(REPO, rel)).read())


def generate():
    T = Translator()
    pos = read("src/chess/position.rs")
    T.out += ["-- GENERATED by tools/rust2lean_imp.py from /repo on every run. Do not edit.",
              "import Rawr.Model.MakeMove", "import Rawr.Model.Eval", "import Rawr.Model.CountMoves",
              "set_option linter.unusedVariables false", "namespace Rawr.R", "open Rawr", ""]
    # ---- position.rs
    for g in GETTERS + ["get_piece_on", "get_colour_on", "is_occupied", "is_empty", "is_capture"]:
        T.function(pos, g, "position.rs", "Position::" + g, g)
    # ---- flip.rs
    T.function(read("src/chess/flip.rs"), "flip", "flip.rs", "Position::flip", "flip")
    T.function(pos, "from_flipped", "position.rs", "Position::from_flipped", "from_flipped")
    # ---- zobrist.rs
    zb = read("src/chess/zobrist.rs")
    for f in ("get_index", "ep_key", "turn_key"):
        T.function(zb, f, "zobrist.rs", "zobrist::" + f, f)
        T.fns[f] = T.fns["zobrist::" + f]
    T.function(zb, "white_pov", "zobrist.rs", "Position::white_pov", "white_pov")
    T.function(zb, "predict_hash", "zobrist.rs", "Position::predict_hash", "predict_hash")
    T.function(zb, "calculate_hash", "zobrist.rs", "Position::calculate_hash", "calculate_hash")
    # ---- makenull.rs
    T.function(read("src/chess/makenull.rs"), "makenull", "makenull.rs", "Position::makenull", "makenull")
    # ---- attacks.rs
    at = read("src/chess/attacks.rs")
    T.function(at, "is_safe", "attacks.rs", "is_safe", "is_safe")
    for f in ("is_sq_attacked", "is_bb_attacked", "get_attacked", "in_check", "in_check_them"):
        T.function(at, f, "attacks.rs", "Position::" + f, f)
    # ---- validate.rs
    T.function(read("src/chess/validate.rs"), "validate", "validate.rs", "Position::validate", "validate")
    # ---- makemove.rs
    T.function(read("src/chess/makemove.rs"), "makemove", "makemove.rs", "Position::makemove", "makemove")
    T.function(read("src/chess/after_move.rs"), "after_move", "after_move.rs", "Position::after_move", "after_move")
    T.function(read("src/chess/after_null.rs"), "after_null", "after_null.rs", "Position::after_null", "after_null")
    # ---- eval.rs
    ev = read("src/search/eval.rs")
    for f in ("get_phase", "taper", "eval_us", "eval"):
        T.function(ev, f, "eval.rs", f, f)
    # ---- move_generator.rs, legal_moves.rs, legal_captures.rs, count_moves.rs
    T.functions_sharing_prefix([
        (read("src/chess/move_generator.rs"), "move_generator", "move_generator.rs", "Position::move_generator", "move_generator"),
        (read("src/chess/count_moves.rs"), "count_moves", "count_moves.rs", "Position::count_moves", "count_moves")],
        "move_generator_prefix")
    T.function(read("src/chess/legal_moves.rs"), "legal_moves", "legal_moves.rs", "Position::legal_moves", "legal_moves")
    T.function(read("src/chess/legal_captures.rs"), "legal_captures", "legal_captures.rs", "Position::legal_captures", "legal_captures")
    T.out.append("end Rawr.R\n")
    return "\n".join(T.out)


def main():
    try:
        txt = generate()
    except TranslateError as ex:
        print("TRANSLATE-ERROR " + str(ex))
        sys.exit(3)
    except NeedMonad as ex:
        print("TRANSLATE-ERROR unexpected panicking expression: " + str(ex))
        sys.exit(3)
    try:
        if open(OUT).read() == txt:
            print("rust2lean_imp: unchanged")
            return
    except FileNotFoundError:
        pass
    os.makedirs(os.path.dirname(OUT), exist_ok=True)
    open(OUT, "w").write(txt)
    print("rust2lean_imp: RustImp.lean rewritten")


if __name__ == "__main__":
    main()
