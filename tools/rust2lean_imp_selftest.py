#!/usr/bin/env python3
"""Mutation self-test of tools/rust2lean_imp.py + lean/Rawr/Proofs/RustImpAgree*.lean.

For each single-token / single-statement mutation of a translated Rust function (in a scratch copy of the repo):
re-run the translator (RAWR_REPO = the copy, output into a PRIVATE copy of the lake project) and rebuild the
agreement theorems.  A mutant is DETECTED when the translator reports TRANSLATE-ERROR or an agreement file no
longer compiles.  Every behaviour-changing mutant must be detected.

usage: rust2lean_imp_selftest.py [--repo /repo] [--lean /tmp/agents/w12/lean] [--translator tools/rust2lean_imp.py]
                                 [--work /tmp/rust2lean_imp_selftest] [--only N,M,..] [--timeout 300]
The lake project given by --lean is modified (Rawr/Generated/RustImp.lean) and restored at the end: never point it
at the shared /verif/lean.
"""
import argparse
import os
import shutil
import subprocess
import sys
import time

HERE = os.path.dirname(os.path.abspath(__file__))
TARGETS = ["Rawr.Proofs.RustImpAgree", "Rawr.Proofs.RustImpAgree_MakeMove", "Rawr.Proofs.RustImpAgree_MoveGen"]

# (file, old text, new text, kind)   kind: "B" behaviour-changing (must be detected), "N" behaviour-neutral
M = [
    # ---- flip.rs
    ("src/chess/flip.rs", "self.colours[1] = self.colours[1].flip();", "self.colours[1] = self.colours[0].flip();", "B"),
    ("src/chess/flip.rs", "        self.pieces[3] = self.pieces[3].flip();\n", "", "B"),
    ("src/chess/flip.rs", "(self.us_qsc, self.them_qsc) = (self.them_qsc, self.us_qsc);", "(self.us_qsc, self.them_qsc) = (self.us_qsc, self.them_qsc);", "B"),
    ("src/chess/flip.rs", "(self.castle_files[2], self.castle_files[0]);", "(self.castle_files[3], self.castle_files[0]);", "B"),
    ("src/chess/flip.rs", "self.turn = !self.turn;", "self.turn = self.turn;", "B"),
    ("src/chess/flip.rs", "Some(self.ep.unwrap().flip())", "Some(self.ep.unwrap())", "B"),
    # ---- makenull.rs
    ("src/chess/makenull.rs", "self.halfmoves = 0;", "self.halfmoves = 1;", "B"),
    ("src/chess/makenull.rs", "        self.ep = None;\n", "", "B"),
    ("src/chess/makenull.rs", "self.hash ^= zobrist::turn_key();", "self.hash |= zobrist::turn_key();", "B"),
    ("src/chess/makenull.rs", "        self.flip();\n        self.halfmoves = 0;\n", "        self.halfmoves = 0;\n        self.flip();\n", "N"),
    # ---- position.rs
    ("src/chess/position.rs", "Some(Piece::Knight)", "Some(Piece::Bishop)", "B"),
    ("src/chess/position.rs", "if self.pieces[Piece::Pawn as usize].is_set(sq) {\n            Some(Piece::Pawn)\n        } else if self.pieces[Piece::Knight as usize].is_set(sq) {\n            Some(Piece::Knight)",
     "if self.pieces[Piece::Knight as usize].is_set(sq) {\n            Some(Piece::Knight)\n        } else if self.pieces[Piece::Pawn as usize].is_set(sq) {\n            Some(Piece::Pawn)", "B"),
    ("src/chess/position.rs", "Some(!self.turn)", "Some(self.turn)", "B"),
    ("src/chess/position.rs", "self.get_them().is_set(mv.to)\n", "self.get_us().is_set(mv.to)\n", "B"),
    ("src/chess/position.rs", "self.ep.unwrap() == mv.to)", "self.ep.unwrap() == mv.from)", "B"),
    ("src/chess/position.rs", "pub fn get_white(&self) -> Bitboard {\n        if self.turn == Colour::White {", "pub fn get_white(&self) -> Bitboard {\n        if self.turn == Colour::Black {", "B"),
    ("src/chess/position.rs", "        !(self.colours[0] | self.colours[1])", "        !(self.colours[0] & self.colours[1])", "B"),
    # ---- makemove.rs
    ("src/chess/makemove.rs", "mv.to.0 - mv.from.0 == 16", "mv.to.0 - mv.from.0 == 8", "B"),
    ("src/chess/makemove.rs", "Some(Square(mv.to.0 - 8))", "Some(Square(mv.to.0 - 16))", "B"),
    ("src/chess/makemove.rs", "mv.to.0 > mv.from.0", "mv.to.0 >= mv.from.0", "B"),
    ("src/chess/makemove.rs", "mv.to.0 < mv.from.0 {", "mv.from.0 < mv.to.0 {", "B"),
    ("src/chess/makemove.rs", "self.colours[Side::Us as usize] ^= Bitboard::from_index(SquareIdx::G1);", "self.colours[Side::Us as usize] ^= Bitboard::from_index(SquareIdx::F1);", "B"),
    ("src/chess/makemove.rs", "let qsc_sq = Square::from_coords(self.castle_files[1], 0);", "let qsc_sq = Square::from_coords(self.castle_files[0], 0);", "B"),
    ("src/chess/makemove.rs", "self.halfmoves += 1;", "self.halfmoves += 2;", "B"),
    ("src/chess/makemove.rs", "            self.pieces[captured.unwrap() as usize] ^= bb_to;\n            self.halfmoves = 0;\n", "            self.pieces[captured.unwrap() as usize] ^= bb_to;\n", "B"),
    ("src/chess/makemove.rs", "self.pieces[captured.unwrap() as usize] ^= bb_to;", "self.pieces[captured.unwrap() as usize] |= bb_to;", "B"),
    ("src/chess/makemove.rs", "            self.colours[Side::Them as usize] ^= bb_to;\n            self.pieces[captured.unwrap() as usize] ^= bb_to;\n",
     "            self.pieces[captured.unwrap() as usize] ^= bb_to;\n            self.colours[Side::Them as usize] ^= bb_to;\n", "N"),
    ("src/chess/makemove.rs", "if mv.promo != Piece::None {", "if mv.promo == Piece::None {", "B"),
    ("src/chess/makemove.rs", "self.us_ksc &= mv.from != ksq_us && mv.from != ksc_us && mv.to != ksc_us;", "self.us_ksc &= mv.from != ksq_us && mv.from != ksc_us && mv.to != qsc_us;", "B"),
    ("src/chess/makemove.rs", "self.them_qsc &= mv.from", "self.them_qsc |= mv.from", "B"),
    ("src/chess/makemove.rs", "if self.turn == Colour::Black {", "if self.turn == Colour::White {", "B"),
    ("src/chess/makemove.rs", "self.fullmoves += 1;", "self.fullmoves -= 1;", "B"),
    ("src/chess/makemove.rs", "        self.flip();\n\n        #[cfg(debug_assertions)]", "\n        #[cfg(debug_assertions)]", "B"),
    ("src/chess/makemove.rs", "if UPDATE_HASH {\n            self.hash = self.predict_hash(mv);", "if !UPDATE_HASH {\n            self.hash = self.predict_hash(mv);", "B"),
    ("src/chess/makemove.rs", "mv.from.file() != mv.to.file() && captured.is_none()", "mv.from.file() == mv.to.file() && captured.is_none()", "B"),
    ("src/chess/makemove.rs", "self.colours[Side::Them as usize] ^= Bitboard::from_square(self.ep.unwrap()).south();", "self.colours[Side::Them as usize] ^= Bitboard::from_square(self.ep.unwrap()).north();", "B"),
    ("src/chess/makemove.rs", "let ksc_them = Square::from_coords(self.castle_files[2], 7);", "let ksc_them = Square::from_coords(self.castle_files[2], 0);", "B"),
    ("src/chess/makemove.rs", "self.pieces[piece.unwrap() as usize] ^= bb_from | bb_to;", "self.pieces[piece.unwrap() as usize] ^= bb_from & bb_to;", "B"),
    ("src/chess/makemove.rs", "self.pieces[mv.promo as usize] ^= bb_to;", "self.pieces[Piece::Queen as usize] ^= bb_to;", "B"),
    ("src/chess/makemove.rs", "debug_assert!(mv.from.0 < 64);", "debug_assert!(mv.from.0 < 63);", "N"),
    # ---- zobrist.rs
    ("src/chess/zobrist.rs", "colour as usize * 6 * 64", "colour as usize * 6 * 32", "B"),
    ("src/chess/zobrist.rs", "hash ^= KEYS_EP[mv.to.file() as usize];", "hash ^= KEYS_EP[mv.to.rank() as usize];", "B"),
    ("src/chess/zobrist.rs", "if self.us_qsc && mv.from == qsc_sq {\n            hash ^= KEYS_CASTLING[2 * self.turn as usize + 1];", "if self.us_qsc && mv.from == qsc_sq {\n            hash ^= KEYS_CASTLING[2 * self.turn as usize];", "B"),
    ("src/chess/zobrist.rs", "hash ^= KEYS[get_index(Colour::White, Piece::Bishop, sq)];", "hash ^= KEYS[get_index(Colour::White, Piece::Knight, sq)];", "B"),
    ("src/chess/zobrist.rs", "        if self.turn == Colour::Black {\n            hash ^= KEYS_TURN;\n        }\n", "        if self.turn == Colour::Black {\n        }\n", "B"),
    ("src/chess/zobrist.rs", "        if pov == Colour::White {\n            bb\n        } else {\n            bb.flip()\n        }", "        if pov == Colour::White {\n            bb.flip()\n        } else {\n            bb\n        }", "B"),
    ("src/chess/zobrist.rs", "hash ^= KEYS[get_index(!self.turn, captured.unwrap(), to)];", "hash ^= KEYS[get_index(self.turn, captured.unwrap(), to)];", "B"),
    ("src/chess/zobrist.rs", "Square::from_index(SquareIdx::D1).maybe_flip", "Square::from_index(SquareIdx::E1).maybe_flip", "B"),
    ("src/chess/zobrist.rs", "let sq = Square(mv.to.0 - 8).maybe_flip(self.turn == Colour::Black);", "let sq = Square(mv.to.0 - 8).maybe_flip(self.turn == Colour::White);", "B"),
    # ---- validate.rs
    ("src/chess/validate.rs", "0xFF000000000000FF", "0xFF000000000000FE", "B"),
    ("src/chess/validate.rs", "ep.rank() != 5", "ep.rank() != 4", "B"),
    ("src/chess/validate.rs", "(self.get_white() & self.get_kings()).count() != 1", "(self.get_white() & self.get_kings()).count() != 2", "B"),
    ("src/chess/validate.rs", "self.halfmoves < 0", "self.halfmoves <= 0", "B"),
    ("src/chess/validate.rs", 'Err("pawn rook overlap")', 'Err("pawn rook Overlap")', "B"),
    ("src/chess/validate.rs", "self.them_ksc && them_ksq.rank() != 7", "self.them_ksc && them_ksq.rank() != 0", "B"),
    ("src/chess/validate.rs", "self.is_sq_attacked(them_ksq, Side::Us)", "self.is_sq_attacked(them_ksq, Side::Them)", "B"),
    ("src/chess/validate.rs", ' else if (self.get_rooks() & self.get_kings()).is_occupied() {\n            return Err("rook king overlap");\n        }', "", "B"),
    ("src/chess/validate.rs", "(bb.south() & self.get_them() & self.get_pawns()).is_empty()", "(bb.south() & self.get_us() & self.get_pawns()).is_empty()", "B"),
    # ---- attacks.rs
    ("src/chess/attacks.rs", "if rays::pawns::<false>(pawns).is_set(sq) {", "if rays::pawns::<true>(pawns).is_set(sq) {", "B"),
    ("src/chess/attacks.rs", "let bq = self.get_side(side) & (self.get_bishops() | self.get_queens());\n        let rq = self.get_side(side) & (self.get_rooks() | self.get_queens());\n\n        // Pawns\n        if side == Side::Us\n            && rays::pawns::<true>(self.get_pawns() & self.get_side(side))",
     "let bq = self.get_side(side) & (self.get_bishops() & self.get_queens());\n        let rq = self.get_side(side) & (self.get_rooks() | self.get_queens());\n\n        // Pawns\n        if side == Side::Us\n            && rays::pawns::<true>(self.get_pawns() & self.get_side(side))", "B"),
    ("src/chess/attacks.rs", "        for sq in bb {\n            // Queens\n            if (magic::bishop_moves(sq.0 as i32, self.get_occupied().0) & bq).is_occupied()\n                ||", "        for sq in bb {\n            // Queens\n            if (magic::bishop_moves(sq.0 as i32, self.get_occupied().0) & bq).is_occupied()\n                &&", "B"),
    ("src/chess/attacks.rs", "for sq in mask & !attacked {", "for sq in mask & attacked {", "B"),
    ("src/chess/attacks.rs", "let ksq = (self.get_kings() & self.get_us()).lsb();\n        self.is_sq_attacked(ksq, Side::Them)", "let ksq = (self.get_kings() & self.get_us()).lsb();\n        self.is_sq_attacked(ksq, Side::Us)", "B"),
    ("src/chess/attacks.rs", "else if (magic::rook_moves(sq.0 as i32, blockers.0) & (rooks | queens)).is_occupied() {", "else if (magic::bishop_moves(sq.0 as i32, blockers.0) & (rooks | queens)).is_occupied() {", "B"),
    ("src/chess/attacks.rs", "else if Bitboard::from_square(ksq).adjacent().is_set(sq) {\n            return true;", "else if Bitboard::from_square(ksq).adjacent().is_set(sq) {\n            return false;", "B"),
    ("src/chess/attacks.rs", "attacked |= mask & rays::knights(self.get_knights() & self.get_side(side));", "attacked |= mask | rays::knights(self.get_knights() & self.get_side(side));", "B"),
    # ---- eval.rs
    ("src/search/eval.rs", "- pos.get_queens().count() * 4;", "- pos.get_queens().count() * 3;", "B"),
    ("src/search/eval.rs", "(phase * 256 + 12) / 24", "(phase * 256 + 11) / 24", "B"),
    ("src/search/eval.rs", "(score.mg() * (256 - phase))", "(score.mg() * (phase - 256))", "B"),
    ("src/search/eval.rs", "for i in 0..6 {", "for i in 0..5 {", "B"),
    ("src/search/eval.rs", "score += KING_PAWN_SHIELD *", "score += ROOK_OPEN_FILE *", "B"),
    ("src/search/eval.rs", "eval_us(pos) - eval_us(&Position::from_flipped(pos))", "eval_us(pos) + eval_us(&Position::from_flipped(pos))", "B"),
    ("src/search/eval.rs", "score += PST[i][sq.0 as usize];", "score += PST[i][sq.flip().0 as usize];", "B"),
    # ---- move_generator.rs
    ("src/chess/move_generator.rs", "            if to.rank() == 7 {\n                func(Piece::Pawn, Square(to.0 - 8), to, Piece::Queen);", "            if to.rank() == 6 {\n                func(Piece::Pawn, Square(to.0 - 8), to, Piece::Queen);", "B"),
    ("src/chess/move_generator.rs", "func(Piece::Pawn, Square(to.0 - 8), to, Piece::Queen);", "func(Piece::Pawn, Square(to.0 - 7), to, Piece::Queen);", "B"),
    ("src/chess/move_generator.rs", "                func(Piece::Pawn, Square(to.0 - 9), to, Piece::Queen);\n                func(Piece::Pawn, Square(to.0 - 9), to, Piece::Rook);\n",
     "                func(Piece::Pawn, Square(to.0 - 9), to, Piece::Rook);\n                func(Piece::Pawn, Square(to.0 - 9), to, Piece::Queen);\n", "B"),
    ("src/chess/move_generator.rs", "Bitboard(0xFF000000)", "Bitboard(0xFF0000)", "B"),
    ("src/chess/move_generator.rs", "            .north()\n            .east()", "            .north()\n            .west()", "B"),
    ("src/chess/move_generator.rs", "func(Piece::Pawn, Square(ep.0 - 9), ep, Piece::None);", "func(Piece::Pawn, Square(ep.0 - 7), ep, Piece::None);", "B"),
    ("src/chess/move_generator.rs", "if (allowed.is_set(ep) || allowed.north().is_set(ep))", "if (allowed.is_set(ep) && allowed.north().is_set(ep))", "B"),
    ("src/chess/move_generator.rs", "for from in self.get_knights() & self.get_us() & !pinned {", "for from in self.get_knights() & self.get_us() & pinned {", "B"),
    ("src/chess/move_generator.rs", "for to in mask & allowed & bxrays {\n                func(Piece::Bishop", "for to in mask & allowed {\n                func(Piece::Bishop", "B"),
    ("src/chess/move_generator.rs", "func(Piece::Queen, from, to, Piece::None);", "func(Piece::Rook, from, to, Piece::None);", "B"),
    ("src/chess/move_generator.rs", "                    self.get_occupied() ^ kbb,", "                    self.get_occupied() | kbb,", "B"),
    ("src/chess/move_generator.rs", "        if self.us_ksc\n            && !in_check", "        if self.us_ksc\n            && in_check", "B"),
    ("src/chess/move_generator.rs", "let ksc_king_path = line_between(ksq, Square::from_index(SquareIdx::G1));", "let ksc_king_path = line_between(ksq, Square::from_index(SquareIdx::F1));", "B"),
    ("src/chess/move_generator.rs", "&& !self.is_bb_attacked(qsc_king_path, Side::Them)", "&& !self.is_bb_attacked(qsc_king_path, Side::Us)", "B"),
    ("src/chess/move_generator.rs", "if all_attackers.count() > 1 {", "if all_attackers.count() > 2 {", "B"),
    ("src/chess/move_generator.rs", "xrays |= xray | ray_ne;", "xrays |= xray | ray_nw;", "B"),
    ("src/chess/move_generator.rs", "        for from in self.get_kings() & self.get_us() {\n            let kbb", "        for from in self.get_kings() & self.get_them() {\n            let kbb", "B"),
    # ---- count_moves.rs
    ("src/chess/count_moves.rs", "            4 * ((pawns_promo & !(hpinned | bpinned)).north()", "            3 * ((pawns_promo & !(hpinned | bpinned)).north()", "B"),
    ("src/chess/count_moves.rs", "Bitboard(0xFFFFFFFFFFFF)", "Bitboard(0xFFFFFFFFFF)", "B"),
    ("src/chess/count_moves.rs", "                    count += 1;", "                    count += 2;", "B"),
    ("src/chess/count_moves.rs", "count += (mask & allowed & rxrays).count()\n", "count += (mask & allowed).count()\n", "B"),
    ("src/chess/count_moves.rs", "for to in Bitboard::from_square(from).adjacent() & !self.get_us() {", "for to in Bitboard::from_square(from).adjacent() & self.get_us() {", "B"),
    ("src/chess/count_moves.rs", "let mut count = 0;", "let mut count = 1;", "B"),
    ("src/chess/count_moves.rs", "let rq = self.get_them() & (self.get_rooks() | self.get_queens());", "let rq = self.get_them() & (self.get_rooks() | self.get_kings());", "B"),
    ("src/chess/count_moves.rs", "let pinned = bpinned | rpinned;", "let pinned = bpinned & rpinned;", "B"),
    # ---- legal_captures.rs, legal_moves.rs
    ("src/chess/legal_captures.rs", "if !is_normal_capture && !is_ep_capture {", "if !is_normal_capture || !is_ep_capture {", "B"),
    ("src/chess/legal_captures.rs", "piece == Piece::Pawn && self.ep.is_some()", "piece == Piece::King && self.ep.is_some()", "B"),
    ("src/chess/legal_captures.rs", "to == self.ep.unwrap()", "from == self.ep.unwrap()", "B"),
    ("src/chess/legal_moves.rs", "movelist.push(Mv { from, to, promo });", "movelist.push(Mv { from: to, to: from, promo });", "B"),
    # ---- constructs outside the translated subset: TRANSLATE-ERROR
    ("src/chess/validate.rs", "if (self.get_white() & self.get_black()).is_occupied() {", "if (self.get_white() & self.get_black()).is_full() {", "B"),
    ("src/chess/makemove.rs", "let ksq_us = (self.get_us() & self.get_kings()).lsb();", "let ksq_us = (self.get_us() & self.get_kings()).hsb();", "B"),
    ("src/chess/flip.rs", "self.turn = !self.turn;", "self.turn = match self.turn { Colour::White => Colour::Black, Colour::Black => Colour::White };", "N"),
    ("src/chess/zobrist.rs", "        hash ^= KEYS_TURN;\n\n        hash\n", "        hash ^= KEYS_TURN;\n        while false {}\n\n        hash\n", "N"),
]


def run(cmd, cwd, env, timeout):
    try:
        r = subprocess.run(cmd, cwd=cwd, env=env, stdout=subprocess.PIPE, stderr=subprocess.STDOUT, text=True, timeout=timeout)
        return r.returncode, r.stdout
    except subprocess.TimeoutExpired as ex:
        return 124, (ex.stdout or "") + "\nTIMEOUT"


def main():
    ap = argparse.ArgumentParser()
    ap.add_argument("--repo", default=os.environ.get("RAWR_REPO", "/repo"))
    ap.add_argument("--lean", default="/tmp/agents/w12/lean")
    ap.add_argument("--translator", default=os.path.join(HERE, "rust2lean_imp.py"))
    ap.add_argument("--work", default="/tmp/rust2lean_imp_selftest")
    ap.add_argument("--only", default="")
    ap.add_argument("--timeout", type=int, default=400)
    a = ap.parse_args()
    if os.path.realpath(a.lean) == os.path.realpath("/verif/lean"):
        sys.exit("refusing to run in the shared /verif/lean: give a private copy with --lean")
    targets = [t for t in TARGETS if os.path.exists(os.path.join(a.lean, t.replace(".", "/") + ".lean"))]
    out_file = os.path.join(a.lean, "Rawr", "Generated", "RustImp.lean")
    scratch = os.path.join(a.work, "repo")
    shutil.rmtree(a.work, ignore_errors=True)
    os.makedirs(scratch)
    shutil.copytree(os.path.join(a.repo, "src"), os.path.join(scratch, "src"))

    def translate_and_check(repo):
        env = dict(os.environ, RAWR_REPO=repo, RAWR_IMP_OUT=out_file)
        rc, out = run([sys.executable, a.translator], a.lean, env, 60)
        if rc == 3:
            return "TRANSLATE-ERROR", out.strip().splitlines()[-1][:150]
        if rc != 0:
            return "TRANSLATOR-CRASH", out.strip()[-300:]
        rc, out = run(["lake", "build"] + targets, a.lean, dict(os.environ), a.timeout)
        if rc != 0:
            errs = [l for l in out.splitlines() if "error" in l]
            return "PROOF-FAILS", (errs[0] if errs else out[-200:])[:150]
        return "OK", ""

    t0 = time.time()
    st, msg = translate_and_check(a.repo)
    baseline = open(out_file).read()
    print(f"baseline: {st} {msg} ({time.time() - t0:.0f}s)", flush=True)
    if st != "OK":
        sys.exit(1)
    only = {int(x) for x in a.only.split(",") if x}
    results = []
    for i, (f, old, new, kind) in enumerate(M, 1):
        if only and i not in only:
            continue
        orig = open(os.path.join(a.repo, f)).read()
        if orig.count(old) < 1:
            print(f"{i:2d} {f}: pattern not found: {old[:50]!r}", flush=True)
            results.append((i, kind, "PATTERN-NOT-FOUND"))
            continue
        open(os.path.join(scratch, f), "w").write(orig.replace(old, new, 1))
        t1 = time.time()
        env = dict(os.environ, RAWR_REPO=scratch, RAWR_IMP_OUT=out_file)
        st, msg = translate_and_check(scratch)
        if st == "OK" and open(out_file).read() == baseline:
            st = "OK(same Lean text)"
        open(os.path.join(scratch, f), "w").write(orig)
        desc = (old.strip().splitlines()[0][:48] + " -> " + (new.strip().splitlines()[0][:40] if new.strip() else "<deleted>"))
        print(f"{i:2d} [{kind}] {os.path.basename(f):12s} {st:18s} {time.time() - t1:4.0f}s  {desc}   {msg}", flush=True)
        results.append((i, kind, st))
    # restore
    st, msg = translate_and_check(a.repo)
    print(f"restored: {st} {msg}", flush=True)
    b = [r for r in results if r[1] == "B"]
    n = [r for r in results if r[1] == "N"]
    det = lambda r: not r[2].startswith("OK")
    print(f"behaviour-changing mutants: {sum(map(det, b))}/{len(b)} detected "
          f"(TRANSLATE-ERROR {sum(r[2] == 'TRANSLATE-ERROR' for r in b)}, PROOF-FAILS {sum(r[2] == 'PROOF-FAILS' for r in b)})")
    print(f"behaviour-neutral mutants:  {sum(map(det, n))}/{len(n)} flagged")
    missed = [r[0] for r in b if not det(r)]
    if missed:
        print("MISSED:", missed)
        sys.exit(1)


if __name__ == "__main__":
    main()
