#!/usr/bin/env python3
"""The translators take some source text on trust instead of translating it: which traits are derived for the data types (structural
equality, Default), the operator impls of Bitboard (plain u64 operations), the iterator over a bitboard (least significant bit first),
`Not` for Colour / Side, the helpers of Square, the enum discriminants, the struct layouts, the Cargo profiles. This tool fingerprints
exactly those items; `vlib.trusted_text_check` compares them with tools/trusted_text.json (recorded on the tree the model was validated
against). A difference is reported as a broken obligation of the properties that rest on the item (the correspondence of the same run then
searches for a failing input).
usage: trusted_text.py [--write]      (RAWR_REPO selects the tree)"""
import hashlib
import json
import os
import re
import sys

REPO = os.environ.get("RAWR_REPO", "/repo")
HERE = os.path.dirname(os.path.abspath(__file__))
ALL = ["C%02d" % i for i in range(1, 20)]
SEARCH = ["C03", "C11", "C12", "C13", "C14", "C15", "C16", "C18", "C19"]


def read(rel):
    s = open(os.path.join(REPO, rel)).read()
    s = re.sub(r"//[^\n]*", "", s)
    return s


def norm(s):
    return re.sub(r"\s+", " ", s).strip()


def block(src, start_pat, what):
    m = re.search(start_pat, src)
    if not m:
        return "<missing: %s>" % what
    i = src.index("{", m.end() - 1) if "{" not in m.group(0) else m.end() - 1
    depth, j = 0, i
    while True:
        depth += (src[j] == "{") - (src[j] == "}")
        j += 1
        if depth == 0:
            break
    return norm(src[m.start():j])


def derives(src, name):
    m = re.search(r"#\[derive\(([^)]*)\)\]\s*(?:#\[[^\]]*\]\s*)*pub\s+(?:struct|enum)\s+" + name + r"\b", src)
    got = set(x.strip() for x in m.group(1).split(",")) if m else set()
    manual = re.findall(r"impl\s+(PartialEq|Eq|Default|Clone|Copy|PartialOrd|Ord|Hash)\s+for\s+" + name + r"\b", src)
    return "derive:" + ",".join(sorted(got & {"PartialEq", "Eq", "Default", "Copy", "Clone"})) + " manual:" + ",".join(sorted(manual))


def items():
    out = {}
    bb = read("src/chess/bitboard.rs")
    for tr in ("BitAnd", "Not", "BitAndAssign", "BitOrAssign", "BitXorAssign", "BitXor", "BitOr"):
        out["bitboard.rs impl " + tr] = (block(bb, r"impl\s+" + tr + r"\s+for\s+Bitboard\s*\{", tr), ALL)
    out["bitboard.rs type"] = (derives(bb, "Bitboard") + " " + norm(re.search(r"pub struct Bitboard[^;]*;", bb).group(0)), ALL)
    out["bitboarditer.rs"] = (norm(read("src/chess/bitboarditer.rs")), ALL)
    co = read("src/chess/colour.rs")
    out["colour.rs"] = (derives(co, "Colour") + " " + block(co, r"pub enum Colour\s*\{", "enum") + " " + block(co, r"impl\s+Not\s+for\s+Colour\s*\{", "Not"), ALL)
    si = read("src/chess/side.rs")
    out["side.rs"] = (derives(si, "Side") + " " + block(si, r"pub enum Side\s*\{", "enum") + " " + block(si, r"impl\s+Not\s+for\s+Side\s*\{", "Not"), ALL)
    sq = read("src/chess/square.rs")
    out["square.rs"] = (derives(sq, "Square") + " " + block(sq, r"impl\s+Square\s*\{", "impl Square"), ALL)
    pc = read("src/chess/piece.rs")
    out["piece.rs"] = (derives(pc, "Piece") + " " + block(pc, r"pub enum Piece\s*\{", "enum"), ALL)
    mv = read("src/chess/mv.rs")
    out["mv.rs type"] = (derives(mv, "Mv") + " " + block(mv, r"pub struct Mv\s*\{", "struct"), ALL)
    po = read("src/chess/position.rs")
    out["position.rs type"] = (derives(po, "Position") + " " + block(po, r"pub struct Position\s*\{", "struct") + " " + block(po, r"impl\s+Default\s+for\s+Position\s*\{", "Default"), ALL)
    tt = read("src/search/ttentry.rs")
    out["ttentry.rs"] = (norm(tt), SEARCH)
    st = read("src/search/stats.rs")
    out["stats.rs"] = (norm(st), SEARCH)
    se = read("src/search/settings.rs")
    out["settings.rs"] = (norm(se), SEARCH)
    sc = read("src/search/score.rs")
    out["score.rs type"] = (derives(sc, "Score") + " " + norm(re.search(r"pub struct Score[^;]*;", sc).group(0)), ["C17"] + SEARCH)
    ca = open(os.path.join(REPO, "Cargo.toml")).read()
    ca = re.sub(r"#[^\n]*", "", ca)
    prof = " ".join(norm(m.group(0)) for m in re.finditer(r"\[profile\.[^\]]*\][^\[]*", ca))
    feats = " ".join(norm(m.group(0)) for m in re.finditer(r"\[features\][^\[]*", ca))
    out["Cargo.toml profiles/features"] = (prof + " | " + feats, ALL)
    mr = read("src/main.rs")
    out["main.rs"] = (norm(mr), ["C03", "C05", "C09", "C11", "C13", "C14", "C15", "C16"])     # everything observed at process level
    return out


def fingerprints():
    return {k: {"sha": hashlib.sha256(v[0].encode()).hexdigest()[:16], "props": v[1]} for k, v in items().items()}


if __name__ == "__main__":
    fp = fingerprints()
    path = os.path.join(HERE, "trusted_text.json")
    if "--write" in sys.argv:
        json.dump(fp, open(path, "w"), indent=1, sort_keys=True)
        print("written", len(fp), "items")
    else:
        print(json.dumps(fp, indent=1, sort_keys=True))
