#!/usr/bin/env python3
"""Mini Rust -> Lean translator for the straight-line bitboard functions of kz04px/rawr.

Regenerates lean/Rawr/Generated/RustFns.lean from the CURRENT sources on every run. The hand-written model
definitions are then proved equal to the regenerated ones by `rfl` (lean/Rawr/Proofs/RustFnsAgree.lean), so for
these functions the tie between model and code is a translation re-checked on every run, not a sample.

Supported Rust subset: function bodies that are one expression, or `let mut x = e; x |= e; … ; e`, over
u64/Bitboard values with  << >> & | ^ !  , hex/decimal literals, `self.0`/`x.0`, method calls of the translated
functions themselves, `Bitboard(e)` / `Self(e)`, `Bitboard::from_square(s)`, `Bitboard::empty()`.
Anything else raises TranslateError (reported like a broken proof obligation).
"""
import os
import re
import sys

REPO = os.environ.get("RAWR_REPO", "/repo")
VERIF = os.path.dirname(os.path.dirname(os.path.abspath(__file__)))
OUT = os.path.join(VERIF, "lean", "Rawr", "Generated", "RustFns.lean")


class TranslateError(Exception):
    pass


TOK = re.compile(r"\s*(0x[0-9a-fA-F_]+(?:u64)?|\d+(?:u64|u8|i32)?|[A-Za-z_][A-Za-z0-9_]*|::|<<|>>|[().,&|^!;=<>{}\[\]-])")


def tokenize(src):
    src = re.sub(r"//[^\n]*", "", src)
    pos, out = 0, []
    while pos < len(src):
        if src[pos:].strip() == "":
            break
        m = TOK.match(src, pos)
        if not m:
            raise TranslateError("cannot tokenize near: " + src[pos:pos + 40])
        out.append(m.group(1))
        pos = m.end()
    return out


METHODS = {"north": "north", "south": "south", "east": "east", "west": "west", "north_east": "northEast",
           "north_west": "northWest", "south_east": "southEast", "south_west": "southWest", "north_north": "northNorth",
           "adjacent": "adjacent"}


class Parser:
    def __init__(self, toks, selfname="b"):
        self.t, self.i, self.selfname = toks, 0, selfname

    def peek(self):
        return self.t[self.i] if self.i < len(self.t) else None

    def eat(self, x=None):
        tok = self.peek()
        if tok is None or (x is not None and tok != x):
            raise TranslateError(f"expected {x!r}, got {tok!r}")
        self.i += 1
        return tok

    def expr(self):
        return self.binary(0)

    LEVELS = [["|"], ["^"], ["&"], ["<<", ">>"]]
    LEAN = {"|": "|||", "^": "^^^", "&": "&&&", "<<": "<<<", ">>": ">>>"}

    def binary(self, lvl):
        if lvl == len(self.LEVELS):
            return self.unary()
        left = self.binary(lvl + 1)
        while self.peek() in self.LEVELS[lvl]:
            op = self.eat()
            right = self.binary(lvl + 1)
            left = f"({left} {self.LEAN[op]} {right})"
        return left

    def unary(self):
        if self.peek() == "!":
            self.eat()
            return f"(~~~{self.unary()})"
        return self.postfix()

    def postfix(self):
        e = self.primary()
        while self.peek() == ".":
            self.eat(".")
            name = self.eat()
            if name == "0":
                continue                       # .0 : the u64 inside a Bitboard / the u8 inside a Square
            self.eat("(")
            self.eat(")")
            if name not in METHODS:
                raise TranslateError("method not in the translated set: " + name)
            e = f"(R.{METHODS[name]} {e})"
        return e

    def primary(self):
        tok = self.eat()
        if tok == "(":
            e = self.expr()
            self.eat(")")
            return e
        if re.match(r"0x", tok):
            return "0x" + re.sub(r"u64$", "", tok[2:]).replace("_", "") + "#64"
        if re.match(r"\d", tok):
            return re.sub(r"(u64|u8|i32)$", "", tok)
        if tok == "self":
            return self.selfname
        if tok in ("Bitboard", "Self"):
            if self.peek() == "::":
                self.eat("::")
                f = self.eat()
                self.eat("(")
                if f == "empty":
                    self.eat(")")
                    return "0#64"
                if f == "from_square":
                    a = self.expr()
                    self.eat(")")
                    return f"(R.fromSquare {a})"
                raise TranslateError("Bitboard::" + f + " not supported")
            self.eat("(")
            e = self.expr()
            if self.peek() == ",":
                self.eat(",")                  # trailing comma
            self.eat(")")
            return e
        if re.match(r"[A-Za-z_]", tok):
            return tok
        raise TranslateError("unexpected token " + tok)


def fn_body(src, name, what):
    m = re.search(r"fn\s+" + name + r"\s*(?:<[^>]*>)?\s*\(([^)]*)\)\s*->\s*[A-Za-z0-9_:]+\s*\{", src)
    if not m:
        raise TranslateError(f"{what}: fn {name} not found")
    i = m.end()
    depth, j = 1, i
    while depth:
        c = src[j]
        depth += (c == "{") - (c == "}")
        j += 1
    return m.group(1), src[i:j - 1]


def translate_block(body, selfname="b"):
    """`let mut x = e; x |= e; … ; e`  ->  nested lets"""
    toks = tokenize(body)
    stmts, cur = [], []
    for t in toks:
        if t == ";":
            stmts.append(cur)
            cur = []
        else:
            cur.append(t)
    if not cur:
        raise TranslateError("block without a final expression")
    lines = []
    for s in stmts:
        if s[0] == "let":
            k = 2 if s[1] == "mut" else 1
            var = s[k]
            if s[k + 1] != "=":
                raise TranslateError("let with a type annotation is not supported")
            p = Parser(s[k + 2:], selfname)
            e = p.expr()
            if p.peek() is not None:
                raise TranslateError("trailing tokens in let")
            lines.append(f"let {var} := {e}")
        elif len(s) > 2 and s[1] == "|" and s[2] == "=":
            p = Parser(s[3:], selfname)
            e = p.expr()
            if p.peek() is not None:
                raise TranslateError("trailing tokens in |=")
            lines.append(f"let {s[0]} := ({s[0]} ||| {e})")
        else:
            raise TranslateError("statement not supported: " + " ".join(s[:6]))
    p = Parser(cur, selfname)
    e = p.expr()
    if p.peek() is not None:
        raise TranslateError("trailing tokens in the final expression: " + str(p.peek()))
    return lines, e


def lean_def(name, params, lines, e):
    body = "".join(f"  {l}\n" for l in lines) + f"  {e}\n"
    return f"def {name} {params} : BB :=\n{body}"


def generate():
    bb = open(os.path.join(REPO, "src/chess/bitboard.rs")).read()
    rays = open(os.path.join(REPO, "src/chess/rays.rs")).read()
    ev = open(os.path.join(REPO, "src/search/eval.rs")).read()
    mg = open(os.path.join(REPO, "src/chess/move_generator.rs")).read()
    cm = open(os.path.join(REPO, "src/chess/count_moves.rs")).read()
    out = ["-- GENERATED by tools/rust2lean.py from /repo on every run. Do not edit.",
           "import Rawr.Model.Basic", "namespace Rawr.R", "open Rawr", ""]
    # Bitboard::from_square
    _, b = fn_body(bb, "from_square", "bitboard.rs")
    lines, e = translate_block(b.replace("sq.0", "sq"))
    out.append("def fromSquare (sq : Nat) : BB :=\n  " + e.replace("(1 <<< sq)", "(1#64 <<< sq)") + "\n")
    for rust, lean in METHODS.items():
        _, b = fn_body(bb, rust, "bitboard.rs")
        lines, e = translate_block(b)
        out.append(lean_def(lean, "(b : BB)", lines, e))
    for d in ("ne", "nw", "se", "sw", "n", "s", "e", "w"):
        _, b = fn_body(rays, "ray_" + d, "rays.rs")
        lines, e = translate_block(b)
        out.append(lean_def("ray" + d.upper(), "(sq : Nat) (blockers : BB)", lines, e))
    _, b = fn_body(rays, "knights", "rays.rs")
    lines, e = translate_block(b)
    out.append(lean_def("knights", "(bb : BB)", lines, e))
    # rays::pawns::<US> : `if US { a } else { b }`
    _, b = fn_body(rays, "pawns", "rays.rs")
    m = re.match(r"\s*if\s+US\s*\{(.*?)\}\s*else\s*\{(.*?)\}\s*$", b, re.S)
    if not m:
        raise TranslateError("rays.rs: pawns body not recognised")
    _, e1 = translate_block(m.group(1))
    _, e2 = translate_block(m.group(2))
    out.append(f"def pawns (us : Bool) (bb : BB) : BB :=\n  if us then {e1} else {e2}\n")
    for rust, lean, params in (("get_passed_pawns", "passedPawns", "(us them : BB)"), ("get_open_files", "openFiles", "(pawns : BB)")):
        _, b = fn_body(ev, rust, "eval.rs")
        lines, e = translate_block(b)
        out.append(lean_def(lean, params, lines, e))
    _, b = fn_body(ev, "get_king_shield", "eval.rs")
    lines, e = translate_block(b.replace("ksq", "ksq"))
    out.append(lean_def("kingShield", "(ksq : Nat)", lines, e))
    for src, nm, what in ((mg, "lineBetweenGen", "move_generator.rs"), (cm, "lineBetweenCount", "count_moves.rs")):
        _, b = fn_body(src, "line_between", what)
        b = b.replace("sq1.0", "sq1").replace("sq2.0", "sq2")
        b = re.sub(r"Bitboard\(\(1u64 << (sq[12])\) - 1\)", r"BELOW_\1", b)
        lines, e = translate_block(b)
        e = e.replace("BELOW_sq1", "(below sq1)").replace("BELOW_sq2", "(below sq2)")
        out.append(lean_def(nm, "(sq1 sq2 : Nat)", lines, e))
    out.append("end Rawr.R\n")
    return "\n".join(out)


OUT_TIME = os.path.join(VERIF, "lean", "Rawr", "Generated", "RustTime.lean")


def generate_time():
    """kept in a file of its own: a change to root.rs's clock arms must not touch the obligations of the bitboard / ray functions"""
    return "\n".join(["-- GENERATED by tools/rust2lean.py from /repo on every run. Do not edit.", "namespace Rawr.R", "",
                      time_budget(open(os.path.join(REPO, "src/search/root.rs")).read()), "end Rawr.R", ""])


class ArithParser(Parser):
    """u32 arithmetic of the clock arms: identifiers, literals, + - * / , .unwrap_or(n) .max(n) .min(n) .saturating_sub(n), parentheses, `as T`"""
    LEVELS = [["+", "-"], ["*", "/"]]
    LEAN = {"+": "+", "-": "-", "*": "*", "/": "/"}

    def unary(self):
        return self.postfix()

    def postfix(self):
        e = self.primary()
        while True:
            if self.peek() == ".":
                self.eat(".")
                name = self.eat()
                self.eat("(")
                arg = None if self.peek() == ")" else self.expr()
                self.eat(")")
                fn = {"unwrap_or": "Option.getD", "max": "Nat.max", "min": "Nat.min", "saturating_sub": "Nat.sub"}.get(name)
                if fn is None or arg is None:
                    raise TranslateError("clock arithmetic: method not supported: " + name)
                e = f"({fn} {e} {arg})"
            elif self.peek() == "as":
                self.eat("as")
                self.eat()
            else:
                return e

    def primary(self):
        tok = self.eat()
        if tok == "(":
            e = self.expr()
            self.eat(")")
            return e
        if re.match(r"\d", tok):
            return re.sub(r"(u64|u32|u8|i32|u128)$", "", tok)
        if re.match(r"[A-Za-z_]", tok):
            return tok
        raise TranslateError("clock arithmetic: unexpected token " + tok)


ATOK = re.compile(r"\s*(\d+(?:u64|u32|u8|i32|u128)?|[A-Za-z_][A-Za-z0-9_]*|[().,+*/-])")


def arith(src):
    pos, toks = 0, []
    while src[pos:].strip():
        m = ATOK.match(src, pos)
        if not m:
            raise TranslateError("clock arithmetic: cannot tokenize near: " + src[pos:pos + 40])
        toks.append(m.group(1))
        pos = m.end()
    p = ArithParser(toks)
    e = p.expr()
    if p.peek() is not None:
        raise TranslateError("clock arithmetic: trailing tokens: " + str(p.peek()))
    return e


def time_budget(root):
    """the two clock arms of `should_stop` in search::root::root"""
    root = re.sub(r"//[^\n]*", "", root)
    m = re.search(r"settings::Type::Time\(\s*wtime\s*,\s*btime\s*,\s*_\s*,\s*_\s*,\s*mtg\s*\)\s*=>\s*\{(.*?)\n\s*\}\s*\n\s*settings::Type::Movetime", root, re.S)
    if not m:
        raise TranslateError("root.rs: the Time arm of should_stop was not recognised")
    body = norm(m.group(1))
    m2 = re.fullmatch(r"let ustime = if pos\.get_turn\(\) == Colour::White \{ wtime \} else \{ btime \}; (.*)", body)
    if not m2:
        raise TranslateError("root.rs: the Time arm does not start with the choice of the mover's clock: " + body[:120])
    rest = m2.group(1).strip()
    lets = []
    while rest.startswith("let "):
        ml = re.match(r"let (?:mut )?([a-z_][a-z0-9_]*) = ([^;]*); (.*)", rest)
        if not ml:
            raise TranslateError("root.rs: Time arm: statement not supported: " + rest[:80])
        lets.append((ml.group(1), arith(ml.group(2))))
        rest = ml.group(3).strip()
    m3 = re.fullmatch(r"start\.elapsed\(\)\.as_millis\(\) >= (.*)", rest)
    if not m3:
        raise TranslateError("root.rs: Time arm: the comparison with the elapsed time was not recognised: " + rest[:120])
    e = arith(m3.group(1))
    mm = re.search(r"settings::Type::Movetime\(\s*time\s*\)\s*=>\s*start\.elapsed\(\)\.as_millis\(\)\s*>=\s*([^,\n]*),", root)
    if not mm:
        raise TranslateError("root.rs: the Movetime arm of should_stop was not recognised")
    e2 = arith(mm.group(1))
    ls = "".join(f"  let {v} := {x}\n" for v, x in lets)
    return ("-- search::root::root, closure should_stop: `start.elapsed().as_millis() >= <this>` (u32 arithmetic)\n"
            f"def timeBudget (whiteToMove : Bool) (wtime btime : Nat) (mtg : Option Nat) : Nat :=\n  let ustime := if whiteToMove then wtime else btime\n{ls}  {e}\n\n"
            f"def movetimeBudget (time : Nat) : Nat :=\n  {e2}\n")


def norm(s):
    return re.sub(r"\s+", " ", s).strip()


def emit(gen, path, name):
    """-> (ok, message)"""
    try:
        txt = gen()
    except TranslateError as ex:
        return False, "TRANSLATE-ERROR " + str(ex)
    try:
        if open(path).read() == txt:
            return True, f"rust2lean: {name} unchanged"
    except FileNotFoundError:
        pass
    open(path, "w").write(txt)
    return True, f"rust2lean: {name} rewritten"


def main():
    # two independent outputs; exit status: 0 ok, 3 RustFns failed, 4 only RustTime failed (the caller attributes the failure)
    ok1, m1 = emit(generate, OUT, "RustFns.lean")
    ok2, m2 = emit(generate_time, OUT_TIME, "RustTime.lean")
    print(m1 + " ; " + m2)
    sys.exit(0 if ok1 and ok2 else (3 if not ok1 else 4))


if __name__ == "__main__":
    main()
